(** Proofs about the model of the iterative connect phase (FV.Connect). *)
From Coq Require Import List ZArith Bool Arith Lia.
From FV Require Import Base Connect.
Import ListNotations.
Local Open Scope nat_scope.

Arguments phase_cache : simpl never.
Arguments phase_exchange : simpl never.
Arguments phase_outinfo : simpl never.
Arguments phase_pushinfo : simpl never.
Arguments phase_pushdata : simpl never.
Arguments phase_pull : simpl never.
Arguments helper_connect : simpl never.

(** * Tabulated overrides are pointwise updates *)

Lemma mem_In : forall x l, mem x l = true <-> In x l.
Proof.
  intros x l. unfold mem. rewrite existsb_exists. split.
  - intros [y [Hy He]]. apply Nat.eqb_eq in He. subst. exact Hy.
  - intros H. exists x. split; [exact H | apply Nat.eqb_refl].
Qed.

Lemma tlookup_map : forall (A : Type) (f : nat -> A) l x,
    tlookup x (map (fun y => (y, f y)) l) = if mem x l then Some (f x) else None.
Proof.
  intros A f l x. induction l as [|k r IH]; simpl; [reflexivity|].
  destruct (Nat.eqb x k) eqn:E.
  - apply Nat.eqb_eq in E. subst. reflexivity.
  - simpl. exact IH.
Qed.

Lemma override_spec : forall (A : Type) l (f g : nat -> A) x,
    override l f g x = if mem x l then f x else g x.
Proof.
  intros. unfold override, override_tbl. rewrite tlookup_map. destruct (mem x l); reflexivity.
Qed.

Lemma is_some_true : forall (A : Type) (o : option A), is_some o = true <-> exists x, o = Some x.
Proof. intros A [x|]; simpl; split; intros H; eauto; try discriminate. destruct H; discriminate. Qed.

Lemma is_some_false : forall (A : Type) (o : option A), is_some o = false <-> o = None.
Proof. intros A [x|]; simpl; split; intros H; congruence. Qed.

(** * One helper call *)
Section Call.
  Variable sp : spec.
  Variable c : comp.
  Variable a : args.

  Notation ph_cache := (phase_cache sp c a).
  Notation ph_ex := (phase_exchange sp c).
  Notation ph_oi := (phase_outinfo sp c).
  Notation ph_pi := (phase_pushinfo c).
  Notation ph_pd := (phase_pushdata sp c).
  Notation ph_pl := (phase_pull sp c).

  (** pointwise forms *)
  Lemma cache_wi : forall w i,
      wi (ph_cache w) i =
      if mem i (c_ins c)
      then mk_istate (in_exch (wi w i)) (upd_cache c (ex_eff sp c a w i) (in_cache (wi w i))) (in_data (wi w i))
      else wi w i.
  Proof. intros. unfold phase_cache. simpl. rewrite override_spec. reflexivity. Qed.

  Lemma cache_wo : forall w o,
      wo (ph_cache w) o =
      if mem o (c_outs c)
      then let st := wo w o in
           mk_ostate (o_info st) (o_exch st) (o_data st) (o_hinfo st) (o_ipushed st) (o_dpushed st)
                     (upd_cache c (pi_eff sp c a w o) (o_icache st)) (upd_cache c (pd_eff a w o) (o_dcache st))
      else wo w o.
  Proof. intros. unfold phase_cache. simpl. rewrite override_spec. reflexivity. Qed.

  Lemma ex_wi : forall w i,
      wi (ph_ex w) i =
      if mem i (c_ins c) && fires_ex sp w i
      then mk_istate (ex_req sp w i)
                     (match is_own (sp_in sp i) with Some _ => in_cache (wi w i) | None => None end)
                     (in_data (wi w i))
      else wi w i.
  Proof.
    intros. unfold phase_exchange. simpl. rewrite override_spec.
    destruct (mem i (c_ins c)); simpl; [|reflexivity]. destruct (fires_ex sp w i); reflexivity.
  Qed.

  Definition ex_count (w : world) (o : nat) : nat :=
    length (filter (fun i => fires_ex sp w i && Nat.eqb (is_src (sp_in sp i)) o) (c_ins c)).

  Lemma ex_count_zero : forall w o,
      mem o (map (fun i => is_src (sp_in sp i)) (c_ins c)) = false -> ex_count w o = 0.
  Proof.
    intros w o H. unfold ex_count.
    assert (G : forall l, mem o (map (fun i => is_src (sp_in sp i)) l) = false ->
                          filter (fun i => fires_ex sp w i && Nat.eqb (is_src (sp_in sp i)) o) l = []).
    { induction l as [|i r IH]; simpl; intros Hm; [reflexivity|].
      apply orb_false_iff in Hm. destruct Hm as [H1 H2].
      rewrite Nat.eqb_sym in H1. rewrite H1, andb_false_r. apply IH. exact H2. }
    rewrite (G _ H). reflexivity.
  Qed.

  Lemma ex_wo_fields : forall w o,
      let st := wo w o in let st' := wo (ph_ex w) o in
      o_info st' = o_info st /\ o_exch st' = o_exch st + ex_count w o /\ o_data st' = o_data st /\
      o_hinfo st' = o_hinfo st /\ o_ipushed st' = o_ipushed st /\ o_dpushed st' = o_dpushed st /\
      o_icache st' = o_icache st /\ o_dcache st' = o_dcache st.
  Proof.
    intros w o. unfold phase_exchange. simpl. rewrite override_spec.
    destruct (mem o _) eqn:E; simpl.
    - repeat split; reflexivity.
    - rewrite (ex_count_zero w o E). rewrite Nat.add_0_r. repeat split; reflexivity.
  Qed.

  Lemma oi_wo : forall w o,
      wo (ph_oi w) o =
      if mem o (c_outs c) && fires_oi sp w o
      then let st := wo w o in
           mk_ostate (o_info st) (o_exch st) (o_data st) (o_info st) (o_ipushed st) (o_dpushed st) (o_icache st) (o_dcache st)
      else wo w o.
  Proof.
    intros. unfold phase_outinfo. simpl. rewrite override_spec.
    destruct (mem o (c_outs c)); simpl; [|reflexivity]. destruct (fires_oi sp w o); reflexivity.
  Qed.

  Lemma pi_wo : forall w o,
      wo (ph_pi w) o =
      if mem o (c_outs c) && fires_pi w o
      then let st := wo w o in
           mk_ostate (o_icache st) (o_exch st) (o_data st) (o_hinfo st) true (o_dpushed st) None (o_dcache st)
      else wo w o.
  Proof.
    intros. unfold phase_pushinfo. simpl. rewrite override_spec.
    destruct (mem o (c_outs c)); simpl; [|reflexivity]. destruct (fires_pi w o); reflexivity.
  Qed.

  Lemma pd_wo : forall w o,
      wo (ph_pd w) o =
      if mem o (c_outs c) && fires_pd w o
      then let st := wo w o in
           match o_dcache st, o_hinfo st with
           | Some p, Some t => mk_ostate (o_info st) (o_exch st) (o_data st ++ pushed_entries sp o t p) (o_hinfo st)
                                         (o_ipushed st) true (o_icache st) None
           | _, _ => st
           end
      else wo w o.
  Proof.
    intros. unfold phase_pushdata. simpl. rewrite override_spec.
    destruct (mem o (c_outs c)); simpl; [|reflexivity]. destruct (fires_pd w o); reflexivity.
  Qed.

  Lemma pl_wi : forall w i,
      wi (ph_pl w) i =
      if mem i (c_ins c) && fires_pl sp w i
      then mk_istate (in_exch (wi w i)) (in_cache (wi w i)) (get_data sp w (is_src (sp_in sp i)))
      else wi w i.
  Proof.
    intros. unfold phase_pull. simpl. rewrite override_spec.
    destruct (mem i (c_ins c)); simpl; [|reflexivity]. destruct (fires_pl sp w i); reflexivity.
  Qed.

  (** membership of items in the declared list *)
  Lemma declared_in : forall i, In i (c_ins c) -> In (IInInfo i) (declared sp c).
  Proof.
    intros i H. unfold declared. apply in_or_app. left. apply in_flat_map. exists i. split; [exact H|]. left. reflexivity.
  Qed.
  Lemma declared_pull : forall i, In i (c_ins c) -> is_pull (sp_in sp i) = true -> In (IPulled i) (declared sp c).
  Proof.
    intros i H Hp. unfold declared. apply in_or_app. left. apply in_flat_map. exists i. split; [exact H|].
    rewrite Hp. right. left. reflexivity.
  Qed.
  Lemma declared_out : forall o, In o (c_outs c) ->
      In (IOutInfo o) (declared sp c) /\ In (IInfoPushed o) (declared sp c) /\ In (IDataPushed o) (declared sp c).
  Proof.
    intros o H. unfold declared. repeat split; apply in_or_app; right; apply in_flat_map; exists o; (split; [exact H|]); simpl; auto.
  Qed.

  Lemma declared_inv : forall it, In it (declared sp c) ->
      match it with
      | IInInfo i => In i (c_ins c)
      | IPulled i => In i (c_ins c) /\ is_pull (sp_in sp i) = true
      | IOutInfo o | IInfoPushed o | IDataPushed o => In o (c_outs c)
      end.
  Proof.
    intros it H. unfold declared in H. apply in_app_or in H. destruct H as [H|H]; apply in_flat_map in H; destruct H as [x [Hx Hi]].
    - destruct Hi as [Hi|Hi]; [subst; exact Hx|].
      destruct (is_pull (sp_in sp x)) eqn:E; simpl in Hi; [|contradiction].
      destruct Hi as [Hi|[]]. subst. split; assumption.
    - simpl in Hi. destruct Hi as [Hi|[Hi|[Hi|[]]]]; subst; exact Hx.
  Qed.

  (** ** Specification of a phase: monotone; the flag is false iff no item changed; a true flag
      comes with a declared item that became done *)
  Definition phase_ok (w w' : world) (b : bool) : Prop :=
    (forall it, done w it = true -> done w' it = true) /\
    (b = false -> forall it, done w' it = done w it) /\
    (b = true -> exists it, In it (declared sp c) /\ done w it = false /\ done w' it = true).

  Lemma phase_ok_seq : forall w1 w2 w3 b1 b2,
      phase_ok w1 w2 b1 -> phase_ok w2 w3 b2 -> phase_ok w1 w3 (b1 || b2).
  Proof.
    intros w1 w2 w3 b1 b2 [M1 [F1 T1]] [M2 [F2 T2]]. split; [|split].
    - intros it H. apply M2, M1, H.
    - intros Hb it. apply orb_false_iff in Hb. destruct Hb as [-> ->]. rewrite F2, F1; reflexivity.
    - intros Hb. destruct b1.
      + destruct (T1 eq_refl) as [it [Hin [Hd Hd']]]. exists it. repeat split; auto.
      + simpl in Hb. subst b2. destruct (T2 eq_refl) as [it [Hin [Hd Hd']]]. exists it. repeat split; auto.
        rewrite <- (F1 eq_refl it). exact Hd.
  Qed.

  Lemma cache_done : forall w it, done (ph_cache w) it = done w it.
  Proof.
    intros w it. destruct it as [i|i|o|o|o]; cbn;
      try (rewrite cache_wi; destruct (mem i (c_ins c)); reflexivity);
      rewrite cache_wo; destruct (mem o (c_outs c)); reflexivity.
  Qed.

  Lemma existsb_false : forall (A : Type) (f : A -> bool) l x, existsb f l = false -> In x l -> f x = false.
  Proof.
    intros A f l x H Hin. destruct (f x) eqn:E; [|reflexivity].
    assert (existsb f l = true) by (apply existsb_exists; exists x; auto). congruence.
  Qed.

  Lemma ex_ok : forall w, phase_ok w (ph_ex w) (existsb (fires_ex sp w) (c_ins c)).
  Proof.
    intros w. split; [|split].
    - intros it H. destruct it as [i|i|o|o|o]; cbn in *;
        try (rewrite ex_wi; destruct (mem i (c_ins c) && fires_ex sp w i) eqn:E; [|exact H]; simpl).
      + apply andb_true_iff in E. destruct E as [_ E]. unfold fires_ex in E.
        apply andb_true_iff in E. destruct E as [E _]. apply andb_true_iff in E. apply E.
      + exact H.
      + destruct (ex_wo_fields w o) as (_ & _ & _ & -> & _). exact H.
      + destruct (ex_wo_fields w o) as (_ & _ & _ & _ & -> & _). exact H.
      + destruct (ex_wo_fields w o) as (_ & _ & _ & _ & _ & -> & _). exact H.
    - intros Hb it. destruct it as [i|i|o|o|o]; cbn.
      + rewrite ex_wi. destruct (mem i (c_ins c)) eqn:Em; cbn; [|reflexivity].
        rewrite (existsb_false _ _ _ _ Hb (proj1 (mem_In _ _) Em)). reflexivity.
      + rewrite ex_wi. destruct (mem i (c_ins c) && fires_ex sp w i); reflexivity.
      + destruct (ex_wo_fields w o) as (_ & _ & _ & -> & _). reflexivity.
      + destruct (ex_wo_fields w o) as (_ & _ & _ & _ & -> & _). reflexivity.
      + destruct (ex_wo_fields w o) as (_ & _ & _ & _ & _ & -> & _). reflexivity.
    - intros Hb. apply existsb_exists in Hb. destruct Hb as [i [Hin Hf]].
      exists (IInInfo i). split; [apply declared_in; exact Hin|]. cbn. rewrite ex_wi.
      rewrite (proj2 (mem_In _ _) Hin), Hf. cbn.
      unfold fires_ex in Hf. apply andb_true_iff in Hf. destruct Hf as [Hf _]. apply andb_true_iff in Hf. destruct Hf as [H1 H2].
      split; [|exact H2]. apply negb_true_iff in H1. exact H1.
  Qed.

  Lemma oi_ok : forall w, phase_ok w (ph_oi w) (existsb (fires_oi sp w) (c_outs c)).
  Proof.
    intros w.
    assert (HI : forall i, wi (ph_oi w) i = wi w i) by reflexivity.
    split; [|split].
    - intros it H. destruct it as [i|i|o|o|o]; cbn in *; try exact H;
        rewrite oi_wo; destruct (mem o (c_outs c) && fires_oi sp w o) eqn:E; try exact H; cbn.
      apply andb_true_iff in E. destruct E as [_ E]. unfold fires_oi in E.
      apply andb_true_iff in E. destruct E as [E _]. apply andb_true_iff in E. apply E.
    - intros Hb it. destruct it as [i|i|o|o|o]; cbn; try reflexivity;
        rewrite oi_wo; destruct (mem o (c_outs c)) eqn:Em; cbn; try reflexivity;
          rewrite (existsb_false _ _ _ _ Hb (proj1 (mem_In _ _) Em)); reflexivity.
    - intros Hb. apply existsb_exists in Hb. destruct Hb as [o [Hin Hf]].
      exists (IOutInfo o). split; [apply declared_out; exact Hin|]. cbn. rewrite oi_wo.
      rewrite (proj2 (mem_In _ _) Hin), Hf. cbn.
      unfold fires_oi in Hf. apply andb_true_iff in Hf. destruct Hf as [Hf _]. apply andb_true_iff in Hf. destruct Hf as [H1 H2].
      split; [|exact H2]. apply negb_true_iff in H1. exact H1.
  Qed.

  Lemma pi_ok : forall w, phase_ok w (ph_pi w) (existsb (fires_pi w) (c_outs c)).
  Proof.
    intros w. split; [|split].
    - intros it H. destruct it as [i|i|o|o|o]; cbn in *; try exact H;
        rewrite pi_wo; destruct (mem o (c_outs c) && fires_pi w o) eqn:E; try exact H; cbn; reflexivity.
    - intros Hb it. destruct it as [i|i|o|o|o]; cbn; try reflexivity;
        rewrite pi_wo; destruct (mem o (c_outs c)) eqn:Em; cbn; try reflexivity;
          rewrite (existsb_false _ _ _ _ Hb (proj1 (mem_In _ _) Em)); reflexivity.
    - intros Hb. apply existsb_exists in Hb. destruct Hb as [o [Hin Hf]].
      exists (IInfoPushed o). split; [apply declared_out; exact Hin|]. cbn. rewrite pi_wo.
      rewrite (proj2 (mem_In _ _) Hin), Hf. cbn.
      unfold fires_pi in Hf. apply andb_true_iff in Hf. destruct Hf as [H1 _].
      split; [|reflexivity]. apply negb_true_iff in H1. exact H1.
  Qed.

  Lemma fires_pd_inv : forall w o, fires_pd w o = true ->
      o_dpushed (wo w o) = false /\ (exists p, o_dcache (wo w o) = Some p) /\ o_ipushed (wo w o) = true
      /\ exists t, o_hinfo (wo w o) = Some t.
  Proof.
    intros w o H. unfold fires_pd in H. repeat (apply andb_true_iff in H; destruct H as [H ?]).
    apply negb_true_iff in H. repeat split; auto; apply is_some_true; assumption.
  Qed.

  Lemma pd_ok : forall w, phase_ok w (ph_pd w) (existsb (fires_pd w) (c_outs c)).
  Proof.
    intros w. split; [|split].
    - intros it H. destruct it as [i|i|o|o|o]; cbn in *; try exact H;
        rewrite pd_wo; destruct (mem o (c_outs c) && fires_pd w o) eqn:E; try exact H; cbn;
          apply andb_true_iff in E; destruct E as [_ E]; destruct (fires_pd_inv _ _ E) as (_ & [p Hp] & _ & [t Ht]);
            rewrite Hp, Ht; cbn; try exact H; try reflexivity.
    - intros Hb it. destruct it as [i|i|o|o|o]; cbn; try reflexivity;
        rewrite pd_wo; destruct (mem o (c_outs c)) eqn:Em; cbn; try reflexivity;
          rewrite (existsb_false _ _ _ _ Hb (proj1 (mem_In _ _) Em)); reflexivity.
    - intros Hb. apply existsb_exists in Hb. destruct Hb as [o [Hin Hf]].
      exists (IDataPushed o). split; [apply declared_out; exact Hin|]. cbn. rewrite pd_wo.
      rewrite (proj2 (mem_In _ _) Hin), Hf. cbn.
      destruct (fires_pd_inv _ _ Hf) as (Hd & [p Hp] & _ & [t Ht]). rewrite Hp, Ht. cbn. split; [exact Hd|reflexivity].
  Qed.

  Lemma pl_ok : forall w, phase_ok w (ph_pl w) (existsb (fires_pl sp w) (c_ins c)).
  Proof.
    intros w.
    assert (HO : forall o, wo (ph_pl w) o = wo w o) by reflexivity.
    split; [|split].
    - intros it H. destruct it as [i|i|o|o|o]; cbn in *; try exact H;
        rewrite pl_wi; destruct (mem i (c_ins c) && fires_pl sp w i) eqn:E; try exact H; cbn.
      apply andb_true_iff in E. destruct E as [_ E]. unfold fires_pl in E. apply andb_true_iff in E. apply E.
    - intros Hb it. destruct it as [i|i|o|o|o]; cbn; try reflexivity.
      + rewrite pl_wi. destruct (mem i (c_ins c) && fires_pl sp w i); reflexivity.
      + rewrite pl_wi. destruct (mem i (c_ins c)) eqn:Em; cbn; [|reflexivity].
        rewrite (existsb_false _ _ _ _ Hb (proj1 (mem_In _ _) Em)). reflexivity.
    - intros Hb. apply existsb_exists in Hb. destruct Hb as [i [Hin Hf]].
      assert (Hf' := Hf). unfold fires_pl in Hf. repeat (apply andb_true_iff in Hf; destruct Hf as [Hf ?]).
      exists (IPulled i). split; [apply declared_pull; assumption|]. cbn. rewrite pl_wi.
      rewrite (proj2 (mem_In _ _) Hin), Hf'. cbn. split; [|assumption].
      match goal with Hn : negb _ = true |- _ => apply negb_true_iff in Hn; exact Hn end.
  Qed.

  Lemma all_done_spec : forall w, all_done sp c w = true <-> forall it, In it (declared sp c) -> done w it = true.
  Proof.
    intros w. unfold all_done. rewrite andb_true_iff, !forallb_forall. split.
    - intros [HI HO] it Hin. apply declared_inv in Hin. destruct it as [i|i|o|o|o]; cbn.
      + specialize (HI i Hin). apply andb_true_iff in HI. apply HI.
      + destruct Hin as [Hin Hp]. specialize (HI i Hin). apply andb_true_iff in HI. destruct HI as [_ HI].
        rewrite Hp in HI. cbn in HI. exact HI.
      + specialize (HO o Hin). apply andb_true_iff in HO. destruct HO as [HO _]. apply andb_true_iff in HO. apply HO.
      + specialize (HO o Hin). apply andb_true_iff in HO. destruct HO as [HO _]. apply andb_true_iff in HO. apply HO.
      + specialize (HO o Hin). apply andb_true_iff in HO. apply HO.
    - intros H. split.
      + intros i Hin. apply andb_true_iff. split.
        * apply (H (IInInfo i)). apply declared_in. exact Hin.
        * destruct (is_pull (sp_in sp i)) eqn:Ep; cbn; [|reflexivity].
          apply (H (IPulled i)). apply declared_pull; assumption.
      + intros o Hin. destruct (declared_out o Hin) as (H1 & H2 & H3).
        rewrite (H _ H1 : is_some _ = true), (H _ H2 : o_ipushed _ = true), (H _ H3 : o_dpushed _ = true). reflexivity.
  Qed.

  (** ** The whole call *)
  Definition any_done_flag (w : world) : bool :=
    let w1 := ph_cache w in
    let w2 := ph_ex w1 in let w3 := ph_oi w2 in let w4 := ph_pi w3 in let w5 := ph_pd w4 in
    existsb (fires_ex sp w1) (c_ins c) || existsb (fires_oi sp w2) (c_outs c) || existsb (fires_pi w3) (c_outs c)
    || existsb (fires_pd w4) (c_outs c) || existsb (fires_pl sp w5) (c_ins c).

  Lemma helper_connect_eq : forall w,
      helper_connect sp c a w =
      (fst (helper_connect sp c a w),
       if all_done sp c (fst (helper_connect sp c a w)) then CONNECTED
       else if any_done_flag w then CONNECTING else CONNECTING_IDLE).
  Proof. intros. reflexivity. Qed.

  Lemma call_ok : forall w, phase_ok w (fst (helper_connect sp c a w)) (any_done_flag w).
  Proof.
    intros w. unfold helper_connect, any_done_flag. cbn.
    set (w1 := ph_cache w). set (w2 := ph_ex w1). set (w3 := ph_oi w2). set (w4 := ph_pi w3). set (w5 := ph_pd w4).
    assert (H0 : phase_ok w w1 false).
    { split; [|split]; intros; try discriminate; unfold w1; rewrite cache_done; auto. }
    pose proof (phase_ok_seq _ _ _ _ _ H0 (ex_ok w1)) as H1. fold w2 in H1.
    pose proof (phase_ok_seq _ _ _ _ _ H1 (oi_ok w2)) as H2. fold w3 in H2.
    pose proof (phase_ok_seq _ _ _ _ _ H2 (pi_ok w3)) as H3. fold w4 in H3.
    pose proof (phase_ok_seq _ _ _ _ _ H3 (pd_ok w4)) as H4. fold w5 in H4.
    pose proof (phase_ok_seq _ _ _ _ _ H4 (pl_ok w5)) as H5.
    cbn in H5. exact H5.
  Qed.

  (** C06_progress_iff *)
  Lemma progress_iff : forall w w' st,
      helper_connect sp c a w = (w', st) ->
      (forall it, done w it = true -> done w' it = true)
      /\ (st = CONNECTED <-> (forall it, In it (declared sp c) -> done w' it = true))
      /\ (st = CONNECTING <->
          (exists it, In it (declared sp c) /\ done w' it = false)
          /\ (exists it, In it (declared sp c) /\ done w it = false /\ done w' it = true))
      /\ (st = CONNECTING_IDLE <->
          (exists it, In it (declared sp c) /\ done w' it = false)
          /\ (forall it, In it (declared sp c) -> done w' it = done w it))
      /\ st <> INITIALIZED.
  Proof.
    intros w w' st H.
    assert (Hw : fst (helper_connect sp c a w) = w') by (rewrite H; reflexivity).
    rewrite helper_connect_eq in H. rewrite Hw in H. injection H as Hst.
    pose proof (call_ok w) as [M [F T]]. rewrite Hw in M, F, T.
    assert (ND : all_done sp c w' = false -> exists it, In it (declared sp c) /\ done w' it = false).
    { intros Hf. unfold all_done in Hf.
      apply andb_false_iff in Hf. destruct Hf as [Hf|Hf].
      - assert (exists i, In i (c_ins c) /\ (is_some (in_exch (wi w' i)) && (negb (is_pull (sp_in sp i)) || is_some (in_data (wi w' i)))) = false) as [i [Hin Hi]].
        { clear -Hf. induction (c_ins c) as [|x r IH]; cbn in Hf; [discriminate|].
          apply andb_false_iff in Hf. destruct Hf as [Hf|Hf]; [exists x; split; [left; reflexivity|exact Hf]|].
          destruct (IH Hf) as [i [Hin Hi]]. exists i. split; [right; exact Hin|exact Hi]. }
        apply andb_false_iff in Hi. destruct Hi as [Hi|Hi].
        + exists (IInInfo i). split; [apply declared_in; exact Hin|exact Hi].
        + apply orb_false_iff in Hi. destruct Hi as [Hp Hd]. apply negb_false_iff in Hp.
          exists (IPulled i). split; [apply declared_pull; assumption|exact Hd].
      - assert (exists o, In o (c_outs c) /\ (is_some (o_hinfo (wo w' o)) && o_ipushed (wo w' o) && o_dpushed (wo w' o)) = false) as [o [Hin Ho]].
        { clear -Hf. induction (c_outs c) as [|x r IH]; cbn in Hf; [discriminate|].
          apply andb_false_iff in Hf. destruct Hf as [Hf|Hf]; [exists x; split; [left; reflexivity|exact Hf]|].
          destruct (IH Hf) as [o [Hin Ho]]. exists o. split; [right; exact Hin|exact Ho]. }
        destruct (declared_out o Hin) as (D1 & D2 & D3).
        apply andb_false_iff in Ho. destruct Ho as [Ho|Ho]; [apply andb_false_iff in Ho; destruct Ho as [Ho|Ho]|].
        + exists (IOutInfo o). split; assumption.
        + exists (IInfoPushed o). split; assumption.
        + exists (IDataPushed o). split; assumption. }
    split; [exact M|].
    destruct (all_done sp c w') eqn:EA.
    - pose proof (proj1 (all_done_spec w') EA) as HA. subst st.
      split; [split; auto|]. split; [|split; [|discriminate]].
      + split; [discriminate|]. intros [[it [Hin Hd]] _]. rewrite (HA it Hin) in Hd. discriminate.
      + split; [discriminate|]. intros [[it [Hin Hd]] _]. rewrite (HA it Hin) in Hd. discriminate.
    - destruct (ND eq_refl) as [it0 [Hin0 Hd0]].
      assert (NA : ~ (forall it, In it (declared sp c) -> done w' it = true)).
      { intros HA. rewrite (HA it0 Hin0) in Hd0. discriminate. }
      destruct (any_done_flag w) eqn:EF; subst st.
      + split; [split; [discriminate|intros HA; contradiction]|].
        split.
        { split; [|reflexivity]. intros _. split; [exists it0; split; assumption|]. apply T. reflexivity. }
        split; [|discriminate]. split; [discriminate|].
        intros [_ HS]. destruct (T eq_refl) as [it [Hin [Hd Hd']]]. rewrite (HS it Hin) in Hd'. congruence.
      + split; [split; [discriminate|intros HA; contradiction]|].
        split.
        { split; [discriminate|]. intros [_ [it [Hin [Hd Hd']]]]. rewrite (F eq_refl it) in Hd'. congruence. }
        split; [|discriminate]. split; [|reflexivity]. intros _. split; [exists it0; split; assumption|].
        intros it _. apply F. reflexivity.
  Qed.
End Call.

(** * The loop of Composition._connect_components *)
Section Loop.
  Variable sp : spec.

  Definition undone (L : list item) (w : world) : nat := length (filter (fun it => negb (done w it)) L).
  Definition nunconn (cs : list (comp * status)) : nat :=
    length (filter (fun x => negb (status_eqb (snd x) CONNECTED)) cs).
  Definition ninit (cs : list (comp * status)) : nat :=
    length (filter (fun x => status_eqb (snd x) INITIALIZED) cs).
  Definition mu (L : list item) (w : world) (cs : list (comp * status)) : nat := undone L w + nunconn cs + ninit cs.

  Definition mono (w w' : world) : Prop := forall it, done w it = true -> done w' it = true.

  Lemma mono_refl : forall w, mono w w. Proof. intros w it H. exact H. Qed.
  Lemma mono_trans : forall w1 w2 w3, mono w1 w2 -> mono w2 w3 -> mono w1 w3.
  Proof. intros w1 w2 w3 H1 H2 it H. apply H2, H1, H. Qed.

  Lemma undone_mono : forall L w w', mono w w' -> undone L w' <= undone L w.
  Proof.
    intros L w w' M. unfold undone. induction L as [|x r IH]; simpl; [lia|].
    destruct (done w x) eqn:E.
    - rewrite (M x E). simpl. exact IH.
    - simpl. destruct (negb (done w' x)); simpl; lia.
  Qed.

  Lemma undone_strict : forall L w w' it, mono w w' -> In it L -> done w it = false -> done w' it = true ->
                                          undone L w' < undone L w.
  Proof.
    intros L w w' it M. unfold undone. induction L as [|x r IH]; simpl; intros Hin Hd Hd'; [contradiction|].
    pose proof (undone_mono r w w' M) as Hle. unfold undone in Hle.
    destruct Hin as [->|Hin].
    - rewrite Hd, Hd'. simpl. lia.
    - specialize (IH Hin Hd Hd'). destruct (done w x) eqn:E.
      + rewrite (M x E). simpl. exact IH.
      + simpl. destruct (negb (done w' x)); simpl; lia.
  Qed.

  Definition sound (w : world) (cs : list (comp * status)) : Prop :=
    forall c st, In (c, st) cs -> st = CONNECTED -> forall it, In it (declared sp c) -> done w it = true.

  Lemma sound_mono : forall w w' cs, mono w w' -> sound w cs -> sound w' cs.
  Proof. intros w w' cs M HS c st Hin Hst it Hit. apply M. eapply HS; eauto. Qed.

  Lemma status_eqb_eq : forall a b, status_eqb a b = true <-> a = b.
  Proof. intros a b. destruct a, b; simpl; split; intros H; try reflexivity; try discriminate. Qed.

  Lemma iter_fst : forall cs k w, map fst (it_comps (iter sp k cs w)) = map fst cs.
  Proof.
    induction cs as [|[c st] r IH]; intros k w; cbn; [reflexivity|].
    destruct st; cbn; try (rewrite IH; reflexivity);
      destruct (helper_connect sp c (prov_args sp w) w) as [w1 st1]; cbn; rewrite IH; reflexivity.
  Qed.

  Lemma iter_mono : forall cs k w, mono w (it_world (iter sp k cs w)).
  Proof.
    induction cs as [|[c st] r IH]; intros k w; cbn; [apply mono_refl|].
    destruct st; cbn; try apply IH;
      destruct (helper_connect sp c (prov_args sp w) w) as [w1 st1] eqn:E; cbn;
        (eapply mono_trans; [exact (proj1 (progress_iff sp c (prov_args sp w) w w1 st1 E))|apply IH]).
  Qed.

  Lemma iter_sound : forall cs k w, sound w cs -> sound (it_world (iter sp k cs w)) (it_comps (iter sp k cs w)).
  Proof.
    induction cs as [|[c st] r IH]; intros k w HS; cbn; [intros ? ? []|].
    assert (Sr : sound w r) by (intros c' st' Hin; apply (HS c' st'); right; exact Hin).
    destruct st; cbn.
    - (* INITIALIZED *) intros c' st' [Heq|Hin] Hst; [inversion Heq; subst; discriminate|]. eapply IH; eauto.
    - destruct (helper_connect sp c (prov_args sp w) w) as [w1 st1] eqn:E; cbn.
      pose proof (progress_iff sp c (prov_args sp w) w w1 st1 E) as (M & HC & _).
      intros c' st' [Heq|Hin] Hst.
      + inversion Heq; subst. intros it Hit. apply (iter_mono r (S k) w1). apply (proj1 HC eq_refl). exact Hit.
      + eapply (IH (S k) w1); eauto. eapply sound_mono; eauto.
    - destruct (helper_connect sp c (prov_args sp w) w) as [w1 st1] eqn:E; cbn.
      pose proof (progress_iff sp c (prov_args sp w) w w1 st1 E) as (M & HC & _).
      intros c' st' [Heq|Hin] Hst.
      + inversion Heq; subst. intros it Hit. apply (iter_mono r (S k) w1). apply (proj1 HC eq_refl). exact Hit.
      + eapply (IH (S k) w1); eauto. eapply sound_mono; eauto.
    - (* CONNECTED *) intros c' st' [Heq|Hin] Hst.
      + inversion Heq; subst. intros it Hit. apply (iter_mono r (S k) w). eapply HS; [left; reflexivity|reflexivity|exact Hit].
      + eapply IH; eauto.
  Qed.

  Lemma iter_measure : forall L cs k w,
      (forall c st, In (c, st) cs -> incl (declared sp c) L) ->
      mu L (it_world (iter sp k cs w)) (it_comps (iter sp k cs w)) + (if it_new (iter sp k cs w) then 1 else 0)
      <= mu L w cs.
  Proof.
    intros L. unfold mu. induction cs as [|[c st] r IH]; intros k w HL; cbn; [lia|].
    assert (HLr : forall c' st', In (c', st') r -> incl (declared sp c') L) by (intros c' st' Hin; apply (HL c' st'); right; exact Hin).
    assert (HLc : incl (declared sp c) L) by (apply (HL c st); left; reflexivity).
    destruct st; cbn.
    - specialize (IH (S k) w HLr). unfold nunconn, ninit in *. cbn. destruct (it_new (iter sp (S k) r w)); lia.
    - destruct (helper_connect sp c (prov_args sp w) w) as [w1 st1] eqn:E; cbn.
      pose proof (progress_iff sp c (prov_args sp w) w w1 st1 E) as (M & HC & HG & HI & HN).
      specialize (IH (S k) w1 HLr). pose proof (undone_mono L w w1 M) as HU.
      unfold nunconn, ninit in *. cbn.
      destruct st1; cbn; try congruence.
      + destruct (proj1 HG eq_refl) as [_ [it [Hin [Hd Hd']]]].
        pose proof (undone_strict L w w1 it M (HLc it Hin) Hd Hd'). destruct (it_new (iter sp (S k) r w1)); lia.
      + destruct (it_new (iter sp (S k) r w1)); lia.
      + destruct (it_new (iter sp (S k) r w1)); lia.
    - destruct (helper_connect sp c (prov_args sp w) w) as [w1 st1] eqn:E; cbn.
      pose proof (progress_iff sp c (prov_args sp w) w w1 st1 E) as (M & HC & HG & HI & HN).
      specialize (IH (S k) w1 HLr). pose proof (undone_mono L w w1 M) as HU.
      unfold nunconn, ninit in *. cbn.
      destruct st1; cbn; try congruence.
      + destruct (proj1 HG eq_refl) as [_ [it [Hin [Hd Hd']]]].
        pose proof (undone_strict L w w1 it M (HLc it Hin) Hd Hd'). destruct (it_new (iter sp (S k) r w1)); lia.
      + destruct (it_new (iter sp (S k) r w1)); lia.
      + destruct (it_new (iter sp (S k) r w1)); lia.
    - specialize (IH (S k) w HLr). unfold nunconn, ninit in *. cbn. destruct (it_new (iter sp (S k) r w)); lia.
  Qed.

  Lemma unconnected_length : forall cs k, length (unconnected k cs) = nunconn cs.
  Proof.
    induction cs as [|[c st] r IH]; intros k; simpl; [reflexivity|].
    unfold nunconn in *. simpl. destruct (status_eqb st CONNECTED); simpl; rewrite IH; reflexivity.
  Qed.

  Lemma loop_sound : forall fuel cs w, sound w cs ->
      sound (r_world (loop sp fuel cs w)) (r_comps (loop sp fuel cs w)).
  Proof.
    induction fuel as [|f IH]; intros cs w HS; simpl; [exact HS|].
    pose proof (iter_sound cs 0 w HS) as HS'.
    destruct (unconnected 0 (it_comps (iter sp 0 cs w))); simpl; [exact HS'|].
    destruct (it_new (iter sp 0 cs w)); simpl; [apply IH; exact HS'|exact HS'].
  Qed.

  Lemma loop_fst : forall fuel cs w, map fst (r_comps (loop sp fuel cs w)) = map fst cs.
  Proof.
    induction fuel as [|f IH]; intros cs w; simpl; [reflexivity|].
    destruct (unconnected 0 (it_comps (iter sp 0 cs w))); simpl; [apply iter_fst|].
    destruct (it_new (iter sp 0 cs w)); simpl; [rewrite IH|]; apply iter_fst.
  Qed.

  Lemma loop_terminates : forall L fuel cs w,
      (forall c, In c (map fst cs) -> incl (declared sp c) L) ->
      mu L w cs <= fuel -> 1 <= fuel ->
      r_out (loop sp fuel cs w) <> OutOfFuel /\ r_iters (loop sp fuel cs w) <= Nat.max (mu L w cs) 1.
  Proof.
    intros L. induction fuel as [|f IH]; intros cs w HL Hmu H1; [lia|]. simpl.
    assert (HL' : forall c st, In (c, st) cs -> incl (declared sp c) L).
    { intros c st Hin. apply HL. apply in_map_iff. exists (c, st). split; [reflexivity|exact Hin]. }
    pose proof (iter_measure L cs 0 w HL') as HM.
    pose proof (unconnected_length (it_comps (iter sp 0 cs w)) 0) as HU.
    destruct (unconnected 0 (it_comps (iter sp 0 cs w))) as [|u0 ur] eqn:EU; simpl.
    - split; [discriminate|lia].
    - destruct (it_new (iter sp 0 cs w)) eqn:EN; simpl.
      + simpl in HU.
        assert (Hmu' : 1 <= mu L (it_world (iter sp 0 cs w)) (it_comps (iter sp 0 cs w))) by (unfold mu; lia).
        destruct (IH (it_comps (iter sp 0 cs w)) (it_world (iter sp 0 cs w))) as [HO HI].
        * intros c Hin. apply HL. rewrite <- (iter_fst cs 0 w). exact Hin.
        * lia.
        * lia.
        * split; [exact HO|lia].
      + split; [discriminate|lia].
  Qed.

  Lemma iter_init : forall l k w,
      iter sp k (map (fun c => (c, INITIALIZED)) l) w =
      mk_iter w (map (fun c => (c, CONNECTING)) l) [] (match l with [] => false | _ => true end).
  Proof.
    induction l as [|c r IH]; intros k w; simpl; [reflexivity|]. rewrite IH. reflexivity.
  Qed.

  Lemma nunconn_connecting : forall l, nunconn (map (fun c => (c, CONNECTING)) l) = length l.
  Proof. induction l as [|c r IH]; simpl; [reflexivity|]. unfold nunconn in *. simpl. rewrite IH. reflexivity. Qed.
  Lemma ninit_connecting : forall l, ninit (map (fun c => (c, CONNECTING)) l) = 0.
  Proof. induction l as [|c r IH]; simpl; [reflexivity|]. unfold ninit in *. simpl. exact IH. Qed.

  Lemma undone_le : forall L w, undone L w <= length L.
  Proof.
    intros L w. unfold undone. induction L as [|x r IH]; simpl; [lia|].
    destruct (negb (done w x)); simpl; lia.
  Qed.

  (** C06_terminates *)
  Lemma run_terminates : forall cs,
      r_out (connect_run sp cs) <> OutOfFuel
      /\ r_iters (connect_run sp cs) <= length (all_items sp cs) + length cs + 1.
  Proof.
    intros cs. unfold connect_run, enough_fuel.
    replace (length (all_items sp cs) + length cs + 2) with (S (length (all_items sp cs) + length cs + 1)) by lia.
    simpl. rewrite iter_init. simpl.
    destruct cs as [|c0 r]; simpl; [split; [discriminate|lia]|].
    set (l := c0 :: r).
    change ((c0, CONNECTING) :: map (fun c => (c, CONNECTING)) r) with (map (fun c => (c, CONNECTING)) l).
    set (L := all_items sp l).
    destruct (loop_terminates L (length L + length l + 1) (map (fun c => (c, CONNECTING)) l) (init_world sp)) as [HO HI].
    - intros c Hin. rewrite map_map in Hin. simpl in Hin. rewrite map_id in Hin.
      unfold L, all_items. intros it Hit. apply in_flat_map. exists c. split; assumption.
    - unfold mu. rewrite nunconn_connecting, ninit_connecting. pose proof (undone_le L (init_world sp)). lia.
    - lia.
    - unfold mu in HI. rewrite nunconn_connecting, ninit_connecting in HI. pose proof (undone_le L (init_world sp)) as HU.
      assert (Hlen : length l = S (length r)) by reflexivity.
      change (declared sp c0 ++ all_items sp r) with L. change (S (length r)) with (length l).
      split; [exact HO|]. lia.
  Qed.

  (** C06_connected_sound for the composition loop *)
  Lemma run_sound : forall cs c st,
      In (c, st) (r_comps (connect_run sp cs)) -> st = CONNECTED ->
      forall it, In it (declared sp c) -> done (r_world (connect_run sp cs)) it = true.
  Proof.
    intros cs c st Hin Hst. unfold connect_run in Hin |- *.
    eapply loop_sound; eauto.
    intros c' st' Hin' Hst'. apply in_map_iff in Hin'. destruct Hin' as [x [Hx _]]. inversion Hx. congruence.
  Qed.
End Loop.

Lemma forallb_ext_in' : forall (A : Type) (f g : A -> bool) l,
    (forall x, In x l -> f x = g x) -> forallb f l = forallb g l.
Proof.
  intros A f g l. induction l as [|x r IH]; intros H; simpl; [reflexivity|].
  rewrite (H x (or_introl eq_refl)), IH; [reflexivity|]. intros y Hy. apply H. right. exact Hy.
Qed.

(** * Frame: a call of [c] changes items of [c]'s own slots only *)
Section Frame.
  Variable sp : spec.
  Variable c : comp.
  Variable a : args.

  Lemma frame_wi : forall w i, mem i (c_ins c) = false -> wi (fst (helper_connect sp c a w)) i = wi w i.
  Proof.
    intros w i H. unfold helper_connect. cbn [fst].
    rewrite pl_wi, H. cbn [andb].
    change (wi (phase_pushdata sp c ?x) i) with (wi x i).
    unfold phase_pushdata, phase_pushinfo, phase_outinfo. cbn [wi].
    rewrite ex_wi, H. cbn [andb]. rewrite cache_wi, H. reflexivity.
  Qed.

  Lemma frame_wo : forall w o, mem o (c_outs c) = false ->
      let st := wo w o in let st' := wo (fst (helper_connect sp c a w)) o in
      o_hinfo st' = o_hinfo st /\ o_ipushed st' = o_ipushed st /\ o_dpushed st' = o_dpushed st.
  Proof.
    intros w o H. unfold helper_connect. cbn [fst].
    change (wo (phase_pull sp c ?x) o) with (wo x o).
    rewrite pd_wo, H. cbn [andb]. rewrite pi_wo, H. cbn [andb]. rewrite oi_wo, H. cbn [andb].
    destruct (ex_wo_fields sp c (phase_cache sp c a w) o) as (_ & _ & _ & -> & -> & -> & _).
    rewrite cache_wo, H. repeat split; reflexivity.
  Qed.

  Lemma all_done_frame : forall c2 w,
      (forall i, In i (c_ins c2) -> mem i (c_ins c) = false) ->
      (forall o, In o (c_outs c2) -> mem o (c_outs c) = false) ->
      all_done sp c2 (fst (helper_connect sp c a w)) = all_done sp c2 w.
  Proof.
    intros c2 w HI HO. unfold all_done. f_equal.
    - apply forallb_ext_in'. intros i Hin. rewrite (frame_wi w i (HI i Hin)). reflexivity.
    - apply forallb_ext_in'. intros o Hin. destruct (frame_wo w o (HO o Hin)) as (-> & -> & ->). reflexivity.
  Qed.
End Frame.

(** * The stall report lists exactly the components that did not complete *)
Section Stall.
  Variable sp : spec.

  Definition exactF (w : world) (cs : list (comp * status)) : Prop :=
    Forall (fun x => snd x = CONNECTED <-> all_done sp (fst x) w = true) cs.

  Lemma NoDup_app_inv : forall (A : Type) (a b : list A),
      NoDup (a ++ b) -> NoDup b /\ forall x, In x a -> ~ In x b.
  Proof.
    intros A a b. induction a as [|y r IH]; simpl; intros H; [split; [exact H|intros x []]|].
    apply NoDup_cons_iff in H. destruct H as [Hn H]. destruct (IH H) as [Hb Hd]. split; [exact Hb|].
    intros x [->|Hx]; [intros Hin; apply Hn; apply in_or_app; right; exact Hin|apply Hd; exact Hx].
  Qed.

  Lemma mem_false : forall x l, ~ In x l -> mem x l = false.
  Proof. intros x l H. destruct (mem x l) eqn:E; [|reflexivity]. apply mem_In in E. contradiction. Qed.

  Definition apart (c : comp) (r : list comp) : Prop :=
    forall c', In c' r ->
               (forall i, In i (c_ins c) -> mem i (c_ins c') = false)
               /\ (forall o, In o (c_outs c) -> mem o (c_outs c') = false).

  Lemma disjoint_cons : forall c r, disjoint_slots (c :: r) -> disjoint_slots r /\ apart c r.
  Proof.
    intros c r [HI HO]. simpl in HI, HO.
    destruct (NoDup_app_inv _ _ _ HI) as [HI' DI]. destruct (NoDup_app_inv _ _ _ HO) as [HO' DO].
    split; [split; assumption|]. intros c' Hc'. split.
    - intros i Hi. apply mem_false. intros Hin. apply (DI i Hi). apply in_flat_map. exists c'. split; assumption.
    - intros o Ho. apply mem_false. intros Hin. apply (DO o Ho). apply in_flat_map. exists c'. split; assumption.
  Qed.

  Lemma all_done_mono : forall c w w', mono w w' -> all_done sp c w = true -> all_done sp c w' = true.
  Proof.
    intros c w w' M H. apply all_done_spec. intros it Hin. apply M. apply (proj1 (all_done_spec sp c w) H). exact Hin.
  Qed.

  Lemma iter_frame : forall r k w c, apart c (map fst r) ->
      all_done sp c (it_world (iter sp k r w)) = all_done sp c w.
  Proof.
    induction r as [|[c' st] r IH]; intros k w c HA; cbn; [reflexivity|].
    assert (HA' : apart c (map fst r)) by (intros x Hx; apply HA; right; exact Hx).
    destruct (HA c' (or_introl eq_refl)) as [HI HO].
    destruct st; cbn; try (apply IH; exact HA').
    - destruct (helper_connect sp c' (prov_args sp w) w) as [w1 st1] eqn:E; cbn. rewrite IH by exact HA'.
      replace w1 with (fst (helper_connect sp c' (prov_args sp w) w)) by (rewrite E; reflexivity).
      apply all_done_frame; assumption.
    - destruct (helper_connect sp c' (prov_args sp w) w) as [w1 st1] eqn:E; cbn. rewrite IH by exact HA'.
      replace w1 with (fst (helper_connect sp c' (prov_args sp w) w)) by (rewrite E; reflexivity).
      apply all_done_frame; assumption.
  Qed.

  Lemma iter_exact : forall cs k w,
      disjoint_slots (map fst cs) -> (forall c st, In (c, st) cs -> st <> INITIALIZED) -> sound sp w cs ->
      exactF (it_world (iter sp k cs w)) (it_comps (iter sp k cs w)).
  Proof.
    induction cs as [|[c st] r IH]; intros k w HD HN HS; cbn; [constructor|].
    simpl in HD. destruct (disjoint_cons _ _ HD) as [HDr HA].
    assert (HNr : forall c' st', In (c', st') r -> st' <> INITIALIZED) by (intros c' st' Hin; apply (HN c' st'); right; exact Hin).
    assert (HSr : sound sp w r) by (intros c' st' Hin; apply (HS c' st'); right; exact Hin).
    destruct st; cbn.
    - exfalso. apply (HN c INITIALIZED); [left|]; reflexivity.
    - destruct (helper_connect sp c (prov_args sp w) w) as [w1 st1] eqn:E; cbn.
      pose proof (progress_iff sp c (prov_args sp w) w w1 st1 E) as (M & HC & _).
      constructor; [|apply IH; auto; eapply sound_mono; eauto]. cbn. rewrite (iter_frame r (S k) w1 c HA).
      rewrite HC. symmetry. apply all_done_spec.
    - destruct (helper_connect sp c (prov_args sp w) w) as [w1 st1] eqn:E; cbn.
      pose proof (progress_iff sp c (prov_args sp w) w w1 st1 E) as (M & HC & _).
      constructor; [|apply IH; auto; eapply sound_mono; eauto]. cbn. rewrite (iter_frame r (S k) w1 c HA).
      rewrite HC. symmetry. apply all_done_spec.
    - constructor; [|apply IH; auto]. cbn. rewrite (iter_frame r (S k) w c HA). split; [|reflexivity].
      intros _. apply all_done_spec. apply (HS c CONNECTED); [left|]; reflexivity.
  Qed.

  Lemma unconnected_stuck : forall cs w k, exactF w cs -> unconnected k cs = stuck_idx sp w k (map fst cs).
  Proof.
    induction cs as [|[c st] r IH]; intros w k H; simpl; [reflexivity|].
    inversion H as [|x l Hx Hl]; subst. cbn in Hx. rewrite (IH w (S k) Hl).
    destruct (status_eqb st CONNECTED) eqn:E.
    - apply status_eqb_eq in E. rewrite (proj1 Hx E). reflexivity.
    - destruct (all_done sp c w) eqn:EA; [|reflexivity].
      rewrite (proj2 Hx eq_refl) in E. discriminate.
  Qed.

  Lemma unconnected_nil : forall cs k, unconnected k cs = [] -> forall c st, In (c, st) cs -> st = CONNECTED.
  Proof.
    induction cs as [|[c st] r IH]; intros k H c' st' Hin; [destruct Hin|]. simpl in H.
    destruct (status_eqb st CONNECTED) eqn:E; [|discriminate].
    destruct Hin as [Heq|Hin]; [inversion Heq; subst; apply status_eqb_eq; exact E|eapply IH; eauto].
  Qed.

  Lemma iter_new_init : forall cs k w c, In (c, INITIALIZED) cs -> it_new (iter sp k cs w) = true.
  Proof.
    induction cs as [|[c0 st] r IH]; intros k w c Hin; [destruct Hin|].
    destruct Hin as [Heq|Hin].
    - inversion Heq; subst. reflexivity.
    - cbn. destruct st; cbn; try (eapply IH; eauto); try reflexivity;
        destruct (helper_connect sp c0 (prov_args sp w) w) as [w1 st1]; cbn; rewrite (IH (S k) w1 c Hin); apply orb_true_r.
  Qed.

  Lemma loop_outcome : forall fuel cs w,
      disjoint_slots (map fst cs) -> sound sp w cs ->
      let r := loop sp fuel cs w in
      (r_out r = Success -> forall c st, In (c, st) (r_comps r) -> st = CONNECTED)
      /\ (forall L, r_out r = Circular L -> L = stuck_idx sp (r_world r) 0 (map fst cs) /\ L <> []).
  Proof.
    induction fuel as [|f IH]; intros cs w HD HS; cbn; [split; [discriminate|intros L; discriminate]|].
    pose proof (iter_sound sp cs 0 w HS) as HS'.
    destruct (unconnected 0 (it_comps (iter sp 0 cs w))) as [|u0 ur] eqn:EU; cbn.
    - split; [|intros L; discriminate]. intros _. eapply unconnected_nil; eauto.
    - destruct (it_new (iter sp 0 cs w)) eqn:EN; cbn.
      + assert (HD' : disjoint_slots (map fst (it_comps (iter sp 0 cs w)))) by (rewrite iter_fst; exact HD).
        destruct (IH _ _ HD' HS') as [H1 H2]. split; [exact H1|].
        intros L HL. rewrite <- (iter_fst sp cs 0 w). apply H2. exact HL.
      + split; [discriminate|]. intros L HL. injection HL as <-. split; [|discriminate].
        rewrite <- EU. rewrite <- (iter_fst sp cs 0 w). apply unconnected_stuck. apply iter_exact; auto.
        intros c st Hin ->. rewrite (iter_new_init cs 0 w c Hin) in EN. discriminate.
  Qed.

  (** C06_stall_set *)
  Lemma run_stall_set : forall cs,
      disjoint_slots cs ->
      let r := connect_run sp cs in
      (r_out r = Success -> forall c, In c cs -> forall it, In it (declared sp c) -> done (r_world r) it = true)
      /\ (forall L, r_out r = Circular L -> L = stuck_idx sp (r_world r) 0 cs /\ L <> []).
  Proof.
    intros cs HD r.
    assert (Hm : map fst (map (fun c => (c, INITIALIZED)) cs) = cs) by (rewrite map_map; simpl; apply map_id).
    assert (HS : sound sp (init_world sp) (map (fun c => (c, INITIALIZED)) cs)).
    { intros c st Hin Hst. apply in_map_iff in Hin. destruct Hin as [x [Hx _]]. inversion Hx. congruence. }
    destruct (loop_outcome (enough_fuel sp cs) (map (fun c => (c, INITIALIZED)) cs) (init_world sp)) as [H1 H2];
      [rewrite Hm; exact HD|exact HS|].
    fold (connect_run sp cs) in H1, H2. fold r in H1, H2. rewrite Hm in H2. split; [|exact H2].
    intros Hs c Hc it Hit.
    assert (Hin : In c (map fst (r_comps r))) by (unfold r, connect_run; rewrite loop_fst, Hm; exact Hc).
    apply in_map_iff in Hin. destruct Hin as [[c' st] [Hf Hin]]. simpl in Hf. subst c'.
    eapply (run_sound sp cs c st); eauto.
  Qed.

  Lemma stuck_idx_spec : forall w cs k n,
      In n (stuck_idx sp w k cs) <-> exists c, nth_error cs (n - k) = Some c /\ k <= n /\ all_done sp c w = false.
  Proof.
    intros w cs. induction cs as [|c r IH]; intros k n; simpl.
    - split; [intros []|]. intros [c [H _]]. destruct (n - k); discriminate.
    - destruct (all_done sp c w) eqn:E.
      + rewrite IH. split.
        * intros [c' [Hn [Hk Hd]]]. exists c'. replace (n - k) with (S (n - S k)) by lia. simpl. repeat split; auto; lia.
        * intros [c' [Hn [Hk Hd]]]. destruct (n - k) as [|m] eqn:Em; simpl in Hn; [inversion Hn; congruence|].
          exists c'. replace (n - S k) with m by lia. repeat split; auto; lia.
      + simpl. rewrite IH. split.
        * intros [<-|[c' [Hn [Hk Hd]]]].
          -- exists c. rewrite Nat.sub_diag. simpl. auto.
          -- exists c'. replace (n - k) with (S (n - S k)) by lia. simpl. repeat split; auto; lia.
        * intros [c' [Hn [Hk Hd]]]. destruct (n - k) as [|m] eqn:Em; simpl in Hn.
          -- left. lia.
          -- right. exists c'. replace (n - S k) with m by lia. repeat split; auto; lia.
  Qed.
End Stall.

(** * Initial data: what is published and what is pulled *)
Section InitData.
  Variable sp : spec.

  Definition payload_of (o : nat) (p : nat) : Prop := exists ds, os_prov_data (sp_out sp o) = Some (ds, p).

  Definition args_ok (a : args) : Prop := forall o p, a_pd a o = Some p -> payload_of o p.

  Definition data_inv (w : world) : Prop :=
    (forall o p, o_dcache (wo w o) = Some p -> payload_of o p)
    /\ (forall o, o_dpushed (wo w o) = false -> o_data (wo w o) = [])
    /\ (forall o, o_dpushed (wo w o) = true ->
                  exists t p, o_hinfo (wo w o) = Some t /\ payload_of o p /\ o_data (wo w o) = pushed_entries sp o t p)
    /\ (forall i p, in_data (wi w i) = Some p -> payload_of (is_src (sp_in sp i)) p).

  Lemma prov_args_ok : forall w, args_ok (prov_args sp w).
  Proof.
    intros w o p H. unfold prov_args in H. simpl in H.
    destruct (os_prov_data (sp_out sp o)) as [[ds q]|] eqn:E; [|discriminate].
    destruct (deps_ok w ds); [|discriminate]. injection H as <-. exists ds. exact E.
  Qed.

  Lemma init_data_inv : data_inv (init_world sp).
  Proof. repeat split; simpl; intros; try discriminate; reflexivity. Qed.

  Lemma interp_payload : forall p l prev time d,
      (forall e, In e l -> snd e = p) -> (forall x, prev = Some x -> snd x = p) ->
      interp_loop prev l time = Some d -> d = p.
  Proof.
    intros p l. induction l as [|[[t|] q] r IH]; intros prev time d Hl Hp H; simpl in H; try discriminate.
    assert (Hq : q = p) by (apply (Hl (Some t, q)); left; reflexivity).
    destruct (t <? time)%Z.
    - eapply IH; [| |exact H]; [intros e He; apply Hl; right; exact He|intros x Hx; injection Hx as <-; exact Hq].
    - destruct (time =? t)%Z; [injection H as <-; exact Hq|].
      destruct prev as [[tp dp]|]; [|discriminate]. specialize (Hp _ eq_refl). simpl in Hp.
      destruct (time - tp <? t - time)%Z; injection H as <-; assumption.
  Qed.

  Lemma pushed_entries_payload : forall o t p e, In e (pushed_entries sp o t p) -> snd e = p.
  Proof.
    intros o t p e H. unfold pushed_entries in H.
    destruct (no_targets sp o); [destruct H|]. destruct (os_static (sp_out sp o)); [destruct H as [<-|[]]; reflexivity|].
    destruct (t =? sp_start sp)%Z; simpl in H; intuition (subst; reflexivity).
  Qed.

  Lemma get_data_payload : forall w o d, data_inv w -> get_data sp w o = Some d -> payload_of o d.
  Proof.
    intros w o d (J1 & J2 & J3 & J4) H. unfold get_data in H.
    destruct (negb (is_some (o_info (wo w o)))); [discriminate|].
    destruct (o_exch (wo w o) <? nconn sp o); [discriminate|].
    destruct (o_dpushed (wo w o)) eqn:ED.
    - destruct (J3 o ED) as (t & p & Ht & Hp & Hd). rewrite Hd in H.
      destruct (pushed_entries sp o t p) as [|[t0 d0] r] eqn:EP; [discriminate|].
      assert (HP : forall e, In e ((t0, d0) :: r) -> snd e = p) by (rewrite <- EP; apply pushed_entries_payload).
      destruct (os_static (sp_out sp o)).
      + injection H as <-. rewrite (HP (t0, d0) (or_introl eq_refl) : d0 = p). exact Hp.
      + rewrite (interp_payload p _ None _ d HP) by (try exact H; intros x Hx; discriminate). exact Hp.
    - rewrite (J2 o ED) in H. discriminate.
  Qed.

  Lemma call_data_inv : forall c a w, args_ok a -> data_inv w -> data_inv (fst (helper_connect sp c a w)).
  Proof.
    intros c a w HA HI. unfold helper_connect. cbn [fst].
    set (w1 := phase_cache sp c a w).
    assert (H1 : data_inv w1).
    { destruct HI as (J1 & J2 & J3 & J4). unfold w1. repeat split.
      - intros o p. rewrite cache_wo. destruct (mem o (c_outs c)); [|apply J1]. cbn.
        unfold upd_cache, pd_eff. destruct (c_cache c).
        + destruct (o_dpushed (wo w o)); [apply J1|]. destruct (a_pd a o) as [q|] eqn:EA; [|apply J1].
          intros Hq. injection Hq as <-. apply HA. exact EA.
        + destruct (o_dpushed (wo w o)); [discriminate|]. apply HA.
      - intros o. rewrite cache_wo. destruct (mem o (c_outs c)); cbn; apply J2.
      - intros o. rewrite cache_wo. destruct (mem o (c_outs c)); cbn; apply J3.
      - intros i p. rewrite cache_wi. destruct (mem i (c_ins c)); cbn; apply J4. }
    set (w2 := phase_exchange sp c w1).
    assert (H2 : data_inv w2).
    { destruct H1 as (J1 & J2 & J3 & J4). unfold w2. repeat split.
      - intros o. destruct (ex_wo_fields sp c w1 o) as (_ & _ & _ & _ & _ & _ & _ & ->). apply J1.
      - intros o. destruct (ex_wo_fields sp c w1 o) as (_ & _ & -> & _ & _ & -> & _). apply J2.
      - intros o. destruct (ex_wo_fields sp c w1 o) as (_ & _ & -> & -> & _ & -> & _). apply J3.
      - intros i p. rewrite ex_wi. destruct (mem i (c_ins c) && fires_ex sp w1 i); cbn; apply J4. }
    set (w3 := phase_outinfo sp c w2).
    assert (H3 : data_inv w3).
    { destruct H2 as (J1 & J2 & J3 & J4). unfold w3. repeat split.
      - intros o. rewrite oi_wo. destruct (mem o (c_outs c) && fires_oi sp w2 o); cbn; apply J1.
      - intros o. rewrite oi_wo. destruct (mem o (c_outs c) && fires_oi sp w2 o); cbn; apply J2.
      - intros o. rewrite oi_wo. destruct (mem o (c_outs c) && fires_oi sp w2 o) eqn:E; cbn; [|apply J3].
        intros Hd. destruct (J3 o Hd) as (t & p & Ht & _). apply andb_true_iff in E. destruct E as [_ E].
        unfold fires_oi in E. rewrite Ht in E. discriminate.
      - exact J4. }
    set (w4 := phase_pushinfo c w3).
    assert (H4 : data_inv w4).
    { destruct H3 as (J1 & J2 & J3 & J4). unfold w4. repeat split.
      - intros o. rewrite pi_wo. destruct (mem o (c_outs c) && fires_pi w3 o); cbn; apply J1.
      - intros o. rewrite pi_wo. destruct (mem o (c_outs c) && fires_pi w3 o); cbn; apply J2.
      - intros o. rewrite pi_wo. destruct (mem o (c_outs c) && fires_pi w3 o); cbn; apply J3.
      - exact J4. }
    set (w5 := phase_pushdata sp c w4).
    assert (H5 : data_inv w5).
    { destruct H4 as (J1 & J2 & J3 & J4). unfold w5. repeat split.
      - intros o p. rewrite pd_wo. destruct (mem o (c_outs c) && fires_pd w4 o) eqn:E; [|apply J1]. cbn.
        apply andb_true_iff in E. destruct E as [_ E]. destruct (fires_pd_inv _ _ E) as (_ & [q Hq] & _ & [t Ht]).
        rewrite Hq, Ht. cbn. discriminate.
      - intros o. rewrite pd_wo. destruct (mem o (c_outs c) && fires_pd w4 o) eqn:E; [|apply J2]. cbn.
        apply andb_true_iff in E. destruct E as [_ E]. destruct (fires_pd_inv _ _ E) as (_ & [q Hq] & _ & [t Ht]).
        rewrite Hq, Ht. cbn. discriminate.
      - intros o. rewrite pd_wo. destruct (mem o (c_outs c) && fires_pd w4 o) eqn:E; [|apply J3]. cbn.
        apply andb_true_iff in E. destruct E as [_ E]. destruct (fires_pd_inv _ _ E) as (Hd & [q Hq] & _ & [t Ht]).
        rewrite Hq, Ht. cbn. intros _. exists t, q. rewrite (J2 o Hd). repeat split; auto.
      - exact J4. }
    destruct H5 as (J1 & J2 & J3 & J4). repeat split; try assumption.
    intros i p. rewrite pl_wi. destruct (mem i (c_ins c) && fires_pl sp w5 i) eqn:E; [|apply J4]. cbn.
    intros Hg. eapply get_data_payload; [|exact Hg]. repeat split; assumption.
  Qed.

  Lemma iter_data_inv : forall cs k w, data_inv w -> data_inv (it_world (iter sp k cs w)).
  Proof.
    induction cs as [|[c st] r IH]; intros k w H; cbn; [exact H|].
    assert (HC : data_inv (fst (helper_connect sp c (prov_args sp w) w))) by (apply call_data_inv; [apply prov_args_ok|exact H]).
    destruct st; cbn; try (apply IH; exact H);
      destruct (helper_connect sp c (prov_args sp w) w) as [w1 st1] eqn:E; cbn; apply IH; exact HC.
  Qed.

  Lemma loop_data_inv : forall fuel cs w, data_inv w -> data_inv (r_world (loop sp fuel cs w)).
  Proof.
    induction fuel as [|f IH]; intros cs w H; cbn; [exact H|].
    pose proof (iter_data_inv cs 0 w H) as H'.
    destruct (unconnected 0 (it_comps (iter sp 0 cs w))); cbn; [exact H'|].
    destruct (it_new (iter sp 0 cs w)); cbn; [apply IH|]; exact H'.
  Qed.

  Lemma run_data_inv : forall cs, data_inv (r_world (connect_run sp cs)).
  Proof. intros cs. apply loop_data_inv. apply init_data_inv. Qed.
End InitData.

Lemma helper_not_all_done : forall sp c w, all_done sp c w = false ->
    exists it, In it (declared sp c) /\ done w it = false.
Proof.
  intros sp c w H.
  assert (N : ~ (forall it, In it (declared sp c) -> done w it = true)).
  { intros HA. apply all_done_spec in HA. congruence. }
  assert (G : forall l, (forall it, In it l -> In it (declared sp c)) ->
                        (exists it, In it l /\ done w it = false) \/ (forall it, In it l -> done w it = true)).
  { induction l as [|x r IH]; intros Hl; [right; intros it []|].
    destruct (done w x) eqn:E.
    - destruct IH as [[it [Hi Hd]]|Hall]; [intros it Hi; apply Hl; right; exact Hi| |].
      + left. exists it. split; [right; exact Hi|exact Hd].
      + right. intros it [<-|Hi]; [exact E|apply Hall; exact Hi].
    - left. exists x. split; [left; reflexivity|exact E]. }
  destruct (G (declared sp c) (fun it H => H)) as [[it [Hi Hd]]|Hall]; [exists it; split; assumption|contradiction].
Qed.

Lemma stuck_idx_exact :
  forall (sp : spec) (w : world) (cs : list comp) (n : nat),
    In n (stuck_idx sp w 0 cs) <->
    exists c, nth_error cs n = Some c /\ exists it, In it (declared sp c) /\ done w it = false.
Proof.
  intros sp w cs n. rewrite stuck_idx_spec. rewrite Nat.sub_0_r. split.
  - intros [c [Hn [_ Hd]]]. exists c. split; [exact Hn|].
    destruct (helper_not_all_done sp c w Hd) as [it H]. exists it. exact H.
  - intros [c [Hn [it [Hin Hd]]]]. exists c. repeat split; [exact Hn|apply Nat.le_0_l|].
    destruct (all_done sp c w) eqn:E; [|reflexivity].
    rewrite (proj1 (all_done_spec sp c w) E it Hin) in Hd. discriminate.
Qed.

Lemma initial_data :
  forall (sp : spec) (cs : list comp),
    let w := r_world (connect_run sp cs) in
    (forall o, o_dpushed (wo w o) = true ->
               exists t p, o_hinfo (wo w o) = Some t
                           /\ (exists ds, os_prov_data (sp_out sp o) = Some (ds, p))
                           /\ o_data (wo w o) =
                              (if no_targets sp o then []
                               else if os_static (sp_out sp o) then [(None, p)]
                               else if (t =? sp_start sp)%Z then [(Some t, p)]
                               else [(Some (sp_start sp), p); (Some t, p)]))
    /\ (forall o, o_dpushed (wo w o) = false -> o_data (wo w o) = [])
    /\ (forall i p, in_data (wi w i) = Some p ->
                    exists ds, os_prov_data (sp_out sp (is_src (sp_in sp i))) = Some (ds, p)).
Proof.
  intros sp cs w. destruct (run_data_inv sp cs) as (_ & J2 & J3 & J4). fold w in J2, J3, J4.
  split; [|split; [exact J2|exact J4]].
  intros o Hd. destruct (J3 o Hd) as (t & p & Ht & Hp & Hdata). exists t, p. repeat split; assumption.
Qed.

Lemma connected_sound :
  (forall (sp : spec) (c : comp) (a : args) (w w' : world),
      helper_connect sp c a w = (w', CONNECTED) ->
      forall it, In it (declared sp c) -> done w' it = true)
  /\ (forall (sp : spec) (cs : list comp) (c : comp) (st : status),
         In (c, st) (r_comps (connect_run sp cs)) -> st = CONNECTED ->
         forall it, In it (declared sp c) -> done (r_world (connect_run sp cs)) it = true).
Proof.
  split.
  - intros sp c a w w' H. exact (proj1 (proj1 (proj2 (progress_iff sp c a w w' CONNECTED H))) eq_refl).
  - exact run_sound.
Qed.

(** * The final set of done items is the least fixed point of the derivation rules *)

(** counting *)
Lemma filter_or_length : forall (A : Type) (f g : A -> bool) l,
    (forall x, In x l -> f x = true -> g x = false) ->
    length (filter (fun x => f x || g x) l) = length (filter f l) + length (filter g l).
Proof.
  intros A f g l. induction l as [|x r IH]; intros H; simpl; [reflexivity|].
  assert (IH' := IH (fun y Hy => H y (or_intror Hy))).
  destruct (f x) eqn:Ef; simpl.
  - rewrite (H x (or_introl eq_refl) Ef). simpl. rewrite IH'. reflexivity.
  - destruct (g x); simpl; rewrite IH'; lia.
Qed.

Lemma filter_ext_length : forall (A : Type) (f g : A -> bool) l,
    (forall x, In x l -> f x = g x) -> length (filter f l) = length (filter g l).
Proof.
  intros A f g l. induction l as [|x r IH]; intros H; simpl; [reflexivity|].
  rewrite (H x (or_introl eq_refl)). assert (IH' := IH (fun y Hy => H y (or_intror Hy))).
  destruct (g x); simpl; rewrite IH'; reflexivity.
Qed.

Lemma filter_false_length : forall (A : Type) (f : A -> bool) l,
    (forall x, In x l -> f x = false) -> length (filter f l) = 0.
Proof.
  intros A f l. induction l as [|x r IH]; intros H; simpl; [reflexivity|].
  rewrite (H x (or_introl eq_refl)). apply IH. intros y Hy. apply H. right. exact Hy.
Qed.

(** for duplicate-free lists the two ways of counting an intersection agree *)
Lemma count_inter : forall (g : nat -> bool) (A B : list nat),
    NoDup A -> NoDup B ->
    length (filter (fun x => g x && mem x B) A) = length (filter (fun x => g x && mem x A) B).
Proof.
  intros g A. induction A as [|a A' IH]; intros B HA HB; simpl.
  - symmetry. apply filter_false_length. intros x _. apply andb_false_r.
  - apply NoDup_cons_iff in HA. destruct HA as [Hna HA'].
    rewrite (filter_ext_length _ (fun x => g x && (Nat.eqb x a || mem x A')) (fun x => (g x && Nat.eqb x a) || (g x && mem x A')) B)
      by (intros x _; destruct (g x), (Nat.eqb x a), (mem x A'); reflexivity).
    rewrite filter_or_length.
    2:{ intros x _ H. apply andb_true_iff in H. destruct H as [_ H]. apply Nat.eqb_eq in H. subst.
        rewrite (mem_false a A' Hna). apply andb_false_r. }
    rewrite <- (IH B HA' HB).
    assert (E : length (filter (fun x => g x && Nat.eqb x a) B) = if g a && mem a B then 1 else 0).
    { clear -HB. induction B as [|b B' IHB]; simpl; [rewrite andb_false_r; reflexivity|].
      apply NoDup_cons_iff in HB. destruct HB as [Hnb HB']. specialize (IHB HB').
      rewrite (Nat.eqb_sym a b). destruct (Nat.eqb b a) eqn:Eb.
      - apply Nat.eqb_eq in Eb. subst b. simpl. rewrite (mem_false a B' Hnb) in IHB. rewrite andb_false_r in IHB.
        destruct (g a); simpl; [rewrite IHB; reflexivity|exact IHB].
      - rewrite andb_false_r. simpl. exact IHB. }
    rewrite E. destruct (g a && mem a B); simpl; lia.
Qed.

Lemma filter_all_length : forall (A : Type) (p q : A -> bool) l,
    length (filter p l) <= length (filter (fun x => p x && q x) l) ->
    forall x, In x l -> p x = true -> q x = true.
Proof.
  intros A p q l. induction l as [|y r IH]; intros H x Hin Hp; [destruct Hin|].
  simpl in H.
  assert (Hle : length (filter (fun x => p x && q x) r) <= length (filter p r)).
  { clear. induction r as [|z r IH]; simpl; [lia|]. destruct (p z), (q z); simpl; lia. }
  destruct (p y) eqn:Epy; simpl in H.
  - destruct (q y) eqn:Eqy; simpl in H.
    + destruct Hin as [->|Hin]; [exact Eqy|]. apply IH; auto. lia.
    + lia.
  - destruct Hin as [->|Hin]; [congruence|]. apply IH; auto.
Qed.

Lemma NoDup_flat_map_in : forall (f : comp -> list nat) cs c, NoDup (flat_map f cs) -> In c cs -> NoDup (f c).
Proof.
  intros f cs c. induction cs as [|x r IH]; intros H Hin; [destruct Hin|]. simpl in H.
  destruct Hin as [->|Hin].
  - clear IH. induction (f c) as [|y l IHl]; [constructor|]. simpl in H. apply NoDup_cons_iff in H. destruct H as [Hn H].
    constructor; [intros Hy; apply Hn; apply in_or_app; left; exact Hy|apply IHl; exact H].
  - apply IH; [|exact Hin]. apply (NoDup_app_inv _ _ _ H).
Qed.

Section Fix.
  Variable sp : spec.
  Variable cs : list comp.
  Hypothesis WF : wf_setup sp cs.

  Notation D := (derivable sp cs).
  Notation src i := (is_src (sp_in sp i)).

  Lemma step_mono : forall (P Q : item -> Prop), (forall it, P it -> Q it) -> forall it, step sp cs P it -> step sp cs Q it.
  Proof.
    intros P Q H it. unfold step, deps_in, rules_in.
    destruct it as [i|i|o|o|o].
    - intros (Ho & [Hown|[(ds & t & Hp & Hd)|(rs & Hr & Hs & Ht)]] & Hsrc); (split; [exact Ho|split; [|apply H; exact Hsrc]]).
      + left. exact Hown.
      + right. left. exists ds, t. split; [exact Hp|]. intros d Hin. apply H. apply Hd. exact Hin.
      + right. right. exists rs. split; [exact Hr|]. split; [|exact Ht]. intros r it Hin Hsr. apply H. eapply Hs; eauto.
    - intros (Ho & Hp & H1 & H2). repeat split; auto.
    - intros (Ho & H1 & H2). repeat split; auto.
    - intros [Hown|(Ho & [(ds & t & Hp & Hd)|(rs & Hr & Hs & Ht)])]; [left; exact Hown|right|right]; (split; [exact Ho|]).
      + left. exists ds, t. split; [exact Hp|]. intros d Hin. apply H. apply Hd. exact Hin.
      + right. exists rs. split; [exact Hr|]. split; [|exact Ht]. intros r it Hin Hsr. apply H. eapply Hs; eauto.
    - intros (Ho & (ds & p & Hp & Hd) & H1 & H2). split; [exact Ho|]. split; [|split; apply H; assumption].
      exists ds, p. split; [exact Hp|]. intros d Hin. apply H. apply Hd. exact Hin.
  Qed.

  Lemma derivable_closed : closed sp cs D.
  Proof.
    intros it Hs P HP. apply HP. eapply step_mono; [|exact Hs]. intros it' Hd. apply Hd. exact HP.
  Qed.

  (** transfer rules *)
  Lemma apply_rules_some : forall w rs acc t,
      apply_rules w rs acc = Some t ->
      (forall r it, In r rs -> rule_src r = Some it -> done w it = true)
      /\ (is_some acc || existsb sets_time rs = true).
  Proof.
    intros w rs. induction rs as [|r rs IH]; intros acc t H; simpl in H.
    - subst acc. split; [intros ? ? []|reflexivity].
    - destruct r as [i wt|o wt|v].
      + destruct (in_exch (wi w i)) as [ti|] eqn:E; [|discriminate]. destruct (IH _ _ H) as [H1 H2]. split.
        * intros r it [<-|Hin] Hs; [injection Hs as <-; simpl; rewrite E; reflexivity|eapply H1; eauto].
        * simpl. destruct wt; simpl in *; [apply orb_true_r|exact H2].
      + destruct (o_hinfo (wo w o)) as [ti|] eqn:E; [|discriminate]. destruct (IH _ _ H) as [H1 H2]. split.
        * intros r it [<-|Hin] Hs; [injection Hs as <-; simpl; rewrite E; reflexivity|eapply H1; eauto].
        * simpl. destruct wt; simpl in *; [apply orb_true_r|exact H2].
      + destruct (IH _ _ H) as [H1 H2]. split.
        * intros r it [<-|Hin] Hs; [discriminate|eapply H1; eauto].
        * simpl. destruct v; simpl in *; [apply orb_true_r|exact H2].
  Qed.

  Lemma apply_rules_complete : forall w rs acc,
      (forall r it, In r rs -> rule_src r = Some it -> done w it = true) ->
      is_some acc || existsb sets_time rs = true ->
      exists t, apply_rules w rs acc = Some t.
  Proof.
    intros w rs. induction rs as [|r rs IH]; intros acc H1 H2; simpl in *.
    - rewrite orb_false_r in H2. destruct acc; [eauto|discriminate].
    - assert (H1' : forall r0 it, In r0 rs -> rule_src r0 = Some it -> done w it = true) by (intros; eapply H1; eauto).
      destruct r as [i wt|o wt|v].
      + pose proof (H1 (FromIn i wt) (IInInfo i) (or_introl eq_refl) eq_refl) as Hd. simpl in Hd.
        destruct (in_exch (wi w i)) as [ti|]; [|discriminate]. apply IH; [exact H1'|].
        simpl in H2. destruct wt; simpl in *; [reflexivity|exact H2].
      + pose proof (H1 (FromOut o wt) (IOutInfo o) (or_introl eq_refl) eq_refl) as Hd. simpl in Hd.
        destruct (o_hinfo (wo w o)) as [ti|]; [|discriminate]. apply IH; [exact H1'|].
        simpl in H2. destruct wt; simpl in *; [reflexivity|exact H2].
      + apply IH; [exact H1'|]. simpl in H2. destruct v; simpl in *; [reflexivity|exact H2].
  Qed.

  (** ** The invariant *)
  Definition just_in (i : nat) : Prop :=
    is_own (sp_in sp i) <> None
    \/ (exists ds t, is_prov (sp_in sp i) = Some (ds, t) /\ deps_in D ds)
    \/ (exists rs, is_rules (sp_in sp i) = Some rs /\ rules_in D rs).
  Definition just_out (o : nat) : Prop :=
    (exists ds t, os_prov_info (sp_out sp o) = Some (ds, t) /\ deps_in D ds)
    \/ (exists rs, os_rules (sp_out sp o) = Some rs /\ rules_in D rs).
  Definition just_data (o : nat) : Prop :=
    exists ds p, os_prov_data (sp_out sp o) = Some (ds, p) /\ deps_in D ds.

  Definition cnt (w : world) (o : nat) : nat :=
    length (filter (fun i => Nat.eqb (src i) o && is_some (in_exch (wi w i))) (sp_ins sp)).

  Definition lookup_data (o : nat) (l : list (option Z * nat)) : option nat :=
    match l with
    | [] => None
    | (_, d) :: _ => if os_static (sp_out sp o) then Some d else interp_loop None l (sp_start sp)
    end.

  Record Inv (w : world) : Prop := mk_Inv {
    K1 : forall o, o_ipushed (wo w o) = is_some (o_info (wo w o));
    K2 : forall o, o_exch (wo w o) = cnt w o;
    K3 : forall i, is_some (in_exch (wi w i)) = true -> is_some (o_info (wo w (src i))) = true;
    K4 : forall o, is_some (o_hinfo (wo w o)) = true ->
                   o_ipushed (wo w o) = true /\ nconn sp o <= o_exch (wo w o);
    K5 : forall o, o_dpushed (wo w o) = true ->
                   is_some (o_hinfo (wo w o)) = true
                   /\ (0 < nconn sp o -> is_some (lookup_data o (o_data (wo w o))) = true);
    K5b : forall o, o_dpushed (wo w o) = false -> o_data (wo w o) = [];
    K7i : forall i, is_some (in_cache (wi w i)) = true -> just_in i;
    K7o : forall o, is_some (o_icache (wo w o)) = true -> just_out o;
    K7d : forall o, is_some (o_dcache (wo w o)) = true -> just_data o;
    K8 : forall it, done w it = true -> D it;
    K10 : forall o, os_own (sp_out sp o) <> None -> o_ipushed (wo w o) = true
  }.

  Definition args_just (a : args) : Prop :=
    (forall i, is_some (a_ex a i) = true -> just_in i)
    /\ (forall o, is_some (a_pi a o) = true -> just_out o)
    /\ (forall o, is_some (a_pd a o) = true -> just_data o).

  Lemma cnt_ext : forall w w' o,
      (forall i, is_some (in_exch (wi w' i)) = is_some (in_exch (wi w i))) -> cnt w' o = cnt w o.
  Proof. intros w w' o H. unfold cnt. apply filter_ext_length. intros i _. rewrite H. reflexivity. Qed.

  Lemma deps_ok_D : forall w ds, (forall it, done w it = true -> D it) -> deps_ok w ds = true -> deps_in D ds.
  Proof.
    intros w ds HK H d Hin. apply HK. unfold deps_ok in H. rewrite forallb_forall in H. apply H. exact Hin.
  Qed.

  Lemma prov_args_just : forall w, (forall it, done w it = true -> D it) -> args_just (prov_args sp w).
  Proof.
    intros w HK. unfold args_just, prov_args. cbn. repeat split.
    - intros i H. destruct (is_prov (sp_in sp i)) as [[ds t]|] eqn:E; [|discriminate].
      destruct (deps_ok w ds) eqn:Ed; [|discriminate]. right. left. exists ds, t. split; [exact E|]. eapply deps_ok_D; eauto.
    - intros o H. destruct (os_prov_info (sp_out sp o)) as [[ds t]|] eqn:E; [|discriminate].
      destruct (deps_ok w ds) eqn:Ed; [|discriminate]. left. exists ds, t. split; [exact E|]. eapply deps_ok_D; eauto.
    - intros o H. destruct (os_prov_data (sp_out sp o)) as [[ds p]|] eqn:E; [|discriminate].
      destruct (deps_ok w ds) eqn:Ed; [|discriminate]. exists ds, p. split; [exact E|]. eapply deps_ok_D; eauto.
  Qed.

  Lemma rules_D : forall w rs t, (forall it, done w it = true -> D it) -> apply_rules w rs None = Some t -> rules_in D rs.
  Proof.
    intros w rs t HK H. destruct (apply_rules_some w rs None t H) as [H1 H2]. split; [|exact H2].
    intros r it Hin Hs. apply HK. eapply H1; eauto.
  Qed.

  Lemma upd_cache_some : forall (A : Type) c (new old : option A),
      is_some (upd_cache c new old) = true -> is_some new = true \/ is_some old = true.
  Proof. intros A c new old. unfold upd_cache. destruct (c_cache c), new, old; simpl; auto. Qed.

  Lemma own_in_of : forall c i, In c cs -> In i (c_ins c) -> own_in cs i.
  Proof. intros c i Hc Hi. unfold own_in. apply in_flat_map. exists c. split; assumption. Qed.
  Lemma own_out_of : forall c o, In c cs -> In o (c_outs c) -> own_out cs o.
  Proof. intros c o Hc Ho. unfold own_out. apply in_flat_map. exists c. split; assumption. Qed.

  Section Phases.
    Variable c : comp.
    Hypothesis Hc : In c cs.
    Variable a : args.
    Hypothesis HA : args_just a.

    Lemma inv_cache : forall w, Inv w -> Inv (phase_cache sp c a w).
    Proof.
      intros w I.
      assert (FI : forall i, in_exch (wi (phase_cache sp c a w) i) = in_exch (wi w i)
                             /\ in_data (wi (phase_cache sp c a w) i) = in_data (wi w i)).
      { intros i. rewrite cache_wi. destruct (mem i (c_ins c)); cbn; split; reflexivity. }
      assert (FO : forall o, let st := wo w o in let st' := wo (phase_cache sp c a w) o in
                             o_info st' = o_info st /\ o_exch st' = o_exch st /\ o_data st' = o_data st /\
                             o_hinfo st' = o_hinfo st /\ o_ipushed st' = o_ipushed st /\ o_dpushed st' = o_dpushed st).
      { intros o. rewrite cache_wo. destruct (mem o (c_outs c)); cbn; repeat split; reflexivity. }
      destruct HA as (A1 & A2 & A3).
      constructor.
      - intros o. destruct (FO o) as (-> & _ & _ & _ & -> & _). apply (K1 w I).
      - intros o. destruct (FO o) as (_ & -> & _). rewrite (K2 w I). symmetry. apply cnt_ext. intros i. rewrite (proj1 (FI i)). reflexivity.
      - intros i. rewrite (proj1 (FI i)). destruct (FO (src i)) as (-> & _). apply (K3 w I).
      - intros o. destruct (FO o) as (_ & -> & _ & -> & -> & _). apply (K4 w I).
      - intros o. destruct (FO o) as (_ & _ & -> & -> & _ & ->). apply (K5 w I).
      - intros o. destruct (FO o) as (_ & _ & -> & _ & _ & ->). apply (K5b w I).
      - intros i. rewrite cache_wi. destruct (mem i (c_ins c)) eqn:Em; [|apply (K7i w I)]. cbn.
        intros H. apply upd_cache_some in H. destruct H as [H|H]; [|apply (K7i w I); exact H].
        unfold ex_eff in H.
        destruct (is_rules (sp_in sp i)) as [rs|] eqn:Er.
        + destruct (negb (is_some (in_exch (wi w i))) && (negb (c_cache c) || negb (is_some (in_cache (wi w i))))).
          * destruct (apply_rules w rs None) as [t|] eqn:Ea.
            -- right. right. exists rs. split; [exact Er|]. eapply rules_D; [apply (K8 w I)|exact Ea].
            -- apply A1. destruct (in_exch (wi w i)); [discriminate|exact H].
          * apply A1. destruct (in_exch (wi w i)); [discriminate|exact H].
        + apply A1. destruct (in_exch (wi w i)); [discriminate|exact H].
      - intros o. rewrite cache_wo. destruct (mem o (c_outs c)) eqn:Em; [|apply (K7o w I)]. cbn.
        intros H. apply upd_cache_some in H. destruct H as [H|H]; [|apply (K7o w I); exact H].
        unfold pi_eff in H.
        destruct (os_rules (sp_out sp o)) as [rs|] eqn:Er.
        + destruct (negb (o_ipushed (wo w o)) && (negb (c_cache c) || negb (is_some (o_icache (wo w o))))).
          * destruct (apply_rules w rs None) as [t|] eqn:Ea.
            -- right. exists rs. split; [exact Er|]. eapply rules_D; [apply (K8 w I)|exact Ea].
            -- apply A2. destruct (o_hinfo (wo w o)); [discriminate|exact H].
          * apply A2. destruct (o_hinfo (wo w o)); [discriminate|exact H].
        + apply A2. destruct (o_hinfo (wo w o)); [discriminate|exact H].
      - intros o. rewrite cache_wo. destruct (mem o (c_outs c)) eqn:Em; [|apply (K7d w I)]. cbn.
        intros H. apply upd_cache_some in H. destruct H as [H|H]; [|apply (K7d w I); exact H].
        unfold pd_eff in H. apply A3. destruct (o_dpushed (wo w o)); [discriminate|exact H].
      - intros it. rewrite cache_done. apply (K8 w I).
      - intros o. destruct (FO o) as (_ & _ & _ & _ & -> & _). apply (K10 w I).
    Qed.

    Lemma c_ins_sub : forall i, In i (c_ins c) -> In i (sp_ins sp).
    Proof. intros i Hi. destruct WF as (_ & _ & W3). apply W3. eapply own_in_of; eauto. Qed.

    Lemma ex_some : forall w i,
        is_some (in_exch (wi (phase_exchange sp c w) i))
        = is_some (in_exch (wi w i)) || (mem i (c_ins c) && fires_ex sp w i).
    Proof.
      intros w i. rewrite ex_wi. destruct (mem i (c_ins c) && fires_ex sp w i) eqn:E; cbn.
      - apply andb_true_iff in E. destruct E as [_ E]. unfold fires_ex in E.
        apply andb_true_iff in E. destruct E as [E _]. apply andb_true_iff in E. destruct E as [_ E].
        rewrite E. symmetry. apply orb_true_r.
      - rewrite orb_false_r. reflexivity.
    Qed.

    Lemma cnt_exchange : forall w o, cnt (phase_exchange sp c w) o = cnt w o + ex_count sp c w o.
    Proof.
      intros w o. unfold cnt, ex_count.
      set (g := fun i => fires_ex sp w i && Nat.eqb (src i) o).
      rewrite (filter_ext_length _ _ (fun i => (Nat.eqb (src i) o && is_some (in_exch (wi w i))) || (g i && mem i (c_ins c))) (sp_ins sp)).
      2:{ intros i _. rewrite ex_some. unfold g.
          destruct (Nat.eqb (src i) o), (is_some (in_exch (wi w i))), (mem i (c_ins c)), (fires_ex sp w i); reflexivity. }
      rewrite filter_or_length.
      2:{ intros i _ H. apply andb_true_iff in H. destruct H as [_ H]. unfold g, fires_ex. rewrite H. reflexivity. }
      f_equal.
      destruct WF as ((WI & _) & WS & _).
      rewrite (count_inter g (sp_ins sp) (c_ins c) WS (NoDup_flat_map_in c_ins cs c WI Hc)).
      apply filter_ext_length. intros i Hi. rewrite (proj2 (mem_In _ _) (c_ins_sub i Hi)). apply andb_true_r.
    Qed.

    Lemma inv_exchange : forall w, Inv w -> Inv (phase_exchange sp c w).
    Proof.
      intros w I.
      assert (FO : forall o, let st := wo w o in let st' := wo (phase_exchange sp c w) o in
        o_info st' = o_info st /\ o_exch st' = o_exch st + ex_count sp c w o /\ o_data st' = o_data st /\
        o_hinfo st' = o_hinfo st /\ o_ipushed st' = o_ipushed st /\ o_dpushed st' = o_dpushed st /\
        o_icache st' = o_icache st /\ o_dcache st' = o_dcache st) by (intros o; apply ex_wo_fields).
      constructor.
      - intros o. destruct (FO o) as (-> & _ & _ & _ & -> & _). apply (K1 w I).
      - intros o. destruct (FO o) as (_ & -> & _). rewrite (K2 w I). symmetry. apply cnt_exchange.
      - intros i. rewrite ex_some. destruct (FO (src i)) as (-> & _). intros H.
        apply orb_true_iff in H. destruct H as [H|H]; [apply (K3 w I); exact H|].
        apply andb_true_iff in H. destruct H as [_ H]. unfold fires_ex in H. apply andb_true_iff in H. apply H.
      - intros o. destruct (FO o) as (_ & -> & _ & -> & -> & _). intros H. destruct (K4 w I o H) as [H1 H2]. split; [exact H1|lia].
      - intros o. destruct (FO o) as (_ & _ & -> & -> & _ & -> & _). apply (K5 w I).
      - intros o. destruct (FO o) as (_ & _ & -> & _ & _ & -> & _). apply (K5b w I).
      - intros i. rewrite ex_wi. destruct (mem i (c_ins c) && fires_ex sp w i); cbn; [|apply (K7i w I)].
        destruct (is_own (sp_in sp i)) eqn:Eo; [intros _; left; congruence|discriminate].
      - intros o. destruct (FO o) as (_ & _ & _ & _ & _ & _ & -> & _). apply (K7o w I).
      - intros o. destruct (FO o) as (_ & _ & _ & _ & _ & _ & _ & ->). apply (K7d w I).
      - intros it. destruct it as [i|i|o|o|o]; cbn.
        + rewrite ex_some. intros H. apply orb_true_iff in H. destruct H as [H|H]; [apply (K8 w I (IInInfo i)); exact H|].
          apply andb_true_iff in H. destruct H as [Hm H]. apply mem_In in Hm.
          unfold fires_ex in H. apply andb_true_iff in H. destruct H as [H H3]. apply andb_true_iff in H. destruct H as [_ H2].
          apply derivable_closed. cbn. split; [eapply own_in_of; eauto|]. split.
          * unfold ex_req in H2. destruct (is_own (sp_in sp i)) eqn:Eo; [left; congruence|].
            destruct (K7i w I i H2) as [J|J]; [congruence|right; exact J].
          * apply (K8 w I (IInfoPushed (src i))). cbn. rewrite (K1 w I). exact H3.
        + rewrite ex_wi. destruct (mem i (c_ins c) && fires_ex sp w i); cbn; apply (K8 w I (IPulled i)).
        + destruct (FO o) as (_ & _ & _ & -> & _). apply (K8 w I (IOutInfo o)).
        + destruct (FO o) as (_ & _ & _ & _ & -> & _). apply (K8 w I (IInfoPushed o)).
        + destruct (FO o) as (_ & _ & _ & _ & _ & -> & _). apply (K8 w I (IDataPushed o)).
      - intros o. destruct (FO o) as (_ & _ & _ & _ & -> & _). apply (K10 w I).
    Qed.

    Lemma oi_wi' : forall w i, wi (phase_outinfo sp c w) i = wi w i. Proof. reflexivity. Qed.
    Lemma pi_wi' : forall w i, wi (phase_pushinfo c w) i = wi w i. Proof. reflexivity. Qed.
    Lemma pd_wi' : forall w i, wi (phase_pushdata sp c w) i = wi w i. Proof. reflexivity. Qed.
    Lemma pl_wo' : forall w o, wo (phase_pull sp c w) o = wo w o. Proof. reflexivity. Qed.

    Lemma inv_outinfo : forall w, Inv w -> Inv (phase_outinfo sp c w).
    Proof.
      intros w I.
      assert (FO : forall o, let st := wo w o in let st' := wo (phase_outinfo sp c w) o in
        o_info st' = o_info st /\ o_exch st' = o_exch st /\ o_data st' = o_data st /\
        o_ipushed st' = o_ipushed st /\ o_dpushed st' = o_dpushed st /\
        o_icache st' = o_icache st /\ o_dcache st' = o_dcache st /\
        o_hinfo st' = (if mem o (c_outs c) && fires_oi sp w o then o_info st else o_hinfo st)).
      { intros o. rewrite oi_wo. destruct (mem o (c_outs c) && fires_oi sp w o); cbn; repeat split; reflexivity. }
      assert (FH : forall o, is_some (o_hinfo (wo (phase_outinfo sp c w) o)) = true ->
                             is_some (o_hinfo (wo w o)) = true \/ (In o (c_outs c) /\ fires_oi sp w o = true)).
      { intros o. destruct (FO o) as (_ & _ & _ & _ & _ & _ & _ & ->).
        destruct (mem o (c_outs c) && fires_oi sp w o) eqn:E; [|left; assumption].
        apply andb_true_iff in E. destruct E as [Em Ef]. right. split; [apply mem_In; exact Em|exact Ef]. }
      constructor.
      - intros o. destruct (FO o) as (-> & _ & _ & -> & _). apply (K1 w I).
      - intros o. destruct (FO o) as (_ & -> & _). rewrite (K2 w I). symmetry. apply cnt_ext. intros i. reflexivity.
      - intros i. rewrite oi_wi'. destruct (FO (src i)) as (-> & _). apply (K3 w I).
      - intros o H. destruct (FO o) as (_ & -> & _ & -> & _). destruct (FH o H) as [H'|[_ Hf]]; [apply (K4 w I); exact H'|].
        unfold fires_oi in Hf. apply andb_true_iff in Hf. destruct Hf as [Hf H3]. apply andb_true_iff in Hf. destruct Hf as [_ H2].
        split; [rewrite (K1 w I); exact H2|apply Nat.leb_le; exact H3].
      - intros o. destruct (FO o) as (_ & _ & -> & _ & -> & _ & _ & Hh). intros Hd. destruct (K5 w I o Hd) as [H1 H2]. split; [|exact H2].
        rewrite Hh. destruct (mem o (c_outs c) && fires_oi sp w o) eqn:E; [|exact H1].
        apply andb_true_iff in E. destruct E as [_ E]. unfold fires_oi in E. rewrite H1 in E. discriminate.
      - intros o. destruct (FO o) as (_ & _ & -> & _ & -> & _). apply (K5b w I).
      - intros i. rewrite oi_wi'. apply (K7i w I).
      - intros o. destruct (FO o) as (_ & _ & _ & _ & _ & -> & _). apply (K7o w I).
      - intros o. destruct (FO o) as (_ & _ & _ & _ & _ & _ & -> & _). apply (K7d w I).
      - intros it. destruct it as [i|i|o|o|o]; cbn.
        + rewrite oi_wi'. apply (K8 w I (IInInfo i)).
        + rewrite oi_wi'. apply (K8 w I (IPulled i)).
        + intros H. destruct (FH o H) as [H'|[Ho Hf]]; [apply (K8 w I (IOutInfo o)); exact H'|].
          unfold fires_oi in Hf. apply andb_true_iff in Hf. destruct Hf as [Hf H3]. apply andb_true_iff in Hf. destruct Hf as [_ H2].
          apply Nat.leb_le in H3. rewrite (K2 w I) in H3.
          apply derivable_closed. cbn. split; [eapply own_out_of; eauto|]. split.
          * apply (K8 w I (IInfoPushed o)). cbn. rewrite (K1 w I). exact H2.
          * intros i Hi Hs. apply (K8 w I (IInInfo i)). cbn.
            apply (filter_all_length nat (fun i => Nat.eqb (src i) o) (fun i => is_some (in_exch (wi w i))) (sp_ins sp) H3 i Hi).
            apply Nat.eqb_eq. exact Hs.
        + destruct (FO o) as (_ & _ & _ & -> & _). apply (K8 w I (IInfoPushed o)).
        + destruct (FO o) as (_ & _ & _ & _ & -> & _). apply (K8 w I (IDataPushed o)).
      - intros o. destruct (FO o) as (_ & _ & _ & -> & _). apply (K10 w I).
    Qed.

    Lemma inv_pushinfo : forall w, Inv w -> Inv (phase_pushinfo c w).
    Proof.
      intros w I.
      assert (FO : forall o, let st := wo w o in let st' := wo (phase_pushinfo c w) o in
        o_exch st' = o_exch st /\ o_data st' = o_data st /\ o_hinfo st' = o_hinfo st /\
        o_dpushed st' = o_dpushed st /\ o_dcache st' = o_dcache st /\
        ((mem o (c_outs c) && fires_pi w o = true /\ o_info st' = o_icache st /\ o_ipushed st' = true /\ o_icache st' = None)
         \/ (o_info st' = o_info st /\ o_ipushed st' = o_ipushed st /\ o_icache st' = o_icache st))).
      { intros o. rewrite pi_wo. destruct (mem o (c_outs c) && fires_pi w o) eqn:E; cbn; repeat split; try reflexivity;
          ((left; repeat split; reflexivity) || (right; repeat split; reflexivity)). }
      assert (FS : forall o, is_some (o_info (wo w o)) = true -> is_some (o_info (wo (phase_pushinfo c w) o)) = true).
      { intros o H. destruct (FO o) as (_ & _ & _ & _ & _ & [(E & -> & _)|(-> & _)]); [|exact H].
        apply andb_true_iff in E. destruct E as [_ E]. unfold fires_pi in E. apply andb_true_iff in E. apply E. }
      constructor.
      - intros o. destruct (FO o) as (_ & _ & _ & _ & _ & [(E & -> & -> & _)|(-> & -> & _)]); [|apply (K1 w I)].
        apply andb_true_iff in E. destruct E as [_ E]. unfold fires_pi in E. apply andb_true_iff in E. symmetry. apply E.
      - intros o. destruct (FO o) as (-> & _). rewrite (K2 w I). symmetry. apply cnt_ext. intros i. reflexivity.
      - intros i. rewrite pi_wi'. intros H. apply FS. apply (K3 w I). exact H.
      - intros o. destruct (FO o) as (-> & _ & -> & _ & _ & HH). intros H. destruct (K4 w I o H) as [H1 H2]. split; [|exact H2].
        destruct HH as [(_ & _ & -> & _)|(_ & -> & _)]; [reflexivity|exact H1].
      - intros o. destruct (FO o) as (_ & -> & -> & -> & _). apply (K5 w I).
      - intros o. destruct (FO o) as (_ & -> & _ & -> & _). apply (K5b w I).
      - intros i. rewrite pi_wi'. apply (K7i w I).
      - intros o. destruct (FO o) as (_ & _ & _ & _ & _ & [(_ & _ & _ & ->)|(_ & _ & ->)]); [discriminate|apply (K7o w I)].
      - intros o. destruct (FO o) as (_ & _ & _ & _ & -> & _). apply (K7d w I).
      - intros it. destruct it as [i|i|o|o|o]; cbn.
        + rewrite pi_wi'. apply (K8 w I (IInInfo i)).
        + rewrite pi_wi'. apply (K8 w I (IPulled i)).
        + destruct (FO o) as (_ & _ & -> & _). apply (K8 w I (IOutInfo o)).
        + destruct (FO o) as (_ & _ & _ & _ & _ & [(E & _ & _ & _)|(_ & -> & _)]); [|apply (K8 w I (IInfoPushed o))].
          intros _. apply andb_true_iff in E. destruct E as [Em E]. apply mem_In in Em.
          unfold fires_pi in E. apply andb_true_iff in E. destruct E as [_ E].
          apply derivable_closed. cbn. right. split; [eapply own_out_of; eauto|]. apply (K7o w I o E).
        + destruct (FO o) as (_ & _ & _ & -> & _). apply (K8 w I (IDataPushed o)).
      - intros o Ho. destruct (FO o) as (_ & _ & _ & _ & _ & [(_ & _ & -> & _)|(_ & -> & _)]); [reflexivity|apply (K10 w I); exact Ho].
    Qed.

    Lemma lookup_pushed : forall o t p, 0 < nconn sp o -> is_some (lookup_data o (pushed_entries sp o t p)) = true.
    Proof.
      intros o t p H. unfold pushed_entries, no_targets. destruct (nconn sp o =? 0) eqn:E; [apply Nat.eqb_eq in E; lia|]. cbn [andb].
      unfold lookup_data. destruct (os_static (sp_out sp o)) eqn:Es; [reflexivity|].
      destruct (t =? sp_start sp)%Z eqn:Et; simpl.
      - apply Z.eqb_eq in Et. subst t. rewrite Z.ltb_irrefl, Z.eqb_refl. reflexivity.
      - rewrite Z.ltb_irrefl, Z.eqb_refl. reflexivity.
    Qed.

    Lemma inv_pushdata : forall w, Inv w -> Inv (phase_pushdata sp c w).
    Proof.
      intros w I.
      assert (FO : forall o, let st := wo w o in let st' := wo (phase_pushdata sp c w) o in
        o_info st' = o_info st /\ o_exch st' = o_exch st /\ o_hinfo st' = o_hinfo st /\
        o_ipushed st' = o_ipushed st /\ o_icache st' = o_icache st /\
        ((In o (c_outs c) /\ fires_pd w o = true /\ o_dpushed st' = true /\ o_dcache st' = None
          /\ exists p t, o_hinfo st = Some t /\ o_data st' = o_data st ++ pushed_entries sp o t p)
         \/ (o_dpushed st' = o_dpushed st /\ o_dcache st' = o_dcache st /\ o_data st' = o_data st))).
      { intros o. rewrite pd_wo. destruct (mem o (c_outs c) && fires_pd w o) eqn:E; cbn.
        - apply andb_true_iff in E. destruct E as [Em Ef]. destruct (fires_pd_inv _ _ Ef) as (_ & [p Hp] & _ & [t Ht]).
          rewrite Hp, Ht. cbn. repeat split; try reflexivity. left. split; [apply mem_In; exact Em|]. split; [exact Ef|].
          split; [reflexivity|]. split; [reflexivity|]. exists p, t. split; reflexivity.
        - repeat split; try reflexivity. right. repeat split. }
      constructor.
      - intros o. destruct (FO o) as (-> & _ & _ & -> & _). apply (K1 w I).
      - intros o. destruct (FO o) as (_ & -> & _). rewrite (K2 w I). symmetry. apply cnt_ext. intros i. reflexivity.
      - intros i. rewrite pd_wi'. destruct (FO (src i)) as (-> & _). apply (K3 w I).
      - intros o. destruct (FO o) as (_ & -> & -> & -> & _). apply (K4 w I).
      - intros o. destruct (FO o) as (_ & _ & -> & _ & _ & [(_ & Hf & _ & _ & p & t & Ht & ->)|(-> & _ & ->)]); [|apply (K5 w I)].
        intros _. split; [rewrite Ht; reflexivity|]. intros Hn.
        destruct (fires_pd_inv _ _ Hf) as (Hd & _). rewrite (K5b w I o Hd). simpl. apply lookup_pushed. exact Hn.
      - intros o. destruct (FO o) as (_ & _ & _ & _ & _ & [(_ & _ & -> & _)|(-> & _ & ->)]); [discriminate|apply (K5b w I)].
      - intros i. rewrite pd_wi'. apply (K7i w I).
      - intros o. destruct (FO o) as (_ & _ & _ & _ & -> & _). apply (K7o w I).
      - intros o. destruct (FO o) as (_ & _ & _ & _ & _ & [(_ & _ & _ & -> & _)|(_ & -> & _)]); [discriminate|apply (K7d w I)].
      - intros it. destruct it as [i|i|o|o|o]; cbn.
        + rewrite pd_wi'. apply (K8 w I (IInInfo i)).
        + rewrite pd_wi'. apply (K8 w I (IPulled i)).
        + destruct (FO o) as (_ & _ & -> & _). apply (K8 w I (IOutInfo o)).
        + destruct (FO o) as (_ & _ & _ & -> & _). apply (K8 w I (IInfoPushed o)).
        + destruct (FO o) as (_ & _ & _ & _ & _ & [(Ho & Hf & _)|(-> & _)]); [|apply (K8 w I (IDataPushed o))].
          intros _. destruct (fires_pd_inv _ _ Hf) as (_ & [p Hp] & Hi & [t Ht]).
          apply derivable_closed. cbn. split; [eapply own_out_of; eauto|]. split; [|split].
          * apply (K7d w I o). rewrite Hp. reflexivity.
          * apply (K8 w I (IInfoPushed o)). exact Hi.
          * apply (K8 w I (IOutInfo o)). cbn. rewrite Ht. reflexivity.
      - intros o. destruct (FO o) as (_ & _ & _ & -> & _). apply (K10 w I).
    Qed.

    Lemma get_data_some : forall w o, Inv w -> is_some (get_data sp w o) = true -> o_dpushed (wo w o) = true.
    Proof.
      intros w o I H. destruct (o_dpushed (wo w o)) eqn:E; [reflexivity|]. unfold get_data in H.
      rewrite (K5b w I o E) in H. destruct (negb (is_some (o_info (wo w o)))); [discriminate|].
      destruct (o_exch (wo w o) <? nconn sp o); discriminate.
    Qed.

    Lemma inv_pull : forall w, Inv w -> Inv (phase_pull sp c w).
    Proof.
      intros w I.
      assert (FI : forall i, in_exch (wi (phase_pull sp c w) i) = in_exch (wi w i)
                             /\ in_cache (wi (phase_pull sp c w) i) = in_cache (wi w i)).
      { intros i. rewrite pl_wi. destruct (mem i (c_ins c) && fires_pl sp w i); cbn; split; reflexivity. }
      constructor.
      - intros o. rewrite pl_wo'. apply (K1 w I).
      - intros o. rewrite pl_wo'. rewrite (K2 w I). symmetry. apply cnt_ext. intros i. rewrite (proj1 (FI i)). reflexivity.
      - intros i. rewrite (proj1 (FI i)), pl_wo'. apply (K3 w I).
      - intros o. rewrite pl_wo'. apply (K4 w I).
      - intros o. rewrite pl_wo'. apply (K5 w I).
      - intros o. rewrite pl_wo'. apply (K5b w I).
      - intros i. rewrite (proj2 (FI i)). apply (K7i w I).
      - intros o. rewrite pl_wo'. apply (K7o w I).
      - intros o. rewrite pl_wo'. apply (K7d w I).
      - intros it. destruct it as [i|i|o|o|o]; cbn.
        + rewrite (proj1 (FI i)). apply (K8 w I (IInInfo i)).
        + rewrite pl_wi. destruct (mem i (c_ins c) && fires_pl sp w i) eqn:E; [|apply (K8 w I (IPulled i))]. cbn. intros _.
          apply andb_true_iff in E. destruct E as [Em E]. apply mem_In in Em.
          unfold fires_pl in E. apply andb_true_iff in E. destruct E as [E E4]. apply andb_true_iff in E. destruct E as [E E3].
          apply andb_true_iff in E. destruct E as [E1 E2].
          apply derivable_closed. cbn. split; [eapply own_in_of; eauto|]. split; [exact E1|]. split.
          * apply (K8 w I (IInInfo i)). exact E3.
          * apply (K8 w I (IDataPushed (src i))). cbn. apply get_data_some; assumption.
        + rewrite pl_wo'. apply (K8 w I (IOutInfo o)).
        + rewrite pl_wo'. apply (K8 w I (IInfoPushed o)).
        + rewrite pl_wo'. apply (K8 w I (IDataPushed o)).
      - intros o. rewrite pl_wo'. apply (K10 w I).
    Qed.

    Lemma inv_call : forall w, Inv w -> Inv (fst (helper_connect sp c a w)).
    Proof.
      intros w I. unfold helper_connect. cbn [fst].
      apply inv_pull, inv_pushdata, inv_pushinfo, inv_outinfo, inv_exchange, inv_cache, I.
    Qed.
  End Phases.

  (** ** the invariant along the loop *)
  Lemma inv_init : Inv (init_world sp).
  Proof.
    constructor; cbn.
    - reflexivity.
    - intros o. unfold cnt. symmetry. apply filter_false_length. intros i _. cbn. apply andb_false_r.
    - discriminate.
    - discriminate.
    - discriminate.
    - reflexivity.
    - discriminate.
    - discriminate.
    - discriminate.
    - intros it. destruct it as [i|i|o|o|o]; cbn; try discriminate.
      intros H. apply derivable_closed. cbn. left. destruct (os_own (sp_out sp o)); [discriminate|discriminate].
    - intros o H. destruct (os_own (sp_out sp o)); [reflexivity|congruence].
  Qed.

  Lemma iter_inv : forall cs' k w, (forall c st, In (c, st) cs' -> In c cs) -> Inv w -> Inv (it_world (iter sp k cs' w)).
  Proof.
    induction cs' as [|[c st] r IH]; intros k w HC I; cbn; [exact I|].
    assert (HCr : forall c' st', In (c', st') r -> In c' cs) by (intros c' st' Hin; apply (HC c' st'); right; exact Hin).
    assert (Hc : In c cs) by (apply (HC c st); left; reflexivity).
    assert (I1 : Inv (fst (helper_connect sp c (prov_args sp w) w))).
    { apply inv_call; [exact Hc|apply prov_args_just; apply (K8 w I)|exact I]. }
    destruct st; cbn; try (apply IH; assumption);
      destruct (helper_connect sp c (prov_args sp w) w) as [w1 st1]; cbn; apply IH; assumption.
  Qed.

  Lemma loop_inv : forall fuel cs' w, (forall c st, In (c, st) cs' -> In c cs) -> Inv w -> Inv (r_world (loop sp fuel cs' w)).
  Proof.
    induction fuel as [|f IH]; intros cs' w HC I; cbn; [exact I|].
    pose proof (iter_inv cs' 0 w HC I) as I'.
    destruct (unconnected 0 (it_comps (iter sp 0 cs' w))); cbn; [exact I'|].
    destruct (it_new (iter sp 0 cs' w)); cbn; [|exact I'].
    apply IH; [|exact I']. intros c st Hin. 
    assert (Hf : In c (map fst (it_comps (iter sp 0 cs' w)))) by (apply in_map_iff; exists (c, st); split; [reflexivity|exact Hin]).
    rewrite iter_fst in Hf. apply in_map_iff in Hf. destruct Hf as [[c' st'] [Hf Hin']]. simpl in Hf. subst c'. eapply HC; eauto.
  Qed.

  (** ** a call without progress: nothing that is derivable from the done items is missing *)
  Definition weq (w w' : world) : Prop := (forall i, wi w i = wi w' i) /\ (forall o, wo w o = wo w' o).

  Lemma weq_trans : forall a b c, weq a b -> weq b c -> weq a c.
  Proof. intros a b c [H1 H2] [H3 H4]. split; intros x; [rewrite H1; apply H3|rewrite H2; apply H4]. Qed.

  Lemma ostate_ext : forall st st' : ostate,
      o_info st' = o_info st -> o_exch st' = o_exch st -> o_data st' = o_data st -> o_hinfo st' = o_hinfo st ->
      o_ipushed st' = o_ipushed st -> o_dpushed st' = o_dpushed st -> o_icache st' = o_icache st ->
      o_dcache st' = o_dcache st -> st' = st.
  Proof. intros [] []; simpl; intros; subst; reflexivity. Qed.

  Lemma existsb_ext' : forall (A : Type) (f g : A -> bool) l, (forall x, f x = g x) -> existsb f l = existsb g l.
  Proof. intros A f g l H. induction l as [|x r IH]; simpl; [reflexivity|]. rewrite H, IH. reflexivity. Qed.

  Lemma get_data_weq : forall w w' o, weq w w' -> get_data sp w o = get_data sp w' o.
  Proof. intros w w' o [_ H]. unfold get_data. rewrite H. reflexivity. Qed.
  Lemma fires_ex_weq : forall w w' i, weq w w' -> fires_ex sp w i = fires_ex sp w' i.
  Proof. intros w w' i [H1 H2]. unfold fires_ex, ex_req. rewrite H1, H2. reflexivity. Qed.
  Lemma fires_oi_weq : forall w w' o, weq w w' -> fires_oi sp w o = fires_oi sp w' o.
  Proof. intros w w' o [_ H]. unfold fires_oi. rewrite H. reflexivity. Qed.
  Lemma fires_pi_weq : forall w w' o, weq w w' -> fires_pi w o = fires_pi w' o.
  Proof. intros w w' o [_ H]. unfold fires_pi. rewrite H. reflexivity. Qed.
  Lemma fires_pd_weq : forall w w' o, weq w w' -> fires_pd w o = fires_pd w' o.
  Proof. intros w w' o [_ H]. unfold fires_pd. rewrite H. reflexivity. Qed.
  Lemma fires_pl_weq : forall w w' i, weq w w' -> fires_pl sp w i = fires_pl sp w' i.
  Proof. intros w w' i H. unfold fires_pl. rewrite (get_data_weq w w' _ H). destruct H as [H1 _]. rewrite H1. reflexivity. Qed.

  Section Idle.
    Variable c : comp.
    Hypothesis Hc : In c cs.

    Lemma mem_fire_false : forall (f : nat -> bool) l x, existsb f l = false -> mem x l && f x = false.
    Proof.
      intros f l x H. destruct (mem x l) eqn:E; [|reflexivity]. apply mem_In in E.
      simpl. eapply existsb_false; eauto.
    Qed.

    Lemma nofire_ex : forall w, existsb (fires_ex sp w) (c_ins c) = false -> weq (phase_exchange sp c w) w.
    Proof.
      intros w H. split.
      - intros i. rewrite ex_wi. rewrite (mem_fire_false _ _ i H). reflexivity.
      - intros o. destruct (ex_wo_fields sp c w o) as (E1 & E2 & E3 & E4 & E5 & E6 & E7 & E8).
        apply ostate_ext; try assumption. rewrite E2.
        unfold ex_count. rewrite filter_false_length; [lia|]. intros i Hi.
        rewrite (existsb_false _ _ _ _ H Hi). reflexivity.
    Qed.
    Lemma nofire_oi : forall w, existsb (fires_oi sp w) (c_outs c) = false -> weq (phase_outinfo sp c w) w.
    Proof. intros w H. split; [reflexivity|]. intros o. rewrite oi_wo, (mem_fire_false _ _ o H). reflexivity. Qed.
    Lemma nofire_pi : forall w, existsb (fires_pi w) (c_outs c) = false -> weq (phase_pushinfo c w) w.
    Proof. intros w H. split; [reflexivity|]. intros o. rewrite pi_wo, (mem_fire_false _ _ o H). reflexivity. Qed.
    Lemma nofire_pd : forall w, existsb (fires_pd w) (c_outs c) = false -> weq (phase_pushdata sp c w) w.
    Proof. intros w H. split; [reflexivity|]. intros o. rewrite pd_wo, (mem_fire_false _ _ o H). reflexivity. Qed.

    Lemma idle_fires : forall a w, any_done_flag sp c a w = false ->
        let w1 := phase_cache sp c a w in
        existsb (fires_ex sp w1) (c_ins c) = false /\ existsb (fires_oi sp w1) (c_outs c) = false
        /\ existsb (fires_pi w1) (c_outs c) = false /\ existsb (fires_pd w1) (c_outs c) = false
        /\ existsb (fires_pl sp w1) (c_ins c) = false.
    Proof.
      intros a w H w1. unfold any_done_flag in H. fold w1 in H.
      apply orb_false_iff in H. destruct H as [H B6]. apply orb_false_iff in H. destruct H as [H B5].
      apply orb_false_iff in H. destruct H as [H B4]. apply orb_false_iff in H. destruct H as [B2 B3].
      pose proof (nofire_ex w1 B2) as W2.
      rewrite (existsb_ext' _ _ (fires_oi sp w1) _ (fun o => fires_oi_weq _ _ o W2)) in B3.
      pose proof (weq_trans _ _ _ (nofire_oi _ ltac:(rewrite (existsb_ext' _ _ (fires_oi sp w1) _ (fun o => fires_oi_weq _ _ o W2)); exact B3)) W2) as W3.
      rewrite (existsb_ext' _ _ (fires_pi w1) _ (fun o => fires_pi_weq _ _ o W3)) in B4.
      pose proof (weq_trans _ _ _ (nofire_pi _ ltac:(rewrite (existsb_ext' _ _ (fires_pi w1) _ (fun o => fires_pi_weq _ _ o W3)); exact B4)) W3) as W4.
      rewrite (existsb_ext' _ _ (fires_pd w1) _ (fun o => fires_pd_weq _ _ o W4)) in B5.
      pose proof (weq_trans _ _ _ (nofire_pd _ ltac:(rewrite (existsb_ext' _ _ (fires_pd w1) _ (fun o => fires_pd_weq _ _ o W4)); exact B5)) W4) as W5.
      rewrite (existsb_ext' _ _ (fires_pl sp w1) _ (fun i => fires_pl_weq _ _ i W5)) in B6.
      repeat split; assumption.
    Qed.

    Definition slot_of (it : item) : Prop :=
      match it with
      | IInInfo i | IPulled i => In i (c_ins c)
      | IOutInfo o | IInfoPushed o | IDataPushed o => In o (c_outs c)
      end.

    Lemma upd_cache_new : forall (A : Type) (new old : option A), is_some new = true -> is_some (upd_cache c new old) = true.
    Proof. intros A new old H. unfold upd_cache. destruct (c_cache c), new; simpl in *; congruence. Qed.
    Lemma upd_cache_old : forall (A : Type) (new old : option A),
        c_cache c = true -> is_some old = true -> is_some (upd_cache c new old) = true.
    Proof. intros A new old Hc' H. unfold upd_cache. rewrite Hc'. destruct new; [reflexivity|exact H]. Qed.

    Lemma deps_ok_of : forall w ds, deps_in (fun it => done w it = true) ds -> deps_ok w ds = true.
    Proof. intros w ds H. unfold deps_ok. apply forallb_forall. intros d Hd. apply H. exact Hd. Qed.

    Lemma nconn_pos : forall i, In i (sp_ins sp) -> 0 < nconn sp (src i).
    Proof.
      intros i Hi. unfold nconn.
      assert (G : forall l, In i l -> 0 < length (filter (fun j => Nat.eqb (src j) (src i)) l)).
      { induction l as [|x r IH]; intros Hin; [destruct Hin|]. simpl. destruct Hin as [->|Hin].
        - rewrite Nat.eqb_refl. simpl. lia.
        - destruct (Nat.eqb (src x) (src i)); simpl; [lia|apply IH; exact Hin]. }
      apply G. exact Hi.
    Qed.

    Lemma idle_closed : forall w, Inv w -> any_done_flag sp c (prov_args sp w) w = false ->
        forall it, slot_of it -> step sp cs (fun it => done w it = true) it -> done w it = true.
    Proof.
      intros w I HF it Hslot Hstep.
      destruct (idle_fires (prov_args sp w) w HF) as (B2 & B3 & B4 & B5 & B6).
      set (a := prov_args sp w) in *. set (w1 := phase_cache sp c a w) in *.
      destruct (done w it) eqn:Ed; [reflexivity|]. exfalso.
      destruct it as [i|i|o|o|o]; cbn in Hslot, Hstep, Ed.
      - (* in-info *)
        destruct Hstep as (_ & Hjust & Hsrc). cbn in Hsrc.
        pose proof (existsb_false _ _ _ i B2 Hslot) as Hf. unfold fires_ex in Hf.
        assert (E1 : in_exch (wi w1 i) = in_exch (wi w i)) by (unfold w1; rewrite cache_wi; destruct (mem i (c_ins c)); reflexivity).
        assert (E2 : o_info (wo w1 (src i)) = o_info (wo w (src i))) by (unfold w1; rewrite cache_wo; destruct (mem (src i) (c_outs c)); reflexivity).
        rewrite E1, E2, Ed in Hf. rewrite (K1 w I) in Hsrc. rewrite Hsrc in Hf. cbn in Hf. rewrite andb_true_r in Hf.
        assert (Hreq : is_some (ex_req sp w1 i) = true); [|congruence].
        unfold ex_req. destruct (is_own (sp_in sp i)) eqn:Eo; [reflexivity|].
        unfold w1. rewrite cache_wi, (proj2 (mem_In _ _) Hslot). cbn.
        apply is_some_false in Ed.
        destruct Hjust as [Hown|[(ds & t & Hp & Hd)|(rs & Hr & Hs & Ht)]]; [congruence| |].
        + apply upd_cache_new. unfold ex_eff. rewrite Ed.
          assert (Ha : a_ex a i = Some t) by (unfold a, prov_args; cbn; rewrite Hp, (deps_ok_of w ds Hd); reflexivity).
          rewrite Ha. destruct (match is_rules (sp_in sp i) with Some _ => _ | None => _ end); reflexivity.
        + destruct (apply_rules_complete w rs None Hs Ht) as [t Hat].
          destruct (negb (c_cache c) || negb (is_some (in_cache (wi w i)))) eqn:Ec.
          * apply upd_cache_new. unfold ex_eff. rewrite Hr, Ed, Ec, Hat. reflexivity.
          * apply orb_false_iff in Ec. destruct Ec as [Ec1 Ec2]. apply negb_false_iff in Ec1, Ec2. apply upd_cache_old; assumption.
      - (* pulled *)
        destruct Hstep as (_ & Hp & Hin & Hdp). cbn in Hin, Hdp.
        pose proof (existsb_false _ _ _ i B6 Hslot) as Hf. unfold fires_pl in Hf.
        assert (E1 : wi w1 i = mk_istate (in_exch (wi w i)) (upd_cache c (ex_eff sp c a w i) (in_cache (wi w i))) (in_data (wi w i)))
          by (unfold w1; rewrite cache_wi, (proj2 (mem_In _ _) Hslot); reflexivity).
        rewrite E1 in Hf. cbn in Hf. rewrite Hp, Ed, Hin in Hf. cbn in Hf.
        assert (Hg : is_some (get_data sp w1 (src i)) = true); [|congruence].
        unfold get_data.
        assert (EO : o_info (wo w1 (src i)) = o_info (wo w (src i)) /\ o_exch (wo w1 (src i)) = o_exch (wo w (src i))
                     /\ o_data (wo w1 (src i)) = o_data (wo w (src i))).
        { unfold w1. rewrite cache_wo. destruct (mem (src i) (c_outs c)); repeat split; reflexivity. }
        destruct EO as (-> & -> & ->).
        rewrite (K3 w I i Hin).
        destruct (K5 w I _ Hdp) as [Hh Hl]. destruct (K4 w I _ Hh) as [_ Hle].
        assert (El : (o_exch (wo w (src i)) <? nconn sp (src i)) = false) by (apply Nat.ltb_ge; exact Hle).
        rewrite El. change (negb true) with false. cbv iota.
        assert (Hpos : 0 < nconn sp (src i)) by (apply nconn_pos; apply c_ins_sub with (c := c); assumption).
        specialize (Hl Hpos). unfold lookup_data in Hl. exact Hl.
      - (* out-info *)
        destruct Hstep as (_ & Hip & Hall). cbn in Hip.
        pose proof (existsb_false _ _ _ o B3 Hslot) as Hf. unfold fires_oi in Hf.
        assert (EO : o_hinfo (wo w1 o) = o_hinfo (wo w o) /\ o_info (wo w1 o) = o_info (wo w o) /\ o_exch (wo w1 o) = o_exch (wo w o)).
        { unfold w1. rewrite cache_wo. destruct (mem o (c_outs c)); repeat split; reflexivity. }
        destruct EO as (E1 & E2 & E3). rewrite E1, E2, E3, Ed in Hf. rewrite (K1 w I) in Hip. rewrite Hip in Hf. cbn in Hf.
        apply Nat.leb_gt in Hf. rewrite (K2 w I) in Hf. unfold cnt, nconn in Hf.
        rewrite (filter_ext_length _ (fun i => Nat.eqb (src i) o && is_some (in_exch (wi w i))) (fun i => Nat.eqb (src i) o) (sp_ins sp)) in Hf; [lia|].
        intros i Hi. destruct (Nat.eqb (src i) o) eqn:Es; [|reflexivity]. apply Nat.eqb_eq in Es.
        rewrite (Hall i Hi Es : is_some _ = true). reflexivity.
      - (* info pushed *)
        destruct Hstep as [Hown|(_ & Hjust)]; [rewrite (K10 w I o Hown) in Ed; discriminate|].
        pose proof (existsb_false _ _ _ o B4 Hslot) as Hf. unfold fires_pi in Hf.
        assert (E1 : wo w1 o = let st := wo w o in
                     mk_ostate (o_info st) (o_exch st) (o_data st) (o_hinfo st) (o_ipushed st) (o_dpushed st)
                               (upd_cache c (pi_eff sp c a w o) (o_icache st)) (upd_cache c (pd_eff a w o) (o_dcache st)))
          by (unfold w1; rewrite cache_wo, (proj2 (mem_In _ _) Hslot); reflexivity).
        rewrite E1 in Hf. cbn in Hf. rewrite Ed in Hf. cbn in Hf.
        assert (Hh : o_hinfo (wo w o) = None).
        { destruct (o_hinfo (wo w o)) eqn:Eh; [|reflexivity]. destruct (K4 w I o) as [Hp _]; [rewrite Eh; reflexivity|]. congruence. }
        assert (Hreq : is_some (upd_cache c (pi_eff sp c a w o) (o_icache (wo w o))) = true); [|congruence].
        destruct Hjust as [(ds & t & Hp & Hd)|(rs & Hr & Hs & Ht)].
        + apply upd_cache_new. unfold pi_eff. rewrite Hh.
          assert (Ha : a_pi a o = Some t) by (unfold a, prov_args; cbn; rewrite Hp, (deps_ok_of w ds Hd); reflexivity).
          rewrite Ha. destruct (match os_rules (sp_out sp o) with Some _ => _ | None => _ end); reflexivity.
        + destruct (apply_rules_complete w rs None Hs Ht) as [t Hat].
          destruct (negb (c_cache c) || negb (is_some (o_icache (wo w o)))) eqn:Ec.
          * apply upd_cache_new. unfold pi_eff. rewrite Hr, Ed, Ec, Hat. reflexivity.
          * apply orb_false_iff in Ec. destruct Ec as [Ec1 Ec2]. apply negb_false_iff in Ec1, Ec2. apply upd_cache_old; assumption.
      - (* data pushed *)
        destruct Hstep as (_ & (ds & p & Hp & Hd) & Hip & Hoi). cbn in Hip, Hoi.
        pose proof (existsb_false _ _ _ o B5 Hslot) as Hf. unfold fires_pd in Hf.
        assert (E1 : wo w1 o = let st := wo w o in
                     mk_ostate (o_info st) (o_exch st) (o_data st) (o_hinfo st) (o_ipushed st) (o_dpushed st)
                               (upd_cache c (pi_eff sp c a w o) (o_icache st)) (upd_cache c (pd_eff a w o) (o_dcache st)))
          by (unfold w1; rewrite cache_wo, (proj2 (mem_In _ _) Hslot); reflexivity).
        rewrite E1 in Hf. cbn in Hf. rewrite Ed, Hip, Hoi in Hf. cbn in Hf. rewrite !andb_true_r in Hf.
        assert (Hreq : is_some (upd_cache c (pd_eff a w o) (o_dcache (wo w o))) = true); [|congruence].
        apply upd_cache_new. unfold pd_eff. rewrite Ed.
        unfold a, prov_args; cbn. rewrite Hp, (deps_ok_of w ds Hd). reflexivity.
    Qed.
  End Idle.

  Lemma idle_flag : forall c a w w', helper_connect sp c a w = (w', CONNECTING_IDLE) -> any_done_flag sp c a w = false.
  Proof.
    intros c a w w' H. rewrite helper_connect_eq in H.
    assert (H2 : snd (fst (helper_connect sp c a w),
                      if all_done sp c (fst (helper_connect sp c a w)) then CONNECTED
                      else if any_done_flag sp c a w then CONNECTING else CONNECTING_IDLE) = CONNECTING_IDLE)
      by (rewrite H; reflexivity).
    cbn [snd] in H2.
    destruct (all_done sp c (fst (helper_connect sp c a w))); [discriminate|].
    destruct (any_done_flag sp c a w); [discriminate|reflexivity].
  Qed.

  Lemma step_ext : forall (P Q : item -> Prop), (forall it, P it <-> Q it) -> forall it, step sp cs P it -> step sp cs Q it.
  Proof. intros P Q H. apply step_mono. intros it. apply H. Qed.

  (** a round without progress: items unchanged, and every unconnected component is closed *)
  Lemma iter_closed : forall cs' k w,
      (forall c st, In (c, st) cs' -> In c cs /\ st <> INITIALIZED) -> Inv w ->
      it_new (iter sp k cs' w) = false ->
      (forall it, done (it_world (iter sp k cs' w)) it = done w it)
      /\ (forall c st, In (c, st) (it_comps (iter sp k cs' w)) -> st <> CONNECTED ->
                       forall it, slot_of c it -> step sp cs (fun it => done w it = true) it -> done w it = true).
  Proof.
    induction cs' as [|[c st] r IH]; intros k w HC I HN; cbn in *; [split; [reflexivity|intros ? ? []]|].
    assert (HCr : forall c' st', In (c', st') r -> In c' cs /\ st' <> INITIALIZED) by (intros c' st' Hin; apply (HC c' st'); right; exact Hin).
    destruct (HC c st (or_introl eq_refl)) as [Hc Hst].
    destruct st; [congruence| | |]; cbn in *.
    - destruct (helper_connect sp c (prov_args sp w) w) as [w1 st1] eqn:E; cbn in *.
      apply orb_false_iff in HN. destruct HN as [HN1 HN]. apply orb_false_iff in HN1. destruct HN1 as [N1 N2].
      pose proof (progress_iff sp c _ w w1 st1 E) as (_ & _ & _ & _ & N3).
      assert (st1 = CONNECTING_IDLE) by (destruct st1; simpl in *; congruence). subst st1.
      pose proof (idle_flag _ _ _ _ E) as HF.
      assert (Hw1 : fst (helper_connect sp c (prov_args sp w) w) = w1) by (rewrite E; reflexivity).
      pose proof (call_ok sp c (prov_args sp w) w) as (_ & F & _). rewrite Hw1 in F. specialize (F HF).
      assert (I1 : Inv w1) by (rewrite <- Hw1; apply inv_call; [exact Hc|apply prov_args_just; apply (K8 w I)|exact I]).
      destruct (IH (S k) w1 HCr I1 HN) as [G1 G2]. split.
      + intros it. rewrite G1. apply F.
      + intros c' st' [Heq|Hin] Hne it Hs Hstep.
        * inversion Heq; subst. eapply idle_closed; eauto.
        * rewrite <- F. eapply G2; eauto. eapply step_ext; [|exact Hstep]. intros it'. rewrite F. tauto.
    - destruct (helper_connect sp c (prov_args sp w) w) as [w1 st1] eqn:E; cbn in *.
      apply orb_false_iff in HN. destruct HN as [HN1 HN]. apply orb_false_iff in HN1. destruct HN1 as [N1 N2].
      pose proof (progress_iff sp c _ w w1 st1 E) as (_ & _ & _ & _ & N3).
      assert (st1 = CONNECTING_IDLE) by (destruct st1; simpl in *; congruence). subst st1.
      pose proof (idle_flag _ _ _ _ E) as HF.
      assert (Hw1 : fst (helper_connect sp c (prov_args sp w) w) = w1) by (rewrite E; reflexivity).
      pose proof (call_ok sp c (prov_args sp w) w) as (_ & F & _). rewrite Hw1 in F. specialize (F HF).
      assert (I1 : Inv w1) by (rewrite <- Hw1; apply inv_call; [exact Hc|apply prov_args_just; apply (K8 w I)|exact I]).
      destruct (IH (S k) w1 HCr I1 HN) as [G1 G2]. split.
      + intros it. rewrite G1. apply F.
      + intros c' st' [Heq|Hin] Hne it Hs Hstep.
        * inversion Heq; subst. eapply idle_closed; eauto.
        * rewrite <- F. eapply G2; eauto. eapply step_ext; [|exact Hstep]. intros it'. rewrite F. tauto.
    - destruct (IH (S k) w HCr I HN) as [G1 G2]. split; [exact G1|].
      intros c' st' [Heq|Hin] Hne; [inversion Heq; subst; congruence|eapply G2; eauto].
  Qed.

  Lemma loop_closed : forall fuel cs' w,
      (forall c st, In (c, st) cs' -> In c cs) -> Inv w ->
      forall L, r_out (loop sp fuel cs' w) = Circular L ->
      forall c st, In (c, st) (r_comps (loop sp fuel cs' w)) -> st <> CONNECTED ->
      forall it, slot_of c it -> step sp cs (fun it => done (r_world (loop sp fuel cs' w)) it = true) it ->
                 done (r_world (loop sp fuel cs' w)) it = true.
  Proof.
    induction fuel as [|f IH]; intros cs' w HC I L; cbn; [discriminate|].
    pose proof (iter_inv cs' 0 w HC I) as I'.
    destruct (unconnected 0 (it_comps (iter sp 0 cs' w))) eqn:EU; cbn; [discriminate|].
    destruct (it_new (iter sp 0 cs' w)) eqn:EN; cbn.
    - apply IH; [|exact I']. intros c st Hin.
      assert (Hf : In c (map fst (it_comps (iter sp 0 cs' w)))) by (apply in_map_iff; exists (c, st); split; [reflexivity|exact Hin]).
      rewrite iter_fst in Hf. apply in_map_iff in Hf. destruct Hf as [[c' st'] [Hf Hin']]. simpl in Hf. subst c'. eapply HC; eauto.
    - intros _ c st Hin Hne it Hs Hstep.
      assert (HC' : forall c st, In (c, st) cs' -> In c cs /\ st <> INITIALIZED).
      { intros c0 st0 Hin0. split; [eapply HC; eauto|]. intros ->. rewrite (iter_new_init sp cs' 0 w c0 Hin0) in EN. discriminate. }
      destruct (iter_closed cs' 0 w HC' I EN) as [G1 G2].
      rewrite G1. eapply G2; eauto. eapply step_ext; [|exact Hstep]. intros it'. cbv beta. rewrite G1. tauto.
  Qed.

  Lemma run_inv : Inv (r_world (connect_run sp cs)).
  Proof.
    unfold connect_run. apply loop_inv; [|apply inv_init].
    intros c st Hin. apply in_map_iff in Hin. destruct Hin as [x [Hx Hin]]. inversion Hx. subst. exact Hin.
  Qed.

  Lemma comp_status : forall c, In c cs -> exists st, In (c, st) (r_comps (connect_run sp cs)).
  Proof.
    intros c Hc.
    assert (Hm : map fst (r_comps (connect_run sp cs)) = cs).
    { unfold connect_run. rewrite loop_fst, map_map. simpl. apply map_id. }
    rewrite <- Hm in Hc. apply in_map_iff in Hc. destruct Hc as [[c' st] [Hf Hin]]. simpl in Hf. subst c'. exists st. exact Hin.
  Qed.

  Lemma owned_closed : forall c it, In c cs -> slot_of c it -> In it (declared sp c) ->
      step sp cs (fun it => done (r_world (connect_run sp cs)) it = true) it ->
      done (r_world (connect_run sp cs)) it = true.
  Proof.
    intros c it Hc Hslot Hdecl Hstep.
    destruct (comp_status c Hc) as [st Hst].
    destruct (r_out (connect_run sp cs)) as [|L|] eqn:EO.
    - destruct WF as (WD & _). apply (proj1 (run_stall_set sp cs WD) EO c Hc it Hdecl).
    - destruct st; try (eapply (run_sound sp cs c CONNECTED); eauto; fail);
        (unfold connect_run in *; eapply loop_closed; eauto; try discriminate; try apply inv_init;
         intros c' st' Hin; apply in_map_iff in Hin; destruct Hin as [x [Hx Hin]]; inversion Hx; subst; exact Hin).
    - exfalso. exact (proj1 (run_terminates sp cs) EO).
  Qed.

  Lemma final_closed : closed sp cs (fun it => done (r_world (connect_run sp cs)) it = true).
  Proof.
    intros it Hstep. destruct it as [i|i|o|o|o].
    - assert (Ho : own_in cs i) by apply Hstep. unfold own_in, own_out in Ho. apply in_flat_map in Ho. destruct Ho as [c [Hc Hi]].
      apply (owned_closed c); auto. apply declared_in. exact Hi.
    - assert (Ho : own_in cs i) by apply Hstep. unfold own_in, own_out in Ho. apply in_flat_map in Ho. destruct Ho as [c [Hc Hi]].
      apply (owned_closed c); auto. apply declared_pull; [exact Hi|apply Hstep].
    - assert (Ho : own_out cs o) by apply Hstep. unfold own_in, own_out in Ho. apply in_flat_map in Ho. destruct Ho as [c [Hc Hi]].
      apply (owned_closed c); auto. apply declared_out. exact Hi.
    - destruct Hstep as [Hown|[Ho Hj]].
      + cbn. apply (K10 _ run_inv). exact Hown.
      + unfold own_out in Ho. apply in_flat_map in Ho. destruct Ho as [c [Hc Hi]].
        apply (owned_closed c); auto; [apply declared_out; exact Hi|]. cbn. right. split; [unfold own_out; apply in_flat_map; eauto|exact Hj].
    - assert (Ho : own_out cs o) by apply Hstep. unfold own_in, own_out in Ho. apply in_flat_map in Ho. destruct Ho as [c [Hc Hi]].
      apply (owned_closed c); auto. apply declared_out. exact Hi.
  Qed.

  Lemma done_iff_derivable : forall it, done (r_world (connect_run sp cs)) it = true <-> D it.
  Proof.
    intros it. split; [apply (K8 _ run_inv)|]. intros H. apply (H _ final_closed).
  Qed.

  (** C06_fixpoint_full *)
  Lemma fixpoint_full_holds :
    let r := connect_run sp cs in
    (forall it, done (r_world r) it = true <-> D it)
    /\ ((forall c it, In c cs -> In it (declared sp c) -> D it) -> r_out r = Success)
    /\ (forall L, r_out r = Circular L ->
                  forall n, In n L <-> exists c, nth_error cs n = Some c
                                                 /\ exists it, In it (declared sp c) /\ ~ D it).
  Proof.
    intros r. subst r. destruct WF as (WD & _).
    assert (H3 : forall L, r_out (connect_run sp cs) = Circular L ->
                  forall n, In n L <-> exists c, nth_error cs n = Some c /\ exists it, In it (declared sp c) /\ ~ D it).
    { intros L HL n. destruct (proj2 (run_stall_set sp cs WD) L HL) as [-> _].
      rewrite stuck_idx_exact. split; intros [c [Hn [it [Hin Hd]]]]; exists c; (split; [exact Hn|]); exists it; (split; [exact Hin|]).
      - intros HD. apply done_iff_derivable in HD. congruence.
      - destruct (done (r_world (connect_run sp cs)) it) eqn:E; [|reflexivity]. exfalso. apply Hd. apply done_iff_derivable. exact E. }
    split; [exact done_iff_derivable|]. split; [|exact H3].
    intros Hall. destruct (r_out (connect_run sp cs)) as [|L|] eqn:EO; [reflexivity| |exfalso; exact (proj1 (run_terminates sp cs) EO)].
    exfalso. destruct (proj2 (run_stall_set sp cs WD) L EO) as [_ Hne].
    destruct L as [|n L']; [congruence|].
    destruct (proj1 (H3 (n :: L') eq_refl n) (or_introl eq_refl)) as [c [Hn [it [Hin Hd]]]].
    apply Hd. apply (Hall c it); [eapply nth_error_In; eauto|exact Hin].
  Qed.
End Fix.
