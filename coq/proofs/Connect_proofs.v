(** Proofs about the model of the iterative connect phase (FV.Connect). *)
From Coq Require Import List ZArith Bool Arith Lia.
From FV Require Import Base Connect.
Import ListNotations.
Local Open Scope nat_scope.

Arguments phase_cache : simpl never.
Arguments phase_exchange : simpl never.
Arguments phase_outinfo : simpl never.
Arguments phase_pushinfo : simpl never.
Arguments phase_pushdata : simpl never.
Arguments phase_pull : simpl never.
Arguments helper_connect : simpl never.

(** * Tabulated overrides are pointwise updates *)

Lemma mem_In : forall x l, mem x l = true <-> In x l.
Proof.
  intros x l. unfold mem. rewrite existsb_exists. split.
  - intros [y [Hy He]]. apply Nat.eqb_eq in He. subst. exact Hy.
  - intros H. exists x. split; [exact H | apply Nat.eqb_refl].
Qed.

Lemma tlookup_map : forall (A : Type) (f : nat -> A) l x,
    tlookup x (map (fun y => (y, f y)) l) = if mem x l then Some (f x) else None.
Proof.
  intros A f l x. induction l as [|k r IH]; simpl; [reflexivity|].
  destruct (Nat.eqb x k) eqn:E.
  - apply Nat.eqb_eq in E. subst. reflexivity.
  - simpl. exact IH.
Qed.

Lemma override_spec : forall (A : Type) l (f g : nat -> A) x,
    override l f g x = if mem x l then f x else g x.
Proof.
  intros. unfold override, override_tbl. rewrite tlookup_map. destruct (mem x l); reflexivity.
Qed.

Lemma is_some_true : forall (A : Type) (o : option A), is_some o = true <-> exists x, o = Some x.
Proof. intros A [x|]; simpl; split; intros H; eauto; try discriminate. destruct H; discriminate. Qed.

Lemma is_some_false : forall (A : Type) (o : option A), is_some o = false <-> o = None.
Proof. intros A [x|]; simpl; split; intros H; congruence. Qed.

(** * One helper call *)
Section Call.
  Variable sp : spec.
  Variable c : comp.
  Variable a : args.

  Notation ph_cache := (phase_cache sp c a).
  Notation ph_ex := (phase_exchange sp c).
  Notation ph_oi := (phase_outinfo sp c).
  Notation ph_pi := (phase_pushinfo c).
  Notation ph_pd := (phase_pushdata sp c).
  Notation ph_pl := (phase_pull sp c).

  (** pointwise forms *)
  Lemma cache_wi : forall w i,
      wi (ph_cache w) i =
      if mem i (c_ins c)
      then mk_istate (in_exch (wi w i)) (upd_cache c (ex_eff sp c a w i) (in_cache (wi w i))) (in_data (wi w i))
      else wi w i.
  Proof. intros. unfold phase_cache. simpl. rewrite override_spec. reflexivity. Qed.

  Lemma cache_wo : forall w o,
      wo (ph_cache w) o =
      if mem o (c_outs c)
      then let st := wo w o in
           mk_ostate (o_info st) (o_exch st) (o_data st) (o_hinfo st) (o_ipushed st) (o_dpushed st)
                     (upd_cache c (pi_eff sp c a w o) (o_icache st)) (upd_cache c (pd_eff a w o) (o_dcache st))
      else wo w o.
  Proof. intros. unfold phase_cache. simpl. rewrite override_spec. reflexivity. Qed.

  Lemma ex_wi : forall w i,
      wi (ph_ex w) i =
      if mem i (c_ins c) && fires_ex sp w i
      then mk_istate (ex_req sp w i)
                     (match is_own (sp_in sp i) with Some _ => in_cache (wi w i) | None => None end)
                     (in_data (wi w i))
      else wi w i.
  Proof.
    intros. unfold phase_exchange. simpl. rewrite override_spec.
    destruct (mem i (c_ins c)); simpl; [|reflexivity]. destruct (fires_ex sp w i); reflexivity.
  Qed.

  Definition ex_count (w : world) (o : nat) : nat :=
    length (filter (fun i => fires_ex sp w i && Nat.eqb (is_src (sp_in sp i)) o) (c_ins c)).

  Lemma ex_count_zero : forall w o,
      mem o (map (fun i => is_src (sp_in sp i)) (c_ins c)) = false -> ex_count w o = 0.
  Proof.
    intros w o H. unfold ex_count.
    assert (G : forall l, mem o (map (fun i => is_src (sp_in sp i)) l) = false ->
                          filter (fun i => fires_ex sp w i && Nat.eqb (is_src (sp_in sp i)) o) l = []).
    { induction l as [|i r IH]; simpl; intros Hm; [reflexivity|].
      apply orb_false_iff in Hm. destruct Hm as [H1 H2].
      rewrite Nat.eqb_sym in H1. rewrite H1, andb_false_r. apply IH. exact H2. }
    rewrite (G _ H). reflexivity.
  Qed.

  Lemma ex_wo_fields : forall w o,
      let st := wo w o in let st' := wo (ph_ex w) o in
      o_info st' = o_info st /\ o_exch st' = o_exch st + ex_count w o /\ o_data st' = o_data st /\
      o_hinfo st' = o_hinfo st /\ o_ipushed st' = o_ipushed st /\ o_dpushed st' = o_dpushed st /\
      o_icache st' = o_icache st /\ o_dcache st' = o_dcache st.
  Proof.
    intros w o. unfold phase_exchange. simpl. rewrite override_spec.
    destruct (mem o _) eqn:E; simpl.
    - repeat split; reflexivity.
    - rewrite (ex_count_zero w o E). rewrite Nat.add_0_r. repeat split; reflexivity.
  Qed.

  Lemma oi_wo : forall w o,
      wo (ph_oi w) o =
      if mem o (c_outs c) && fires_oi sp w o
      then let st := wo w o in
           mk_ostate (o_info st) (o_exch st) (o_data st) (o_info st) (o_ipushed st) (o_dpushed st) (o_icache st) (o_dcache st)
      else wo w o.
  Proof.
    intros. unfold phase_outinfo. simpl. rewrite override_spec.
    destruct (mem o (c_outs c)); simpl; [|reflexivity]. destruct (fires_oi sp w o); reflexivity.
  Qed.

  Lemma pi_wo : forall w o,
      wo (ph_pi w) o =
      if mem o (c_outs c) && fires_pi w o
      then let st := wo w o in
           mk_ostate (o_icache st) (o_exch st) (o_data st) (o_hinfo st) true (o_dpushed st) None (o_dcache st)
      else wo w o.
  Proof.
    intros. unfold phase_pushinfo. simpl. rewrite override_spec.
    destruct (mem o (c_outs c)); simpl; [|reflexivity]. destruct (fires_pi w o); reflexivity.
  Qed.

  Lemma pd_wo : forall w o,
      wo (ph_pd w) o =
      if mem o (c_outs c) && fires_pd w o
      then let st := wo w o in
           match o_dcache st, o_hinfo st with
           | Some p, Some t => mk_ostate (o_info st) (o_exch st) (o_data st ++ pushed_entries sp o t p) (o_hinfo st)
                                         (o_ipushed st) true (o_icache st) None
           | _, _ => st
           end
      else wo w o.
  Proof.
    intros. unfold phase_pushdata. simpl. rewrite override_spec.
    destruct (mem o (c_outs c)); simpl; [|reflexivity]. destruct (fires_pd w o); reflexivity.
  Qed.

  Lemma pl_wi : forall w i,
      wi (ph_pl w) i =
      if mem i (c_ins c) && fires_pl sp w i
      then mk_istate (in_exch (wi w i)) (in_cache (wi w i)) (get_data sp w (is_src (sp_in sp i)))
      else wi w i.
  Proof.
    intros. unfold phase_pull. simpl. rewrite override_spec.
    destruct (mem i (c_ins c)); simpl; [|reflexivity]. destruct (fires_pl sp w i); reflexivity.
  Qed.

  (** membership of items in the declared list *)
  Lemma declared_in : forall i, In i (c_ins c) -> In (IInInfo i) (declared sp c).
  Proof.
    intros i H. unfold declared. apply in_or_app. left. apply in_flat_map. exists i. split; [exact H|]. left. reflexivity.
  Qed.
  Lemma declared_pull : forall i, In i (c_ins c) -> is_pull (sp_in sp i) = true -> In (IPulled i) (declared sp c).
  Proof.
    intros i H Hp. unfold declared. apply in_or_app. left. apply in_flat_map. exists i. split; [exact H|].
    rewrite Hp. right. left. reflexivity.
  Qed.
  Lemma declared_out : forall o, In o (c_outs c) ->
      In (IOutInfo o) (declared sp c) /\ In (IInfoPushed o) (declared sp c) /\ In (IDataPushed o) (declared sp c).
  Proof.
    intros o H. unfold declared. repeat split; apply in_or_app; right; apply in_flat_map; exists o; (split; [exact H|]); simpl; auto.
  Qed.

  Lemma declared_inv : forall it, In it (declared sp c) ->
      match it with
      | IInInfo i => In i (c_ins c)
      | IPulled i => In i (c_ins c) /\ is_pull (sp_in sp i) = true
      | IOutInfo o | IInfoPushed o | IDataPushed o => In o (c_outs c)
      end.
  Proof.
    intros it H. unfold declared in H. apply in_app_or in H. destruct H as [H|H]; apply in_flat_map in H; destruct H as [x [Hx Hi]].
    - destruct Hi as [Hi|Hi]; [subst; exact Hx|].
      destruct (is_pull (sp_in sp x)) eqn:E; simpl in Hi; [|contradiction].
      destruct Hi as [Hi|[]]. subst. split; assumption.
    - simpl in Hi. destruct Hi as [Hi|[Hi|[Hi|[]]]]; subst; exact Hx.
  Qed.

  (** ** Specification of a phase: monotone; the flag is false iff no item changed; a true flag
      comes with a declared item that became done *)
  Definition phase_ok (w w' : world) (b : bool) : Prop :=
    (forall it, done w it = true -> done w' it = true) /\
    (b = false -> forall it, done w' it = done w it) /\
    (b = true -> exists it, In it (declared sp c) /\ done w it = false /\ done w' it = true).

  Lemma phase_ok_seq : forall w1 w2 w3 b1 b2,
      phase_ok w1 w2 b1 -> phase_ok w2 w3 b2 -> phase_ok w1 w3 (b1 || b2).
  Proof.
    intros w1 w2 w3 b1 b2 [M1 [F1 T1]] [M2 [F2 T2]]. split; [|split].
    - intros it H. apply M2, M1, H.
    - intros Hb it. apply orb_false_iff in Hb. destruct Hb as [-> ->]. rewrite F2, F1; reflexivity.
    - intros Hb. destruct b1.
      + destruct (T1 eq_refl) as [it [Hin [Hd Hd']]]. exists it. repeat split; auto.
      + simpl in Hb. subst b2. destruct (T2 eq_refl) as [it [Hin [Hd Hd']]]. exists it. repeat split; auto.
        rewrite <- (F1 eq_refl it). exact Hd.
  Qed.

  Lemma cache_done : forall w it, done (ph_cache w) it = done w it.
  Proof.
    intros w it. destruct it as [i|i|o|o|o]; cbn;
      try (rewrite cache_wi; destruct (mem i (c_ins c)); reflexivity);
      rewrite cache_wo; destruct (mem o (c_outs c)); reflexivity.
  Qed.

  Lemma existsb_false : forall (A : Type) (f : A -> bool) l x, existsb f l = false -> In x l -> f x = false.
  Proof.
    intros A f l x H Hin. destruct (f x) eqn:E; [|reflexivity].
    assert (existsb f l = true) by (apply existsb_exists; exists x; auto). congruence.
  Qed.

  Lemma ex_ok : forall w, phase_ok w (ph_ex w) (existsb (fires_ex sp w) (c_ins c)).
  Proof.
    intros w. split; [|split].
    - intros it H. destruct it as [i|i|o|o|o]; cbn in *;
        try (rewrite ex_wi; destruct (mem i (c_ins c) && fires_ex sp w i) eqn:E; [|exact H]; simpl).
      + apply andb_true_iff in E. destruct E as [_ E]. unfold fires_ex in E.
        apply andb_true_iff in E. destruct E as [E _]. apply andb_true_iff in E. apply E.
      + exact H.
      + destruct (ex_wo_fields w o) as (_ & _ & _ & -> & _). exact H.
      + destruct (ex_wo_fields w o) as (_ & _ & _ & _ & -> & _). exact H.
      + destruct (ex_wo_fields w o) as (_ & _ & _ & _ & _ & -> & _). exact H.
    - intros Hb it. destruct it as [i|i|o|o|o]; cbn.
      + rewrite ex_wi. destruct (mem i (c_ins c)) eqn:Em; cbn; [|reflexivity].
        rewrite (existsb_false _ _ _ _ Hb (proj1 (mem_In _ _) Em)). reflexivity.
      + rewrite ex_wi. destruct (mem i (c_ins c) && fires_ex sp w i); reflexivity.
      + destruct (ex_wo_fields w o) as (_ & _ & _ & -> & _). reflexivity.
      + destruct (ex_wo_fields w o) as (_ & _ & _ & _ & -> & _). reflexivity.
      + destruct (ex_wo_fields w o) as (_ & _ & _ & _ & _ & -> & _). reflexivity.
    - intros Hb. apply existsb_exists in Hb. destruct Hb as [i [Hin Hf]].
      exists (IInInfo i). split; [apply declared_in; exact Hin|]. cbn. rewrite ex_wi.
      rewrite (proj2 (mem_In _ _) Hin), Hf. cbn.
      unfold fires_ex in Hf. apply andb_true_iff in Hf. destruct Hf as [Hf _]. apply andb_true_iff in Hf. destruct Hf as [H1 H2].
      split; [|exact H2]. apply negb_true_iff in H1. exact H1.
  Qed.

  Lemma oi_ok : forall w, phase_ok w (ph_oi w) (existsb (fires_oi sp w) (c_outs c)).
  Proof.
    intros w.
    assert (HI : forall i, wi (ph_oi w) i = wi w i) by reflexivity.
    split; [|split].
    - intros it H. destruct it as [i|i|o|o|o]; cbn in *; try exact H;
        rewrite oi_wo; destruct (mem o (c_outs c) && fires_oi sp w o) eqn:E; try exact H; cbn.
      apply andb_true_iff in E. destruct E as [_ E]. unfold fires_oi in E.
      apply andb_true_iff in E. destruct E as [E _]. apply andb_true_iff in E. apply E.
    - intros Hb it. destruct it as [i|i|o|o|o]; cbn; try reflexivity;
        rewrite oi_wo; destruct (mem o (c_outs c)) eqn:Em; cbn; try reflexivity;
          rewrite (existsb_false _ _ _ _ Hb (proj1 (mem_In _ _) Em)); reflexivity.
    - intros Hb. apply existsb_exists in Hb. destruct Hb as [o [Hin Hf]].
      exists (IOutInfo o). split; [apply declared_out; exact Hin|]. cbn. rewrite oi_wo.
      rewrite (proj2 (mem_In _ _) Hin), Hf. cbn.
      unfold fires_oi in Hf. apply andb_true_iff in Hf. destruct Hf as [Hf _]. apply andb_true_iff in Hf. destruct Hf as [H1 H2].
      split; [|exact H2]. apply negb_true_iff in H1. exact H1.
  Qed.

  Lemma pi_ok : forall w, phase_ok w (ph_pi w) (existsb (fires_pi w) (c_outs c)).
  Proof.
    intros w. split; [|split].
    - intros it H. destruct it as [i|i|o|o|o]; cbn in *; try exact H;
        rewrite pi_wo; destruct (mem o (c_outs c) && fires_pi w o) eqn:E; try exact H; cbn; reflexivity.
    - intros Hb it. destruct it as [i|i|o|o|o]; cbn; try reflexivity;
        rewrite pi_wo; destruct (mem o (c_outs c)) eqn:Em; cbn; try reflexivity;
          rewrite (existsb_false _ _ _ _ Hb (proj1 (mem_In _ _) Em)); reflexivity.
    - intros Hb. apply existsb_exists in Hb. destruct Hb as [o [Hin Hf]].
      exists (IInfoPushed o). split; [apply declared_out; exact Hin|]. cbn. rewrite pi_wo.
      rewrite (proj2 (mem_In _ _) Hin), Hf. cbn.
      unfold fires_pi in Hf. apply andb_true_iff in Hf. destruct Hf as [H1 _].
      split; [|reflexivity]. apply negb_true_iff in H1. exact H1.
  Qed.

  Lemma fires_pd_inv : forall w o, fires_pd w o = true ->
      o_dpushed (wo w o) = false /\ (exists p, o_dcache (wo w o) = Some p) /\ o_ipushed (wo w o) = true
      /\ exists t, o_hinfo (wo w o) = Some t.
  Proof.
    intros w o H. unfold fires_pd in H. repeat (apply andb_true_iff in H; destruct H as [H ?]).
    apply negb_true_iff in H. repeat split; auto; apply is_some_true; assumption.
  Qed.

  Lemma pd_ok : forall w, phase_ok w (ph_pd w) (existsb (fires_pd w) (c_outs c)).
  Proof.
    intros w. split; [|split].
    - intros it H. destruct it as [i|i|o|o|o]; cbn in *; try exact H;
        rewrite pd_wo; destruct (mem o (c_outs c) && fires_pd w o) eqn:E; try exact H; cbn;
          apply andb_true_iff in E; destruct E as [_ E]; destruct (fires_pd_inv _ _ E) as (_ & [p Hp] & _ & [t Ht]);
            rewrite Hp, Ht; cbn; try exact H; try reflexivity.
    - intros Hb it. destruct it as [i|i|o|o|o]; cbn; try reflexivity;
        rewrite pd_wo; destruct (mem o (c_outs c)) eqn:Em; cbn; try reflexivity;
          rewrite (existsb_false _ _ _ _ Hb (proj1 (mem_In _ _) Em)); reflexivity.
    - intros Hb. apply existsb_exists in Hb. destruct Hb as [o [Hin Hf]].
      exists (IDataPushed o). split; [apply declared_out; exact Hin|]. cbn. rewrite pd_wo.
      rewrite (proj2 (mem_In _ _) Hin), Hf. cbn.
      destruct (fires_pd_inv _ _ Hf) as (Hd & [p Hp] & _ & [t Ht]). rewrite Hp, Ht. cbn. split; [exact Hd|reflexivity].
  Qed.

  Lemma pl_ok : forall w, phase_ok w (ph_pl w) (existsb (fires_pl sp w) (c_ins c)).
  Proof.
    intros w.
    assert (HO : forall o, wo (ph_pl w) o = wo w o) by reflexivity.
    split; [|split].
    - intros it H. destruct it as [i|i|o|o|o]; cbn in *; try exact H;
        rewrite pl_wi; destruct (mem i (c_ins c) && fires_pl sp w i) eqn:E; try exact H; cbn.
      apply andb_true_iff in E. destruct E as [_ E]. unfold fires_pl in E. apply andb_true_iff in E. apply E.
    - intros Hb it. destruct it as [i|i|o|o|o]; cbn; try reflexivity.
      + rewrite pl_wi. destruct (mem i (c_ins c) && fires_pl sp w i); reflexivity.
      + rewrite pl_wi. destruct (mem i (c_ins c)) eqn:Em; cbn; [|reflexivity].
        rewrite (existsb_false _ _ _ _ Hb (proj1 (mem_In _ _) Em)). reflexivity.
    - intros Hb. apply existsb_exists in Hb. destruct Hb as [i [Hin Hf]].
      assert (Hf' := Hf). unfold fires_pl in Hf. repeat (apply andb_true_iff in Hf; destruct Hf as [Hf ?]).
      exists (IPulled i). split; [apply declared_pull; assumption|]. cbn. rewrite pl_wi.
      rewrite (proj2 (mem_In _ _) Hin), Hf'. cbn. split; [|assumption].
      match goal with Hn : negb _ = true |- _ => apply negb_true_iff in Hn; exact Hn end.
  Qed.

  Lemma all_done_spec : forall w, all_done sp c w = true <-> forall it, In it (declared sp c) -> done w it = true.
  Proof.
    intros w. unfold all_done. rewrite andb_true_iff, !forallb_forall. split.
    - intros [HI HO] it Hin. apply declared_inv in Hin. destruct it as [i|i|o|o|o]; cbn.
      + specialize (HI i Hin). apply andb_true_iff in HI. apply HI.
      + destruct Hin as [Hin Hp]. specialize (HI i Hin). apply andb_true_iff in HI. destruct HI as [_ HI].
        rewrite Hp in HI. cbn in HI. exact HI.
      + specialize (HO o Hin). apply andb_true_iff in HO. destruct HO as [HO _]. apply andb_true_iff in HO. apply HO.
      + specialize (HO o Hin). apply andb_true_iff in HO. destruct HO as [HO _]. apply andb_true_iff in HO. apply HO.
      + specialize (HO o Hin). apply andb_true_iff in HO. apply HO.
    - intros H. split.
      + intros i Hin. apply andb_true_iff. split.
        * apply (H (IInInfo i)). apply declared_in. exact Hin.
        * destruct (is_pull (sp_in sp i)) eqn:Ep; cbn; [|reflexivity].
          apply (H (IPulled i)). apply declared_pull; assumption.
      + intros o Hin. destruct (declared_out o Hin) as (H1 & H2 & H3).
        rewrite (H _ H1 : is_some _ = true), (H _ H2 : o_ipushed _ = true), (H _ H3 : o_dpushed _ = true). reflexivity.
  Qed.

  (** ** The whole call *)
  Definition any_done_flag (w : world) : bool :=
    let w1 := ph_cache w in
    let w2 := ph_ex w1 in let w3 := ph_oi w2 in let w4 := ph_pi w3 in let w5 := ph_pd w4 in
    existsb (fires_ex sp w1) (c_ins c) || existsb (fires_oi sp w2) (c_outs c) || existsb (fires_pi w3) (c_outs c)
    || existsb (fires_pd w4) (c_outs c) || existsb (fires_pl sp w5) (c_ins c).

  Lemma helper_connect_eq : forall w,
      helper_connect sp c a w =
      (fst (helper_connect sp c a w),
       if all_done sp c (fst (helper_connect sp c a w)) then CONNECTED
       else if any_done_flag w then CONNECTING else CONNECTING_IDLE).
  Proof. intros. reflexivity. Qed.

  Lemma call_ok : forall w, phase_ok w (fst (helper_connect sp c a w)) (any_done_flag w).
  Proof.
    intros w. unfold helper_connect, any_done_flag. cbn.
    set (w1 := ph_cache w). set (w2 := ph_ex w1). set (w3 := ph_oi w2). set (w4 := ph_pi w3). set (w5 := ph_pd w4).
    assert (H0 : phase_ok w w1 false).
    { split; [|split]; intros; try discriminate; unfold w1; rewrite cache_done; auto. }
    pose proof (phase_ok_seq _ _ _ _ _ H0 (ex_ok w1)) as H1. fold w2 in H1.
    pose proof (phase_ok_seq _ _ _ _ _ H1 (oi_ok w2)) as H2. fold w3 in H2.
    pose proof (phase_ok_seq _ _ _ _ _ H2 (pi_ok w3)) as H3. fold w4 in H3.
    pose proof (phase_ok_seq _ _ _ _ _ H3 (pd_ok w4)) as H4. fold w5 in H4.
    pose proof (phase_ok_seq _ _ _ _ _ H4 (pl_ok w5)) as H5.
    cbn in H5. exact H5.
  Qed.

  (** C06_progress_iff *)
  Lemma progress_iff : forall w w' st,
      helper_connect sp c a w = (w', st) ->
      (forall it, done w it = true -> done w' it = true)
      /\ (st = CONNECTED <-> (forall it, In it (declared sp c) -> done w' it = true))
      /\ (st = CONNECTING <->
          (exists it, In it (declared sp c) /\ done w' it = false)
          /\ (exists it, In it (declared sp c) /\ done w it = false /\ done w' it = true))
      /\ (st = CONNECTING_IDLE <->
          (exists it, In it (declared sp c) /\ done w' it = false)
          /\ (forall it, In it (declared sp c) -> done w' it = done w it))
      /\ st <> INITIALIZED.
  Proof.
    intros w w' st H.
    assert (Hw : fst (helper_connect sp c a w) = w') by (rewrite H; reflexivity).
    rewrite helper_connect_eq in H. rewrite Hw in H. injection H as Hst.
    pose proof (call_ok w) as [M [F T]]. rewrite Hw in M, F, T.
    assert (ND : all_done sp c w' = false -> exists it, In it (declared sp c) /\ done w' it = false).
    { intros Hf. unfold all_done in Hf.
      apply andb_false_iff in Hf. destruct Hf as [Hf|Hf].
      - assert (exists i, In i (c_ins c) /\ (is_some (in_exch (wi w' i)) && (negb (is_pull (sp_in sp i)) || is_some (in_data (wi w' i)))) = false) as [i [Hin Hi]].
        { clear -Hf. induction (c_ins c) as [|x r IH]; cbn in Hf; [discriminate|].
          apply andb_false_iff in Hf. destruct Hf as [Hf|Hf]; [exists x; split; [left; reflexivity|exact Hf]|].
          destruct (IH Hf) as [i [Hin Hi]]. exists i. split; [right; exact Hin|exact Hi]. }
        apply andb_false_iff in Hi. destruct Hi as [Hi|Hi].
        + exists (IInInfo i). split; [apply declared_in; exact Hin|exact Hi].
        + apply orb_false_iff in Hi. destruct Hi as [Hp Hd]. apply negb_false_iff in Hp.
          exists (IPulled i). split; [apply declared_pull; assumption|exact Hd].
      - assert (exists o, In o (c_outs c) /\ (is_some (o_hinfo (wo w' o)) && o_ipushed (wo w' o) && o_dpushed (wo w' o)) = false) as [o [Hin Ho]].
        { clear -Hf. induction (c_outs c) as [|x r IH]; cbn in Hf; [discriminate|].
          apply andb_false_iff in Hf. destruct Hf as [Hf|Hf]; [exists x; split; [left; reflexivity|exact Hf]|].
          destruct (IH Hf) as [o [Hin Ho]]. exists o. split; [right; exact Hin|exact Ho]. }
        destruct (declared_out o Hin) as (D1 & D2 & D3).
        apply andb_false_iff in Ho. destruct Ho as [Ho|Ho]; [apply andb_false_iff in Ho; destruct Ho as [Ho|Ho]|].
        + exists (IOutInfo o). split; assumption.
        + exists (IInfoPushed o). split; assumption.
        + exists (IDataPushed o). split; assumption. }
    split; [exact M|].
    destruct (all_done sp c w') eqn:EA.
    - pose proof (proj1 (all_done_spec w') EA) as HA. subst st.
      split; [split; auto|]. split; [|split; [|discriminate]].
      + split; [discriminate|]. intros [[it [Hin Hd]] _]. rewrite (HA it Hin) in Hd. discriminate.
      + split; [discriminate|]. intros [[it [Hin Hd]] _]. rewrite (HA it Hin) in Hd. discriminate.
    - destruct (ND eq_refl) as [it0 [Hin0 Hd0]].
      assert (NA : ~ (forall it, In it (declared sp c) -> done w' it = true)).
      { intros HA. rewrite (HA it0 Hin0) in Hd0. discriminate. }
      destruct (any_done_flag w) eqn:EF; subst st.
      + split; [split; [discriminate|intros HA; contradiction]|].
        split.
        { split; [|reflexivity]. intros _. split; [exists it0; split; assumption|]. apply T. reflexivity. }
        split; [|discriminate]. split; [discriminate|].
        intros [_ HS]. destruct (T eq_refl) as [it [Hin [Hd Hd']]]. rewrite (HS it Hin) in Hd'. congruence.
      + split; [split; [discriminate|intros HA; contradiction]|].
        split.
        { split; [discriminate|]. intros [_ [it [Hin [Hd Hd']]]]. rewrite (F eq_refl it) in Hd'. congruence. }
        split; [|discriminate]. split; [|reflexivity]. intros _. split; [exists it0; split; assumption|].
        intros it _. apply F. reflexivity.
  Qed.
End Call.

(** * The loop of Composition._connect_components *)
Section Loop.
  Variable sp : spec.

  Definition undone (L : list item) (w : world) : nat := length (filter (fun it => negb (done w it)) L).
  Definition nunconn (cs : list (comp * status)) : nat :=
    length (filter (fun x => negb (status_eqb (snd x) CONNECTED)) cs).
  Definition ninit (cs : list (comp * status)) : nat :=
    length (filter (fun x => status_eqb (snd x) INITIALIZED) cs).
  Definition mu (L : list item) (w : world) (cs : list (comp * status)) : nat := undone L w + nunconn cs + ninit cs.

  Definition mono (w w' : world) : Prop := forall it, done w it = true -> done w' it = true.

  Lemma mono_refl : forall w, mono w w. Proof. intros w it H. exact H. Qed.
  Lemma mono_trans : forall w1 w2 w3, mono w1 w2 -> mono w2 w3 -> mono w1 w3.
  Proof. intros w1 w2 w3 H1 H2 it H. apply H2, H1, H. Qed.

  Lemma undone_mono : forall L w w', mono w w' -> undone L w' <= undone L w.
  Proof.
    intros L w w' M. unfold undone. induction L as [|x r IH]; simpl; [lia|].
    destruct (done w x) eqn:E.
    - rewrite (M x E). simpl. exact IH.
    - simpl. destruct (negb (done w' x)); simpl; lia.
  Qed.

  Lemma undone_strict : forall L w w' it, mono w w' -> In it L -> done w it = false -> done w' it = true ->
                                          undone L w' < undone L w.
  Proof.
    intros L w w' it M. unfold undone. induction L as [|x r IH]; simpl; intros Hin Hd Hd'; [contradiction|].
    pose proof (undone_mono r w w' M) as Hle. unfold undone in Hle.
    destruct Hin as [->|Hin].
    - rewrite Hd, Hd'. simpl. lia.
    - specialize (IH Hin Hd Hd'). destruct (done w x) eqn:E.
      + rewrite (M x E). simpl. exact IH.
      + simpl. destruct (negb (done w' x)); simpl; lia.
  Qed.

  Definition sound (w : world) (cs : list (comp * status)) : Prop :=
    forall c st, In (c, st) cs -> st = CONNECTED -> forall it, In it (declared sp c) -> done w it = true.

  Lemma sound_mono : forall w w' cs, mono w w' -> sound w cs -> sound w' cs.
  Proof. intros w w' cs M HS c st Hin Hst it Hit. apply M. eapply HS; eauto. Qed.

  Lemma status_eqb_eq : forall a b, status_eqb a b = true <-> a = b.
  Proof. intros a b. destruct a, b; simpl; split; intros H; try reflexivity; try discriminate. Qed.

  Lemma iter_fst : forall cs k w, map fst (it_comps (iter sp k cs w)) = map fst cs.
  Proof.
    induction cs as [|[c st] r IH]; intros k w; cbn; [reflexivity|].
    destruct st; cbn; try (rewrite IH; reflexivity);
      destruct (helper_connect sp c (prov_args sp w) w) as [w1 st1]; cbn; rewrite IH; reflexivity.
  Qed.

  Lemma iter_mono : forall cs k w, mono w (it_world (iter sp k cs w)).
  Proof.
    induction cs as [|[c st] r IH]; intros k w; cbn; [apply mono_refl|].
    destruct st; cbn; try apply IH;
      destruct (helper_connect sp c (prov_args sp w) w) as [w1 st1] eqn:E; cbn;
        (eapply mono_trans; [exact (proj1 (progress_iff sp c (prov_args sp w) w w1 st1 E))|apply IH]).
  Qed.

  Lemma iter_sound : forall cs k w, sound w cs -> sound (it_world (iter sp k cs w)) (it_comps (iter sp k cs w)).
  Proof.
    induction cs as [|[c st] r IH]; intros k w HS; cbn; [intros ? ? []|].
    assert (Sr : sound w r) by (intros c' st' Hin; apply (HS c' st'); right; exact Hin).
    destruct st; cbn.
    - (* INITIALIZED *) intros c' st' [Heq|Hin] Hst; [inversion Heq; subst; discriminate|]. eapply IH; eauto.
    - destruct (helper_connect sp c (prov_args sp w) w) as [w1 st1] eqn:E; cbn.
      pose proof (progress_iff sp c (prov_args sp w) w w1 st1 E) as (M & HC & _).
      intros c' st' [Heq|Hin] Hst.
      + inversion Heq; subst. intros it Hit. apply (iter_mono r (S k) w1). apply (proj1 HC eq_refl). exact Hit.
      + eapply (IH (S k) w1); eauto. eapply sound_mono; eauto.
    - destruct (helper_connect sp c (prov_args sp w) w) as [w1 st1] eqn:E; cbn.
      pose proof (progress_iff sp c (prov_args sp w) w w1 st1 E) as (M & HC & _).
      intros c' st' [Heq|Hin] Hst.
      + inversion Heq; subst. intros it Hit. apply (iter_mono r (S k) w1). apply (proj1 HC eq_refl). exact Hit.
      + eapply (IH (S k) w1); eauto. eapply sound_mono; eauto.
    - (* CONNECTED *) intros c' st' [Heq|Hin] Hst.
      + inversion Heq; subst. intros it Hit. apply (iter_mono r (S k) w). eapply HS; [left; reflexivity|reflexivity|exact Hit].
      + eapply IH; eauto.
  Qed.

  Lemma iter_measure : forall L cs k w,
      (forall c st, In (c, st) cs -> incl (declared sp c) L) ->
      mu L (it_world (iter sp k cs w)) (it_comps (iter sp k cs w)) + (if it_new (iter sp k cs w) then 1 else 0)
      <= mu L w cs.
  Proof.
    intros L. unfold mu. induction cs as [|[c st] r IH]; intros k w HL; cbn; [lia|].
    assert (HLr : forall c' st', In (c', st') r -> incl (declared sp c') L) by (intros c' st' Hin; apply (HL c' st'); right; exact Hin).
    assert (HLc : incl (declared sp c) L) by (apply (HL c st); left; reflexivity).
    destruct st; cbn.
    - specialize (IH (S k) w HLr). unfold nunconn, ninit in *. cbn. destruct (it_new (iter sp (S k) r w)); lia.
    - destruct (helper_connect sp c (prov_args sp w) w) as [w1 st1] eqn:E; cbn.
      pose proof (progress_iff sp c (prov_args sp w) w w1 st1 E) as (M & HC & HG & HI & HN).
      specialize (IH (S k) w1 HLr). pose proof (undone_mono L w w1 M) as HU.
      unfold nunconn, ninit in *. cbn.
      destruct st1; cbn; try congruence.
      + destruct (proj1 HG eq_refl) as [_ [it [Hin [Hd Hd']]]].
        pose proof (undone_strict L w w1 it M (HLc it Hin) Hd Hd'). destruct (it_new (iter sp (S k) r w1)); lia.
      + destruct (it_new (iter sp (S k) r w1)); lia.
      + destruct (it_new (iter sp (S k) r w1)); lia.
    - destruct (helper_connect sp c (prov_args sp w) w) as [w1 st1] eqn:E; cbn.
      pose proof (progress_iff sp c (prov_args sp w) w w1 st1 E) as (M & HC & HG & HI & HN).
      specialize (IH (S k) w1 HLr). pose proof (undone_mono L w w1 M) as HU.
      unfold nunconn, ninit in *. cbn.
      destruct st1; cbn; try congruence.
      + destruct (proj1 HG eq_refl) as [_ [it [Hin [Hd Hd']]]].
        pose proof (undone_strict L w w1 it M (HLc it Hin) Hd Hd'). destruct (it_new (iter sp (S k) r w1)); lia.
      + destruct (it_new (iter sp (S k) r w1)); lia.
      + destruct (it_new (iter sp (S k) r w1)); lia.
    - specialize (IH (S k) w HLr). unfold nunconn, ninit in *. cbn. destruct (it_new (iter sp (S k) r w)); lia.
  Qed.

  Lemma unconnected_length : forall cs k, length (unconnected k cs) = nunconn cs.
  Proof.
    induction cs as [|[c st] r IH]; intros k; simpl; [reflexivity|].
    unfold nunconn in *. simpl. destruct (status_eqb st CONNECTED); simpl; rewrite IH; reflexivity.
  Qed.

  Lemma loop_sound : forall fuel cs w, sound w cs ->
      sound (r_world (loop sp fuel cs w)) (r_comps (loop sp fuel cs w)).
  Proof.
    induction fuel as [|f IH]; intros cs w HS; simpl; [exact HS|].
    pose proof (iter_sound cs 0 w HS) as HS'.
    destruct (unconnected 0 (it_comps (iter sp 0 cs w))); simpl; [exact HS'|].
    destruct (it_new (iter sp 0 cs w)); simpl; [apply IH; exact HS'|exact HS'].
  Qed.

  Lemma loop_fst : forall fuel cs w, map fst (r_comps (loop sp fuel cs w)) = map fst cs.
  Proof.
    induction fuel as [|f IH]; intros cs w; simpl; [reflexivity|].
    destruct (unconnected 0 (it_comps (iter sp 0 cs w))); simpl; [apply iter_fst|].
    destruct (it_new (iter sp 0 cs w)); simpl; [rewrite IH|]; apply iter_fst.
  Qed.

  Lemma loop_terminates : forall L fuel cs w,
      (forall c, In c (map fst cs) -> incl (declared sp c) L) ->
      mu L w cs <= fuel -> 1 <= fuel ->
      r_out (loop sp fuel cs w) <> OutOfFuel /\ r_iters (loop sp fuel cs w) <= Nat.max (mu L w cs) 1.
  Proof.
    intros L. induction fuel as [|f IH]; intros cs w HL Hmu H1; [lia|]. simpl.
    assert (HL' : forall c st, In (c, st) cs -> incl (declared sp c) L).
    { intros c st Hin. apply HL. apply in_map_iff. exists (c, st). split; [reflexivity|exact Hin]. }
    pose proof (iter_measure L cs 0 w HL') as HM.
    pose proof (unconnected_length (it_comps (iter sp 0 cs w)) 0) as HU.
    destruct (unconnected 0 (it_comps (iter sp 0 cs w))) as [|u0 ur] eqn:EU; simpl.
    - split; [discriminate|lia].
    - destruct (it_new (iter sp 0 cs w)) eqn:EN; simpl.
      + simpl in HU.
        assert (Hmu' : 1 <= mu L (it_world (iter sp 0 cs w)) (it_comps (iter sp 0 cs w))) by (unfold mu; lia).
        destruct (IH (it_comps (iter sp 0 cs w)) (it_world (iter sp 0 cs w))) as [HO HI].
        * intros c Hin. apply HL. rewrite <- (iter_fst cs 0 w). exact Hin.
        * lia.
        * lia.
        * split; [exact HO|lia].
      + split; [discriminate|lia].
  Qed.

  Lemma iter_init : forall l k w,
      iter sp k (map (fun c => (c, INITIALIZED)) l) w =
      mk_iter w (map (fun c => (c, CONNECTING)) l) [] (match l with [] => false | _ => true end).
  Proof.
    induction l as [|c r IH]; intros k w; simpl; [reflexivity|]. rewrite IH. reflexivity.
  Qed.

  Lemma nunconn_connecting : forall l, nunconn (map (fun c => (c, CONNECTING)) l) = length l.
  Proof. induction l as [|c r IH]; simpl; [reflexivity|]. unfold nunconn in *. simpl. rewrite IH. reflexivity. Qed.
  Lemma ninit_connecting : forall l, ninit (map (fun c => (c, CONNECTING)) l) = 0.
  Proof. induction l as [|c r IH]; simpl; [reflexivity|]. unfold ninit in *. simpl. exact IH. Qed.

  Lemma undone_le : forall L w, undone L w <= length L.
  Proof.
    intros L w. unfold undone. induction L as [|x r IH]; simpl; [lia|].
    destruct (negb (done w x)); simpl; lia.
  Qed.

  (** C06_terminates *)
  Lemma run_terminates : forall cs,
      r_out (connect_run sp cs) <> OutOfFuel
      /\ r_iters (connect_run sp cs) <= length (all_items sp cs) + length cs + 1.
  Proof.
    intros cs. unfold connect_run, enough_fuel.
    replace (length (all_items sp cs) + length cs + 2) with (S (length (all_items sp cs) + length cs + 1)) by lia.
    simpl. rewrite iter_init. simpl.
    destruct cs as [|c0 r]; simpl; [split; [discriminate|lia]|].
    set (l := c0 :: r).
    change ((c0, CONNECTING) :: map (fun c => (c, CONNECTING)) r) with (map (fun c => (c, CONNECTING)) l).
    set (L := all_items sp l).
    destruct (loop_terminates L (length L + length l + 1) (map (fun c => (c, CONNECTING)) l) (init_world sp)) as [HO HI].
    - intros c Hin. rewrite map_map in Hin. simpl in Hin. rewrite map_id in Hin.
      unfold L, all_items. intros it Hit. apply in_flat_map. exists c. split; assumption.
    - unfold mu. rewrite nunconn_connecting, ninit_connecting. pose proof (undone_le L (init_world sp)). lia.
    - lia.
    - unfold mu in HI. rewrite nunconn_connecting, ninit_connecting in HI. pose proof (undone_le L (init_world sp)) as HU.
      assert (Hlen : length l = S (length r)) by reflexivity.
      change (declared sp c0 ++ all_items sp r) with L. change (S (length r)) with (length l).
      split; [exact HO|]. lia.
  Qed.

  (** C06_connected_sound for the composition loop *)
  Lemma run_sound : forall cs c st,
      In (c, st) (r_comps (connect_run sp cs)) -> st = CONNECTED ->
      forall it, In it (declared sp c) -> done (r_world (connect_run sp cs)) it = true.
  Proof.
    intros cs c st Hin Hst. unfold connect_run in Hin |- *.
    eapply loop_sound; eauto.
    intros c' st' Hin' Hst'. apply in_map_iff in Hin'. destruct Hin' as [x [Hx _]]. inversion Hx. congruence.
  Qed.
End Loop.

Lemma forallb_ext_in' : forall (A : Type) (f g : A -> bool) l,
    (forall x, In x l -> f x = g x) -> forallb f l = forallb g l.
Proof.
  intros A f g l. induction l as [|x r IH]; intros H; simpl; [reflexivity|].
  rewrite (H x (or_introl eq_refl)), IH; [reflexivity|]. intros y Hy. apply H. right. exact Hy.
Qed.

(** * Frame: a call of [c] changes items of [c]'s own slots only *)
Section Frame.
  Variable sp : spec.
  Variable c : comp.
  Variable a : args.

  Lemma frame_wi : forall w i, mem i (c_ins c) = false -> wi (fst (helper_connect sp c a w)) i = wi w i.
  Proof.
    intros w i H. unfold helper_connect. cbn [fst].
    rewrite pl_wi, H. cbn [andb].
    change (wi (phase_pushdata sp c ?x) i) with (wi x i).
    unfold phase_pushdata, phase_pushinfo, phase_outinfo. cbn [wi].
    rewrite ex_wi, H. cbn [andb]. rewrite cache_wi, H. reflexivity.
  Qed.

  Lemma frame_wo : forall w o, mem o (c_outs c) = false ->
      let st := wo w o in let st' := wo (fst (helper_connect sp c a w)) o in
      o_hinfo st' = o_hinfo st /\ o_ipushed st' = o_ipushed st /\ o_dpushed st' = o_dpushed st.
  Proof.
    intros w o H. unfold helper_connect. cbn [fst].
    change (wo (phase_pull sp c ?x) o) with (wo x o).
    rewrite pd_wo, H. cbn [andb]. rewrite pi_wo, H. cbn [andb]. rewrite oi_wo, H. cbn [andb].
    destruct (ex_wo_fields sp c (phase_cache sp c a w) o) as (_ & _ & _ & -> & -> & -> & _).
    rewrite cache_wo, H. repeat split; reflexivity.
  Qed.

  Lemma all_done_frame : forall c2 w,
      (forall i, In i (c_ins c2) -> mem i (c_ins c) = false) ->
      (forall o, In o (c_outs c2) -> mem o (c_outs c) = false) ->
      all_done sp c2 (fst (helper_connect sp c a w)) = all_done sp c2 w.
  Proof.
    intros c2 w HI HO. unfold all_done. f_equal.
    - apply forallb_ext_in'. intros i Hin. rewrite (frame_wi w i (HI i Hin)). reflexivity.
    - apply forallb_ext_in'. intros o Hin. destruct (frame_wo w o (HO o Hin)) as (-> & -> & ->). reflexivity.
  Qed.
End Frame.

(** * The stall report lists exactly the components that did not complete *)
Section Stall.
  Variable sp : spec.

  Definition exactF (w : world) (cs : list (comp * status)) : Prop :=
    Forall (fun x => snd x = CONNECTED <-> all_done sp (fst x) w = true) cs.

  Lemma NoDup_app_inv : forall (A : Type) (a b : list A),
      NoDup (a ++ b) -> NoDup b /\ forall x, In x a -> ~ In x b.
  Proof.
    intros A a b. induction a as [|y r IH]; simpl; intros H; [split; [exact H|intros x []]|].
    apply NoDup_cons_iff in H. destruct H as [Hn H]. destruct (IH H) as [Hb Hd]. split; [exact Hb|].
    intros x [->|Hx]; [intros Hin; apply Hn; apply in_or_app; right; exact Hin|apply Hd; exact Hx].
  Qed.

  Lemma mem_false : forall x l, ~ In x l -> mem x l = false.
  Proof. intros x l H. destruct (mem x l) eqn:E; [|reflexivity]. apply mem_In in E. contradiction. Qed.

  Definition apart (c : comp) (r : list comp) : Prop :=
    forall c', In c' r ->
               (forall i, In i (c_ins c) -> mem i (c_ins c') = false)
               /\ (forall o, In o (c_outs c) -> mem o (c_outs c') = false).

  Lemma disjoint_cons : forall c r, disjoint_slots (c :: r) -> disjoint_slots r /\ apart c r.
  Proof.
    intros c r [HI HO]. simpl in HI, HO.
    destruct (NoDup_app_inv _ _ _ HI) as [HI' DI]. destruct (NoDup_app_inv _ _ _ HO) as [HO' DO].
    split; [split; assumption|]. intros c' Hc'. split.
    - intros i Hi. apply mem_false. intros Hin. apply (DI i Hi). apply in_flat_map. exists c'. split; assumption.
    - intros o Ho. apply mem_false. intros Hin. apply (DO o Ho). apply in_flat_map. exists c'. split; assumption.
  Qed.

  Lemma all_done_mono : forall c w w', mono w w' -> all_done sp c w = true -> all_done sp c w' = true.
  Proof.
    intros c w w' M H. apply all_done_spec. intros it Hin. apply M. apply (proj1 (all_done_spec sp c w) H). exact Hin.
  Qed.

  Lemma iter_frame : forall r k w c, apart c (map fst r) ->
      all_done sp c (it_world (iter sp k r w)) = all_done sp c w.
  Proof.
    induction r as [|[c' st] r IH]; intros k w c HA; cbn; [reflexivity|].
    assert (HA' : apart c (map fst r)) by (intros x Hx; apply HA; right; exact Hx).
    destruct (HA c' (or_introl eq_refl)) as [HI HO].
    destruct st; cbn; try (apply IH; exact HA').
    - destruct (helper_connect sp c' (prov_args sp w) w) as [w1 st1] eqn:E; cbn. rewrite IH by exact HA'.
      replace w1 with (fst (helper_connect sp c' (prov_args sp w) w)) by (rewrite E; reflexivity).
      apply all_done_frame; assumption.
    - destruct (helper_connect sp c' (prov_args sp w) w) as [w1 st1] eqn:E; cbn. rewrite IH by exact HA'.
      replace w1 with (fst (helper_connect sp c' (prov_args sp w) w)) by (rewrite E; reflexivity).
      apply all_done_frame; assumption.
  Qed.

  Lemma iter_exact : forall cs k w,
      disjoint_slots (map fst cs) -> (forall c st, In (c, st) cs -> st <> INITIALIZED) -> sound sp w cs ->
      exactF (it_world (iter sp k cs w)) (it_comps (iter sp k cs w)).
  Proof.
    induction cs as [|[c st] r IH]; intros k w HD HN HS; cbn; [constructor|].
    simpl in HD. destruct (disjoint_cons _ _ HD) as [HDr HA].
    assert (HNr : forall c' st', In (c', st') r -> st' <> INITIALIZED) by (intros c' st' Hin; apply (HN c' st'); right; exact Hin).
    assert (HSr : sound sp w r) by (intros c' st' Hin; apply (HS c' st'); right; exact Hin).
    destruct st; cbn.
    - exfalso. apply (HN c INITIALIZED); [left|]; reflexivity.
    - destruct (helper_connect sp c (prov_args sp w) w) as [w1 st1] eqn:E; cbn.
      pose proof (progress_iff sp c (prov_args sp w) w w1 st1 E) as (M & HC & _).
      constructor; [|apply IH; auto; eapply sound_mono; eauto]. cbn. rewrite (iter_frame r (S k) w1 c HA).
      rewrite HC. symmetry. apply all_done_spec.
    - destruct (helper_connect sp c (prov_args sp w) w) as [w1 st1] eqn:E; cbn.
      pose proof (progress_iff sp c (prov_args sp w) w w1 st1 E) as (M & HC & _).
      constructor; [|apply IH; auto; eapply sound_mono; eauto]. cbn. rewrite (iter_frame r (S k) w1 c HA).
      rewrite HC. symmetry. apply all_done_spec.
    - constructor; [|apply IH; auto]. cbn. rewrite (iter_frame r (S k) w c HA). split; [|reflexivity].
      intros _. apply all_done_spec. apply (HS c CONNECTED); [left|]; reflexivity.
  Qed.

  Lemma unconnected_stuck : forall cs w k, exactF w cs -> unconnected k cs = stuck_idx sp w k (map fst cs).
  Proof.
    induction cs as [|[c st] r IH]; intros w k H; simpl; [reflexivity|].
    inversion H as [|x l Hx Hl]; subst. cbn in Hx. rewrite (IH w (S k) Hl).
    destruct (status_eqb st CONNECTED) eqn:E.
    - apply status_eqb_eq in E. rewrite (proj1 Hx E). reflexivity.
    - destruct (all_done sp c w) eqn:EA; [|reflexivity].
      rewrite (proj2 Hx eq_refl) in E. discriminate.
  Qed.

  Lemma unconnected_nil : forall cs k, unconnected k cs = [] -> forall c st, In (c, st) cs -> st = CONNECTED.
  Proof.
    induction cs as [|[c st] r IH]; intros k H c' st' Hin; [destruct Hin|]. simpl in H.
    destruct (status_eqb st CONNECTED) eqn:E; [|discriminate].
    destruct Hin as [Heq|Hin]; [inversion Heq; subst; apply status_eqb_eq; exact E|eapply IH; eauto].
  Qed.

  Lemma iter_new_init : forall cs k w c, In (c, INITIALIZED) cs -> it_new (iter sp k cs w) = true.
  Proof.
    induction cs as [|[c0 st] r IH]; intros k w c Hin; [destruct Hin|].
    destruct Hin as [Heq|Hin].
    - inversion Heq; subst. reflexivity.
    - cbn. destruct st; cbn; try (eapply IH; eauto); try reflexivity;
        destruct (helper_connect sp c0 (prov_args sp w) w) as [w1 st1]; cbn; rewrite (IH (S k) w1 c Hin); apply orb_true_r.
  Qed.

  Lemma loop_outcome : forall fuel cs w,
      disjoint_slots (map fst cs) -> sound sp w cs ->
      let r := loop sp fuel cs w in
      (r_out r = Success -> forall c st, In (c, st) (r_comps r) -> st = CONNECTED)
      /\ (forall L, r_out r = Circular L -> L = stuck_idx sp (r_world r) 0 (map fst cs) /\ L <> []).
  Proof.
    induction fuel as [|f IH]; intros cs w HD HS; cbn; [split; [discriminate|intros L; discriminate]|].
    pose proof (iter_sound sp cs 0 w HS) as HS'.
    destruct (unconnected 0 (it_comps (iter sp 0 cs w))) as [|u0 ur] eqn:EU; cbn.
    - split; [|intros L; discriminate]. intros _. eapply unconnected_nil; eauto.
    - destruct (it_new (iter sp 0 cs w)) eqn:EN; cbn.
      + assert (HD' : disjoint_slots (map fst (it_comps (iter sp 0 cs w)))) by (rewrite iter_fst; exact HD).
        destruct (IH _ _ HD' HS') as [H1 H2]. split; [exact H1|].
        intros L HL. rewrite <- (iter_fst sp cs 0 w). apply H2. exact HL.
      + split; [discriminate|]. intros L HL. injection HL as <-. split; [|discriminate].
        rewrite <- EU. rewrite <- (iter_fst sp cs 0 w). apply unconnected_stuck. apply iter_exact; auto.
        intros c st Hin ->. rewrite (iter_new_init cs 0 w c Hin) in EN. discriminate.
  Qed.

  (** C06_stall_set *)
  Lemma run_stall_set : forall cs,
      disjoint_slots cs ->
      let r := connect_run sp cs in
      (r_out r = Success -> forall c, In c cs -> forall it, In it (declared sp c) -> done (r_world r) it = true)
      /\ (forall L, r_out r = Circular L -> L = stuck_idx sp (r_world r) 0 cs /\ L <> []).
  Proof.
    intros cs HD r.
    assert (Hm : map fst (map (fun c => (c, INITIALIZED)) cs) = cs) by (rewrite map_map; simpl; apply map_id).
    assert (HS : sound sp (init_world sp) (map (fun c => (c, INITIALIZED)) cs)).
    { intros c st Hin Hst. apply in_map_iff in Hin. destruct Hin as [x [Hx _]]. inversion Hx. congruence. }
    destruct (loop_outcome (enough_fuel sp cs) (map (fun c => (c, INITIALIZED)) cs) (init_world sp)) as [H1 H2];
      [rewrite Hm; exact HD|exact HS|].
    fold (connect_run sp cs) in H1, H2. fold r in H1, H2. rewrite Hm in H2. split; [|exact H2].
    intros Hs c Hc it Hit.
    assert (Hin : In c (map fst (r_comps r))) by (unfold r, connect_run; rewrite loop_fst, Hm; exact Hc).
    apply in_map_iff in Hin. destruct Hin as [[c' st] [Hf Hin]]. simpl in Hf. subst c'.
    eapply (run_sound sp cs c st); eauto.
  Qed.

  Lemma stuck_idx_spec : forall w cs k n,
      In n (stuck_idx sp w k cs) <-> exists c, nth_error cs (n - k) = Some c /\ k <= n /\ all_done sp c w = false.
  Proof.
    intros w cs. induction cs as [|c r IH]; intros k n; simpl.
    - split; [intros []|]. intros [c [H _]]. destruct (n - k); discriminate.
    - destruct (all_done sp c w) eqn:E.
      + rewrite IH. split.
        * intros [c' [Hn [Hk Hd]]]. exists c'. replace (n - k) with (S (n - S k)) by lia. simpl. repeat split; auto; lia.
        * intros [c' [Hn [Hk Hd]]]. destruct (n - k) as [|m] eqn:Em; simpl in Hn; [inversion Hn; congruence|].
          exists c'. replace (n - S k) with m by lia. repeat split; auto; lia.
      + simpl. rewrite IH. split.
        * intros [<-|[c' [Hn [Hk Hd]]]].
          -- exists c. rewrite Nat.sub_diag. simpl. auto.
          -- exists c'. replace (n - k) with (S (n - S k)) by lia. simpl. repeat split; auto; lia.
        * intros [c' [Hn [Hk Hd]]]. destruct (n - k) as [|m] eqn:Em; simpl in Hn.
          -- left. lia.
          -- right. exists c'. replace (n - S k) with m by lia. repeat split; auto; lia.
  Qed.
End Stall.

(** * Initial data: what is published and what is pulled *)
Section InitData.
  Variable sp : spec.

  Definition payload_of (o : nat) (p : nat) : Prop := exists ds, os_prov_data (sp_out sp o) = Some (ds, p).

  Definition args_ok (a : args) : Prop := forall o p, a_pd a o = Some p -> payload_of o p.

  Definition data_inv (w : world) : Prop :=
    (forall o p, o_dcache (wo w o) = Some p -> payload_of o p)
    /\ (forall o, o_dpushed (wo w o) = false -> o_data (wo w o) = [])
    /\ (forall o, o_dpushed (wo w o) = true ->
                  exists t p, o_hinfo (wo w o) = Some t /\ payload_of o p /\ o_data (wo w o) = pushed_entries sp o t p)
    /\ (forall i p, in_data (wi w i) = Some p -> payload_of (is_src (sp_in sp i)) p).

  Lemma prov_args_ok : forall w, args_ok (prov_args sp w).
  Proof.
    intros w o p H. unfold prov_args in H. simpl in H.
    destruct (os_prov_data (sp_out sp o)) as [[ds q]|] eqn:E; [|discriminate].
    destruct (deps_ok w ds); [|discriminate]. injection H as <-. exists ds. exact E.
  Qed.

  Lemma init_data_inv : data_inv (init_world sp).
  Proof. repeat split; simpl; intros; try discriminate; reflexivity. Qed.

  Lemma interp_payload : forall p l prev time d,
      (forall e, In e l -> snd e = p) -> (forall x, prev = Some x -> snd x = p) ->
      interp_loop prev l time = Some d -> d = p.
  Proof.
    intros p l. induction l as [|[[t|] q] r IH]; intros prev time d Hl Hp H; simpl in H; try discriminate.
    assert (Hq : q = p) by (apply (Hl (Some t, q)); left; reflexivity).
    destruct (t <? time)%Z.
    - eapply IH; [| |exact H]; [intros e He; apply Hl; right; exact He|intros x Hx; injection Hx as <-; exact Hq].
    - destruct (time =? t)%Z; [injection H as <-; exact Hq|].
      destruct prev as [[tp dp]|]; [|discriminate]. specialize (Hp _ eq_refl). simpl in Hp.
      destruct (time - tp <? t - time)%Z; injection H as <-; assumption.
  Qed.

  Lemma pushed_entries_payload : forall o t p e, In e (pushed_entries sp o t p) -> snd e = p.
  Proof.
    intros o t p e H. unfold pushed_entries in H.
    destruct (nconn sp o =? 0); [destruct H|]. destruct (os_static (sp_out sp o)); [destruct H as [<-|[]]; reflexivity|].
    destruct (t =? sp_start sp)%Z; simpl in H; intuition (subst; reflexivity).
  Qed.

  Lemma get_data_payload : forall w o d, data_inv w -> get_data sp w o = Some d -> payload_of o d.
  Proof.
    intros w o d (J1 & J2 & J3 & J4) H. unfold get_data in H.
    destruct (negb (is_some (o_info (wo w o)))); [discriminate|].
    destruct (o_exch (wo w o) <? nconn sp o); [discriminate|].
    destruct (o_dpushed (wo w o)) eqn:ED.
    - destruct (J3 o ED) as (t & p & Ht & Hp & Hd). rewrite Hd in H.
      destruct (pushed_entries sp o t p) as [|[t0 d0] r] eqn:EP; [discriminate|].
      assert (HP : forall e, In e ((t0, d0) :: r) -> snd e = p) by (rewrite <- EP; apply pushed_entries_payload).
      destruct (os_static (sp_out sp o)).
      + injection H as <-. rewrite (HP (t0, d0) (or_introl eq_refl) : d0 = p). exact Hp.
      + rewrite (interp_payload p _ None _ d HP) by (try exact H; intros x Hx; discriminate). exact Hp.
    - rewrite (J2 o ED) in H. discriminate.
  Qed.

  Lemma call_data_inv : forall c a w, args_ok a -> data_inv w -> data_inv (fst (helper_connect sp c a w)).
  Proof.
    intros c a w HA HI. unfold helper_connect. cbn [fst].
    set (w1 := phase_cache sp c a w).
    assert (H1 : data_inv w1).
    { destruct HI as (J1 & J2 & J3 & J4). unfold w1. repeat split.
      - intros o p. rewrite cache_wo. destruct (mem o (c_outs c)); [|apply J1]. cbn.
        unfold upd_cache, pd_eff. destruct (c_cache c).
        + destruct (o_dpushed (wo w o)); [apply J1|]. destruct (a_pd a o) as [q|] eqn:EA; [|apply J1].
          intros Hq. injection Hq as <-. apply HA. exact EA.
        + destruct (o_dpushed (wo w o)); [discriminate|]. apply HA.
      - intros o. rewrite cache_wo. destruct (mem o (c_outs c)); cbn; apply J2.
      - intros o. rewrite cache_wo. destruct (mem o (c_outs c)); cbn; apply J3.
      - intros i p. rewrite cache_wi. destruct (mem i (c_ins c)); cbn; apply J4. }
    set (w2 := phase_exchange sp c w1).
    assert (H2 : data_inv w2).
    { destruct H1 as (J1 & J2 & J3 & J4). unfold w2. repeat split.
      - intros o. destruct (ex_wo_fields sp c w1 o) as (_ & _ & _ & _ & _ & _ & _ & ->). apply J1.
      - intros o. destruct (ex_wo_fields sp c w1 o) as (_ & _ & -> & _ & _ & -> & _). apply J2.
      - intros o. destruct (ex_wo_fields sp c w1 o) as (_ & _ & -> & -> & _ & -> & _). apply J3.
      - intros i p. rewrite ex_wi. destruct (mem i (c_ins c) && fires_ex sp w1 i); cbn; apply J4. }
    set (w3 := phase_outinfo sp c w2).
    assert (H3 : data_inv w3).
    { destruct H2 as (J1 & J2 & J3 & J4). unfold w3. repeat split.
      - intros o. rewrite oi_wo. destruct (mem o (c_outs c) && fires_oi sp w2 o); cbn; apply J1.
      - intros o. rewrite oi_wo. destruct (mem o (c_outs c) && fires_oi sp w2 o); cbn; apply J2.
      - intros o. rewrite oi_wo. destruct (mem o (c_outs c) && fires_oi sp w2 o) eqn:E; cbn; [|apply J3].
        intros Hd. destruct (J3 o Hd) as (t & p & Ht & _). apply andb_true_iff in E. destruct E as [_ E].
        unfold fires_oi in E. rewrite Ht in E. discriminate.
      - exact J4. }
    set (w4 := phase_pushinfo c w3).
    assert (H4 : data_inv w4).
    { destruct H3 as (J1 & J2 & J3 & J4). unfold w4. repeat split.
      - intros o. rewrite pi_wo. destruct (mem o (c_outs c) && fires_pi w3 o); cbn; apply J1.
      - intros o. rewrite pi_wo. destruct (mem o (c_outs c) && fires_pi w3 o); cbn; apply J2.
      - intros o. rewrite pi_wo. destruct (mem o (c_outs c) && fires_pi w3 o); cbn; apply J3.
      - exact J4. }
    set (w5 := phase_pushdata sp c w4).
    assert (H5 : data_inv w5).
    { destruct H4 as (J1 & J2 & J3 & J4). unfold w5. repeat split.
      - intros o p. rewrite pd_wo. destruct (mem o (c_outs c) && fires_pd w4 o) eqn:E; [|apply J1]. cbn.
        apply andb_true_iff in E. destruct E as [_ E]. destruct (fires_pd_inv _ _ E) as (_ & [q Hq] & _ & [t Ht]).
        rewrite Hq, Ht. cbn. discriminate.
      - intros o. rewrite pd_wo. destruct (mem o (c_outs c) && fires_pd w4 o) eqn:E; [|apply J2]. cbn.
        apply andb_true_iff in E. destruct E as [_ E]. destruct (fires_pd_inv _ _ E) as (_ & [q Hq] & _ & [t Ht]).
        rewrite Hq, Ht. cbn. discriminate.
      - intros o. rewrite pd_wo. destruct (mem o (c_outs c) && fires_pd w4 o) eqn:E; [|apply J3]. cbn.
        apply andb_true_iff in E. destruct E as [_ E]. destruct (fires_pd_inv _ _ E) as (Hd & [q Hq] & _ & [t Ht]).
        rewrite Hq, Ht. cbn. intros _. exists t, q. rewrite (J2 o Hd). repeat split; auto.
      - exact J4. }
    destruct H5 as (J1 & J2 & J3 & J4). repeat split; try assumption.
    intros i p. rewrite pl_wi. destruct (mem i (c_ins c) && fires_pl sp w5 i) eqn:E; [|apply J4]. cbn.
    intros Hg. eapply get_data_payload; [|exact Hg]. repeat split; assumption.
  Qed.

  Lemma iter_data_inv : forall cs k w, data_inv w -> data_inv (it_world (iter sp k cs w)).
  Proof.
    induction cs as [|[c st] r IH]; intros k w H; cbn; [exact H|].
    assert (HC : data_inv (fst (helper_connect sp c (prov_args sp w) w))) by (apply call_data_inv; [apply prov_args_ok|exact H]).
    destruct st; cbn; try (apply IH; exact H);
      destruct (helper_connect sp c (prov_args sp w) w) as [w1 st1] eqn:E; cbn; apply IH; exact HC.
  Qed.

  Lemma loop_data_inv : forall fuel cs w, data_inv w -> data_inv (r_world (loop sp fuel cs w)).
  Proof.
    induction fuel as [|f IH]; intros cs w H; cbn; [exact H|].
    pose proof (iter_data_inv cs 0 w H) as H'.
    destruct (unconnected 0 (it_comps (iter sp 0 cs w))); cbn; [exact H'|].
    destruct (it_new (iter sp 0 cs w)); cbn; [apply IH|]; exact H'.
  Qed.

  Lemma run_data_inv : forall cs, data_inv (r_world (connect_run sp cs)).
  Proof. intros cs. apply loop_data_inv. apply init_data_inv. Qed.
End InitData.

Lemma helper_not_all_done : forall sp c w, all_done sp c w = false ->
    exists it, In it (declared sp c) /\ done w it = false.
Proof.
  intros sp c w H.
  assert (N : ~ (forall it, In it (declared sp c) -> done w it = true)).
  { intros HA. apply all_done_spec in HA. congruence. }
  assert (G : forall l, (forall it, In it l -> In it (declared sp c)) ->
                        (exists it, In it l /\ done w it = false) \/ (forall it, In it l -> done w it = true)).
  { induction l as [|x r IH]; intros Hl; [right; intros it []|].
    destruct (done w x) eqn:E.
    - destruct IH as [[it [Hi Hd]]|Hall]; [intros it Hi; apply Hl; right; exact Hi| |].
      + left. exists it. split; [right; exact Hi|exact Hd].
      + right. intros it [<-|Hi]; [exact E|apply Hall; exact Hi].
    - left. exists x. split; [left; reflexivity|exact E]. }
  destruct (G (declared sp c) (fun it H => H)) as [[it [Hi Hd]]|Hall]; [exists it; split; assumption|contradiction].
Qed.

Lemma stuck_idx_exact :
  forall (sp : spec) (w : world) (cs : list comp) (n : nat),
    In n (stuck_idx sp w 0 cs) <->
    exists c, nth_error cs n = Some c /\ exists it, In it (declared sp c) /\ done w it = false.
Proof.
  intros sp w cs n. rewrite stuck_idx_spec. rewrite Nat.sub_0_r. split.
  - intros [c [Hn [_ Hd]]]. exists c. split; [exact Hn|].
    destruct (helper_not_all_done sp c w Hd) as [it H]. exists it. exact H.
  - intros [c [Hn [it [Hin Hd]]]]. exists c. repeat split; [exact Hn|apply Nat.le_0_l|].
    destruct (all_done sp c w) eqn:E; [|reflexivity].
    rewrite (proj1 (all_done_spec sp c w) E it Hin) in Hd. discriminate.
Qed.

Lemma initial_data :
  forall (sp : spec) (cs : list comp),
    let w := r_world (connect_run sp cs) in
    (forall o, o_dpushed (wo w o) = true ->
               exists t p, o_hinfo (wo w o) = Some t
                           /\ (exists ds, os_prov_data (sp_out sp o) = Some (ds, p))
                           /\ o_data (wo w o) =
                              (if (nconn sp o =? 0) then []
                               else if os_static (sp_out sp o) then [(None, p)]
                               else if (t =? sp_start sp)%Z then [(Some t, p)]
                               else [(Some (sp_start sp), p); (Some t, p)]))
    /\ (forall o, o_dpushed (wo w o) = false -> o_data (wo w o) = [])
    /\ (forall i p, in_data (wi w i) = Some p ->
                    exists ds, os_prov_data (sp_out sp (is_src (sp_in sp i))) = Some (ds, p)).
Proof.
  intros sp cs w. destruct (run_data_inv sp cs) as (_ & J2 & J3 & J4). fold w in J2, J3, J4.
  split; [|split; [exact J2|exact J4]].
  intros o Hd. destruct (J3 o Hd) as (t & p & Ht & Hp & Hdata). exists t, p. repeat split; assumption.
Qed.

Lemma connected_sound :
  (forall (sp : spec) (c : comp) (a : args) (w w' : world),
      helper_connect sp c a w = (w', CONNECTED) ->
      forall it, In it (declared sp c) -> done w' it = true)
  /\ (forall (sp : spec) (cs : list comp) (c : comp) (st : status),
         In (c, st) (r_comps (connect_run sp cs)) -> st = CONNECTED ->
         forall it, In it (declared sp c) -> done (r_world (connect_run sp cs)) it = true).
Proof.
  split.
  - intros sp c a w w' H. exact (proj1 (proj1 (proj2 (progress_iff sp c a w w' CONNECTED H))) eq_refl).
  - exact run_sound.
Qed.
