(** Proofs about the model of the iterative connect phase (FV.Connect). *)
From Coq Require Import List ZArith Bool Arith Lia.
From FV Require Import Base Connect.
Import ListNotations.
Local Open Scope nat_scope.

Arguments phase_cache : simpl never.
Arguments phase_exchange : simpl never.
Arguments phase_outinfo : simpl never.
Arguments phase_pushinfo : simpl never.
Arguments phase_pushdata : simpl never.
Arguments phase_pull : simpl never.
Arguments helper_connect : simpl never.

(** * Tabulated overrides are pointwise updates *)

Lemma mem_In : forall x l, mem x l = true <-> In x l.
Proof.
  intros x l. unfold mem. rewrite existsb_exists. split.
  - intros [y [Hy He]]. apply Nat.eqb_eq in He. subst. exact Hy.
  - intros H. exists x. split; [exact H | apply Nat.eqb_refl].
Qed.

Lemma tlookup_map : forall (A : Type) (f : nat -> A) l x,
    tlookup x (map (fun y => (y, f y)) l) = if mem x l then Some (f x) else None.
Proof.
  intros A f l x. induction l as [|k r IH]; simpl; [reflexivity|].
  destruct (Nat.eqb x k) eqn:E.
  - apply Nat.eqb_eq in E. subst. reflexivity.
  - simpl. exact IH.
Qed.

Lemma override_spec : forall (A : Type) l (f g : nat -> A) x,
    override l f g x = if mem x l then f x else g x.
Proof.
  intros. unfold override, override_tbl. rewrite tlookup_map. destruct (mem x l); reflexivity.
Qed.

Lemma is_some_true : forall (A : Type) (o : option A), is_some o = true <-> exists x, o = Some x.
Proof. intros A [x|]; simpl; split; intros H; eauto; try discriminate. destruct H; discriminate. Qed.

Lemma is_some_false : forall (A : Type) (o : option A), is_some o = false <-> o = None.
Proof. intros A [x|]; simpl; split; intros H; congruence. Qed.

(** * One helper call *)
Section Call.
  Variable sp : spec.
  Variable c : comp.
  Variable a : args.

  Notation ph_cache := (phase_cache sp c a).
  Notation ph_ex := (phase_exchange sp c).
  Notation ph_oi := (phase_outinfo sp c).
  Notation ph_pi := (phase_pushinfo c).
  Notation ph_pd := (phase_pushdata sp c).
  Notation ph_pl := (phase_pull sp c).

  (** pointwise forms *)
  Lemma cache_wi : forall w i,
      wi (ph_cache w) i =
      if mem i (c_ins c)
      then mk_istate (in_exch (wi w i)) (upd_cache c (ex_eff sp a w i) (in_cache (wi w i))) (in_data (wi w i))
      else wi w i.
  Proof. intros. unfold phase_cache. simpl. rewrite override_spec. reflexivity. Qed.

  Lemma cache_wo : forall w o,
      wo (ph_cache w) o =
      if mem o (c_outs c)
      then let st := wo w o in
           mk_ostate (o_info st) (o_exch st) (o_data st) (o_hinfo st) (o_ipushed st) (o_dpushed st)
                     (upd_cache c (pi_eff sp a w o) (o_icache st)) (upd_cache c (pd_eff a w o) (o_dcache st))
      else wo w o.
  Proof. intros. unfold phase_cache. simpl. rewrite override_spec. reflexivity. Qed.

  Lemma ex_wi : forall w i,
      wi (ph_ex w) i =
      if mem i (c_ins c) && fires_ex sp w i
      then mk_istate (ex_req sp w i)
                     (match is_own (sp_in sp i) with Some _ => in_cache (wi w i) | None => None end)
                     (in_data (wi w i))
      else wi w i.
  Proof.
    intros. unfold phase_exchange. simpl. rewrite override_spec.
    destruct (mem i (c_ins c)); simpl; [|reflexivity]. destruct (fires_ex sp w i); reflexivity.
  Qed.

  Definition ex_count (w : world) (o : nat) : nat :=
    length (filter (fun i => fires_ex sp w i && Nat.eqb (is_src (sp_in sp i)) o) (c_ins c)).

  Lemma ex_count_zero : forall w o,
      mem o (map (fun i => is_src (sp_in sp i)) (c_ins c)) = false -> ex_count w o = 0.
  Proof.
    intros w o H. unfold ex_count.
    assert (G : forall l, mem o (map (fun i => is_src (sp_in sp i)) l) = false ->
                          filter (fun i => fires_ex sp w i && Nat.eqb (is_src (sp_in sp i)) o) l = []).
    { induction l as [|i r IH]; simpl; intros Hm; [reflexivity|].
      apply orb_false_iff in Hm. destruct Hm as [H1 H2].
      rewrite Nat.eqb_sym in H1. rewrite H1, andb_false_r. apply IH. exact H2. }
    rewrite (G _ H). reflexivity.
  Qed.

  Lemma ex_wo_fields : forall w o,
      let st := wo w o in let st' := wo (ph_ex w) o in
      o_info st' = o_info st /\ o_exch st' = o_exch st + ex_count w o /\ o_data st' = o_data st /\
      o_hinfo st' = o_hinfo st /\ o_ipushed st' = o_ipushed st /\ o_dpushed st' = o_dpushed st /\
      o_icache st' = o_icache st /\ o_dcache st' = o_dcache st.
  Proof.
    intros w o. unfold phase_exchange. simpl. rewrite override_spec.
    destruct (mem o _) eqn:E; simpl.
    - repeat split; reflexivity.
    - rewrite (ex_count_zero w o E). rewrite Nat.add_0_r. repeat split; reflexivity.
  Qed.

  Lemma oi_wo : forall w o,
      wo (ph_oi w) o =
      if mem o (c_outs c) && fires_oi sp w o
      then let st := wo w o in
           mk_ostate (o_info st) (o_exch st) (o_data st) (o_info st) (o_ipushed st) (o_dpushed st) (o_icache st) (o_dcache st)
      else wo w o.
  Proof.
    intros. unfold phase_outinfo. simpl. rewrite override_spec.
    destruct (mem o (c_outs c)); simpl; [|reflexivity]. destruct (fires_oi sp w o); reflexivity.
  Qed.

  Lemma pi_wo : forall w o,
      wo (ph_pi w) o =
      if mem o (c_outs c) && fires_pi w o
      then let st := wo w o in
           mk_ostate (o_icache st) (o_exch st) (o_data st) (o_hinfo st) true (o_dpushed st) None (o_dcache st)
      else wo w o.
  Proof.
    intros. unfold phase_pushinfo. simpl. rewrite override_spec.
    destruct (mem o (c_outs c)); simpl; [|reflexivity]. destruct (fires_pi w o); reflexivity.
  Qed.

  Lemma pd_wo : forall w o,
      wo (ph_pd w) o =
      if mem o (c_outs c) && fires_pd w o
      then let st := wo w o in
           match o_dcache st, o_hinfo st with
           | Some p, Some t => mk_ostate (o_info st) (o_exch st) (o_data st ++ pushed_entries sp o t p) (o_hinfo st)
                                         (o_ipushed st) true (o_icache st) None
           | _, _ => st
           end
      else wo w o.
  Proof.
    intros. unfold phase_pushdata. simpl. rewrite override_spec.
    destruct (mem o (c_outs c)); simpl; [|reflexivity]. destruct (fires_pd w o); reflexivity.
  Qed.

  Lemma pl_wi : forall w i,
      wi (ph_pl w) i =
      if mem i (c_ins c) && fires_pl sp w i
      then mk_istate (in_exch (wi w i)) (in_cache (wi w i)) (get_data sp w (is_src (sp_in sp i)))
      else wi w i.
  Proof.
    intros. unfold phase_pull. simpl. rewrite override_spec.
    destruct (mem i (c_ins c)); simpl; [|reflexivity]. destruct (fires_pl sp w i); reflexivity.
  Qed.

  (** membership of items in the declared list *)
  Lemma declared_in : forall i, In i (c_ins c) -> In (IInInfo i) (declared sp c).
  Proof.
    intros i H. unfold declared. apply in_or_app. left. apply in_flat_map. exists i. split; [exact H|]. left. reflexivity.
  Qed.
  Lemma declared_pull : forall i, In i (c_ins c) -> is_pull (sp_in sp i) = true -> In (IPulled i) (declared sp c).
  Proof.
    intros i H Hp. unfold declared. apply in_or_app. left. apply in_flat_map. exists i. split; [exact H|].
    rewrite Hp. right. left. reflexivity.
  Qed.
  Lemma declared_out : forall o, In o (c_outs c) ->
      In (IOutInfo o) (declared sp c) /\ In (IInfoPushed o) (declared sp c) /\ In (IDataPushed o) (declared sp c).
  Proof.
    intros o H. unfold declared. repeat split; apply in_or_app; right; apply in_flat_map; exists o; (split; [exact H|]); simpl; auto.
  Qed.

  Lemma declared_inv : forall it, In it (declared sp c) ->
      match it with
      | IInInfo i => In i (c_ins c)
      | IPulled i => In i (c_ins c) /\ is_pull (sp_in sp i) = true
      | IOutInfo o | IInfoPushed o | IDataPushed o => In o (c_outs c)
      end.
  Proof.
    intros it H. unfold declared in H. apply in_app_or in H. destruct H as [H|H]; apply in_flat_map in H; destruct H as [x [Hx Hi]].
    - destruct Hi as [Hi|Hi]; [subst; exact Hx|].
      destruct (is_pull (sp_in sp x)) eqn:E; simpl in Hi; [|contradiction].
      destruct Hi as [Hi|[]]. subst. split; assumption.
    - simpl in Hi. destruct Hi as [Hi|[Hi|[Hi|[]]]]; subst; exact Hx.
  Qed.

  (** ** Specification of a phase: monotone; the flag is false iff no item changed; a true flag
      comes with a declared item that became done *)
  Definition phase_ok (w w' : world) (b : bool) : Prop :=
    (forall it, done w it = true -> done w' it = true) /\
    (b = false -> forall it, done w' it = done w it) /\
    (b = true -> exists it, In it (declared sp c) /\ done w it = false /\ done w' it = true).

  Lemma phase_ok_seq : forall w1 w2 w3 b1 b2,
      phase_ok w1 w2 b1 -> phase_ok w2 w3 b2 -> phase_ok w1 w3 (b1 || b2).
  Proof.
    intros w1 w2 w3 b1 b2 [M1 [F1 T1]] [M2 [F2 T2]]. split; [|split].
    - intros it H. apply M2, M1, H.
    - intros Hb it. apply orb_false_iff in Hb. destruct Hb as [-> ->]. rewrite F2, F1; reflexivity.
    - intros Hb. destruct b1.
      + destruct (T1 eq_refl) as [it [Hin [Hd Hd']]]. exists it. repeat split; auto.
      + simpl in Hb. subst b2. destruct (T2 eq_refl) as [it [Hin [Hd Hd']]]. exists it. repeat split; auto.
        rewrite <- (F1 eq_refl it). exact Hd.
  Qed.

  Lemma cache_done : forall w it, done (ph_cache w) it = done w it.
  Proof.
    intros w it. destruct it as [i|i|o|o|o]; cbn;
      try (rewrite cache_wi; destruct (mem i (c_ins c)); reflexivity);
      rewrite cache_wo; destruct (mem o (c_outs c)); reflexivity.
  Qed.

  Lemma existsb_false : forall (A : Type) (f : A -> bool) l x, existsb f l = false -> In x l -> f x = false.
  Proof.
    intros A f l x H Hin. destruct (f x) eqn:E; [|reflexivity].
    assert (existsb f l = true) by (apply existsb_exists; exists x; auto). congruence.
  Qed.

  Lemma ex_ok : forall w, phase_ok w (ph_ex w) (existsb (fires_ex sp w) (c_ins c)).
  Proof.
    intros w. split; [|split].
    - intros it H. destruct it as [i|i|o|o|o]; cbn in *;
        try (rewrite ex_wi; destruct (mem i (c_ins c) && fires_ex sp w i) eqn:E; [|exact H]; simpl).
      + apply andb_true_iff in E. destruct E as [_ E]. unfold fires_ex in E.
        apply andb_true_iff in E. destruct E as [E _]. apply andb_true_iff in E. apply E.
      + exact H.
      + destruct (ex_wo_fields w o) as (_ & _ & _ & -> & _). exact H.
      + destruct (ex_wo_fields w o) as (_ & _ & _ & _ & -> & _). exact H.
      + destruct (ex_wo_fields w o) as (_ & _ & _ & _ & _ & -> & _). exact H.
    - intros Hb it. destruct it as [i|i|o|o|o]; cbn.
      + rewrite ex_wi. destruct (mem i (c_ins c)) eqn:Em; cbn; [|reflexivity].
        rewrite (existsb_false _ _ _ _ Hb (proj1 (mem_In _ _) Em)). reflexivity.
      + rewrite ex_wi. destruct (mem i (c_ins c) && fires_ex sp w i); reflexivity.
      + destruct (ex_wo_fields w o) as (_ & _ & _ & -> & _). reflexivity.
      + destruct (ex_wo_fields w o) as (_ & _ & _ & _ & -> & _). reflexivity.
      + destruct (ex_wo_fields w o) as (_ & _ & _ & _ & _ & -> & _). reflexivity.
    - intros Hb. apply existsb_exists in Hb. destruct Hb as [i [Hin Hf]].
      exists (IInInfo i). split; [apply declared_in; exact Hin|]. cbn. rewrite ex_wi.
      rewrite (proj2 (mem_In _ _) Hin), Hf. cbn.
      unfold fires_ex in Hf. apply andb_true_iff in Hf. destruct Hf as [Hf _]. apply andb_true_iff in Hf. destruct Hf as [H1 H2].
      split; [|exact H2]. apply negb_true_iff in H1. exact H1.
  Qed.

  Lemma oi_ok : forall w, phase_ok w (ph_oi w) (existsb (fires_oi sp w) (c_outs c)).
  Proof.
    intros w.
    assert (HI : forall i, wi (ph_oi w) i = wi w i) by reflexivity.
    split; [|split].
    - intros it H. destruct it as [i|i|o|o|o]; cbn in *; try exact H;
        rewrite oi_wo; destruct (mem o (c_outs c) && fires_oi sp w o) eqn:E; try exact H; cbn.
      apply andb_true_iff in E. destruct E as [_ E]. unfold fires_oi in E.
      apply andb_true_iff in E. destruct E as [E _]. apply andb_true_iff in E. apply E.
    - intros Hb it. destruct it as [i|i|o|o|o]; cbn; try reflexivity;
        rewrite oi_wo; destruct (mem o (c_outs c)) eqn:Em; cbn; try reflexivity;
          rewrite (existsb_false _ _ _ _ Hb (proj1 (mem_In _ _) Em)); reflexivity.
    - intros Hb. apply existsb_exists in Hb. destruct Hb as [o [Hin Hf]].
      exists (IOutInfo o). split; [apply declared_out; exact Hin|]. cbn. rewrite oi_wo.
      rewrite (proj2 (mem_In _ _) Hin), Hf. cbn.
      unfold fires_oi in Hf. apply andb_true_iff in Hf. destruct Hf as [Hf _]. apply andb_true_iff in Hf. destruct Hf as [H1 H2].
      split; [|exact H2]. apply negb_true_iff in H1. exact H1.
  Qed.

  Lemma pi_ok : forall w, phase_ok w (ph_pi w) (existsb (fires_pi w) (c_outs c)).
  Proof.
    intros w. split; [|split].
    - intros it H. destruct it as [i|i|o|o|o]; cbn in *; try exact H;
        rewrite pi_wo; destruct (mem o (c_outs c) && fires_pi w o) eqn:E; try exact H; cbn; reflexivity.
    - intros Hb it. destruct it as [i|i|o|o|o]; cbn; try reflexivity;
        rewrite pi_wo; destruct (mem o (c_outs c)) eqn:Em; cbn; try reflexivity;
          rewrite (existsb_false _ _ _ _ Hb (proj1 (mem_In _ _) Em)); reflexivity.
    - intros Hb. apply existsb_exists in Hb. destruct Hb as [o [Hin Hf]].
      exists (IInfoPushed o). split; [apply declared_out; exact Hin|]. cbn. rewrite pi_wo.
      rewrite (proj2 (mem_In _ _) Hin), Hf. cbn.
      unfold fires_pi in Hf. apply andb_true_iff in Hf. destruct Hf as [H1 _].
      split; [|reflexivity]. apply negb_true_iff in H1. exact H1.
  Qed.

  Lemma fires_pd_inv : forall w o, fires_pd w o = true ->
      o_dpushed (wo w o) = false /\ (exists p, o_dcache (wo w o) = Some p) /\ o_ipushed (wo w o) = true
      /\ exists t, o_hinfo (wo w o) = Some t.
  Proof.
    intros w o H. unfold fires_pd in H. repeat (apply andb_true_iff in H; destruct H as [H ?]).
    apply negb_true_iff in H. repeat split; auto; apply is_some_true; assumption.
  Qed.

  Lemma pd_ok : forall w, phase_ok w (ph_pd w) (existsb (fires_pd w) (c_outs c)).
  Proof.
    intros w. split; [|split].
    - intros it H. destruct it as [i|i|o|o|o]; cbn in *; try exact H;
        rewrite pd_wo; destruct (mem o (c_outs c) && fires_pd w o) eqn:E; try exact H; cbn;
          apply andb_true_iff in E; destruct E as [_ E]; destruct (fires_pd_inv _ _ E) as (_ & [p Hp] & _ & [t Ht]);
            rewrite Hp, Ht; cbn; try exact H; try reflexivity.
    - intros Hb it. destruct it as [i|i|o|o|o]; cbn; try reflexivity;
        rewrite pd_wo; destruct (mem o (c_outs c)) eqn:Em; cbn; try reflexivity;
          rewrite (existsb_false _ _ _ _ Hb (proj1 (mem_In _ _) Em)); reflexivity.
    - intros Hb. apply existsb_exists in Hb. destruct Hb as [o [Hin Hf]].
      exists (IDataPushed o). split; [apply declared_out; exact Hin|]. cbn. rewrite pd_wo.
      rewrite (proj2 (mem_In _ _) Hin), Hf. cbn.
      destruct (fires_pd_inv _ _ Hf) as (Hd & [p Hp] & _ & [t Ht]). rewrite Hp, Ht. cbn. split; [exact Hd|reflexivity].
  Qed.

  Lemma pl_ok : forall w, phase_ok w (ph_pl w) (existsb (fires_pl sp w) (c_ins c)).
  Proof.
    intros w.
    assert (HO : forall o, wo (ph_pl w) o = wo w o) by reflexivity.
    split; [|split].
    - intros it H. destruct it as [i|i|o|o|o]; cbn in *; try exact H;
        rewrite pl_wi; destruct (mem i (c_ins c) && fires_pl sp w i) eqn:E; try exact H; cbn.
      apply andb_true_iff in E. destruct E as [_ E]. unfold fires_pl in E. apply andb_true_iff in E. apply E.
    - intros Hb it. destruct it as [i|i|o|o|o]; cbn; try reflexivity.
      + rewrite pl_wi. destruct (mem i (c_ins c) && fires_pl sp w i); reflexivity.
      + rewrite pl_wi. destruct (mem i (c_ins c)) eqn:Em; cbn; [|reflexivity].
        rewrite (existsb_false _ _ _ _ Hb (proj1 (mem_In _ _) Em)). reflexivity.
    - intros Hb. apply existsb_exists in Hb. destruct Hb as [i [Hin Hf]].
      assert (Hf' := Hf). unfold fires_pl in Hf. repeat (apply andb_true_iff in Hf; destruct Hf as [Hf ?]).
      exists (IPulled i). split; [apply declared_pull; assumption|]. cbn. rewrite pl_wi.
      rewrite (proj2 (mem_In _ _) Hin), Hf'. cbn. split; [|assumption].
      match goal with Hn : negb _ = true |- _ => apply negb_true_iff in Hn; exact Hn end.
  Qed.

  Lemma all_done_spec : forall w, all_done sp c w = true <-> forall it, In it (declared sp c) -> done w it = true.
  Proof.
    intros w. unfold all_done. rewrite andb_true_iff, !forallb_forall. split.
    - intros [HI HO] it Hin. apply declared_inv in Hin. destruct it as [i|i|o|o|o]; cbn.
      + specialize (HI i Hin). apply andb_true_iff in HI. apply HI.
      + destruct Hin as [Hin Hp]. specialize (HI i Hin). apply andb_true_iff in HI. destruct HI as [_ HI].
        rewrite Hp in HI. cbn in HI. exact HI.
      + specialize (HO o Hin). apply andb_true_iff in HO. destruct HO as [HO _]. apply andb_true_iff in HO. apply HO.
      + specialize (HO o Hin). apply andb_true_iff in HO. destruct HO as [HO _]. apply andb_true_iff in HO. apply HO.
      + specialize (HO o Hin). apply andb_true_iff in HO. apply HO.
    - intros H. split.
      + intros i Hin. apply andb_true_iff. split.
        * apply (H (IInInfo i)). apply declared_in. exact Hin.
        * destruct (is_pull (sp_in sp i)) eqn:Ep; cbn; [|reflexivity].
          apply (H (IPulled i)). apply declared_pull; assumption.
      + intros o Hin. destruct (declared_out o Hin) as (H1 & H2 & H3).
        rewrite (H _ H1 : is_some _ = true), (H _ H2 : o_ipushed _ = true), (H _ H3 : o_dpushed _ = true). reflexivity.
  Qed.

  (** ** The whole call *)
  Definition any_done_flag (w : world) : bool :=
    let w1 := ph_cache w in
    let w2 := ph_ex w1 in let w3 := ph_oi w2 in let w4 := ph_pi w3 in let w5 := ph_pd w4 in
    existsb (fires_ex sp w1) (c_ins c) || existsb (fires_oi sp w2) (c_outs c) || existsb (fires_pi w3) (c_outs c)
    || existsb (fires_pd w4) (c_outs c) || existsb (fires_pl sp w5) (c_ins c).

  Lemma helper_connect_eq : forall w,
      helper_connect sp c a w =
      (fst (helper_connect sp c a w),
       if all_done sp c (fst (helper_connect sp c a w)) then CONNECTED
       else if any_done_flag w then CONNECTING else CONNECTING_IDLE).
  Proof. intros. reflexivity. Qed.

  Lemma call_ok : forall w, phase_ok w (fst (helper_connect sp c a w)) (any_done_flag w).
  Proof.
    intros w. unfold helper_connect, any_done_flag. cbn.
    set (w1 := ph_cache w). set (w2 := ph_ex w1). set (w3 := ph_oi w2). set (w4 := ph_pi w3). set (w5 := ph_pd w4).
    assert (H0 : phase_ok w w1 false).
    { split; [|split]; intros; try discriminate; unfold w1; rewrite cache_done; auto. }
    pose proof (phase_ok_seq _ _ _ _ _ H0 (ex_ok w1)) as H1. fold w2 in H1.
    pose proof (phase_ok_seq _ _ _ _ _ H1 (oi_ok w2)) as H2. fold w3 in H2.
    pose proof (phase_ok_seq _ _ _ _ _ H2 (pi_ok w3)) as H3. fold w4 in H3.
    pose proof (phase_ok_seq _ _ _ _ _ H3 (pd_ok w4)) as H4. fold w5 in H4.
    pose proof (phase_ok_seq _ _ _ _ _ H4 (pl_ok w5)) as H5.
    cbn in H5. exact H5.
  Qed.

  (** C06_progress_iff *)
  Lemma progress_iff : forall w w' st,
      helper_connect sp c a w = (w', st) ->
      (forall it, done w it = true -> done w' it = true)
      /\ (st = CONNECTED <-> (forall it, In it (declared sp c) -> done w' it = true))
      /\ (st = CONNECTING <->
          (exists it, In it (declared sp c) /\ done w' it = false)
          /\ (exists it, In it (declared sp c) /\ done w it = false /\ done w' it = true))
      /\ (st = CONNECTING_IDLE <->
          (exists it, In it (declared sp c) /\ done w' it = false)
          /\ (forall it, In it (declared sp c) -> done w' it = done w it))
      /\ st <> INITIALIZED.
  Proof.
    intros w w' st H.
    assert (Hw : fst (helper_connect sp c a w) = w') by (rewrite H; reflexivity).
    rewrite helper_connect_eq in H. rewrite Hw in H. injection H as Hst.
    pose proof (call_ok w) as [M [F T]]. rewrite Hw in M, F, T.
    assert (ND : all_done sp c w' = false -> exists it, In it (declared sp c) /\ done w' it = false).
    { intros Hf. unfold all_done in Hf.
      apply andb_false_iff in Hf. destruct Hf as [Hf|Hf].
      - assert (exists i, In i (c_ins c) /\ (is_some (in_exch (wi w' i)) && (negb (is_pull (sp_in sp i)) || is_some (in_data (wi w' i)))) = false) as [i [Hin Hi]].
        { clear -Hf. induction (c_ins c) as [|x r IH]; cbn in Hf; [discriminate|].
          apply andb_false_iff in Hf. destruct Hf as [Hf|Hf]; [exists x; split; [left; reflexivity|exact Hf]|].
          destruct (IH Hf) as [i [Hin Hi]]. exists i. split; [right; exact Hin|exact Hi]. }
        apply andb_false_iff in Hi. destruct Hi as [Hi|Hi].
        + exists (IInInfo i). split; [apply declared_in; exact Hin|exact Hi].
        + apply orb_false_iff in Hi. destruct Hi as [Hp Hd]. apply negb_false_iff in Hp.
          exists (IPulled i). split; [apply declared_pull; assumption|exact Hd].
      - assert (exists o, In o (c_outs c) /\ (is_some (o_hinfo (wo w' o)) && o_ipushed (wo w' o) && o_dpushed (wo w' o)) = false) as [o [Hin Ho]].
        { clear -Hf. induction (c_outs c) as [|x r IH]; cbn in Hf; [discriminate|].
          apply andb_false_iff in Hf. destruct Hf as [Hf|Hf]; [exists x; split; [left; reflexivity|exact Hf]|].
          destruct (IH Hf) as [o [Hin Ho]]. exists o. split; [right; exact Hin|exact Ho]. }
        destruct (declared_out o Hin) as (D1 & D2 & D3).
        apply andb_false_iff in Ho. destruct Ho as [Ho|Ho]; [apply andb_false_iff in Ho; destruct Ho as [Ho|Ho]|].
        + exists (IOutInfo o). split; assumption.
        + exists (IInfoPushed o). split; assumption.
        + exists (IDataPushed o). split; assumption. }
    split; [exact M|].
    destruct (all_done sp c w') eqn:EA.
    - pose proof (proj1 (all_done_spec w') EA) as HA. subst st.
      split; [split; auto|]. split; [|split; [|discriminate]].
      + split; [discriminate|]. intros [[it [Hin Hd]] _]. rewrite (HA it Hin) in Hd. discriminate.
      + split; [discriminate|]. intros [[it [Hin Hd]] _]. rewrite (HA it Hin) in Hd. discriminate.
    - destruct (ND eq_refl) as [it0 [Hin0 Hd0]].
      assert (NA : ~ (forall it, In it (declared sp c) -> done w' it = true)).
      { intros HA. rewrite (HA it0 Hin0) in Hd0. discriminate. }
      destruct (any_done_flag w) eqn:EF; subst st.
      + split; [split; [discriminate|intros HA; contradiction]|].
        split.
        { split; [|reflexivity]. intros _. split; [exists it0; split; assumption|]. apply T. reflexivity. }
        split; [|discriminate]. split; [discriminate|].
        intros [_ HS]. destruct (T eq_refl) as [it [Hin [Hd Hd']]]. rewrite (HS it Hin) in Hd'. congruence.
      + split; [split; [discriminate|intros HA; contradiction]|].
        split.
        { split; [discriminate|]. intros [_ [it [Hin [Hd Hd']]]]. rewrite (F eq_refl it) in Hd'. congruence. }
        split; [|discriminate]. split; [|reflexivity]. intros _. split; [exists it0; split; assumption|].
        intros it _. apply F. reflexivity.
  Qed.
End Call.

(** * The loop of Composition._connect_components *)
Section Loop.
  Variable sp : spec.

  Definition undone (L : list item) (w : world) : nat := length (filter (fun it => negb (done w it)) L).
  Definition nunconn (cs : list (comp * status)) : nat :=
    length (filter (fun x => negb (status_eqb (snd x) CONNECTED)) cs).
  Definition ninit (cs : list (comp * status)) : nat :=
    length (filter (fun x => status_eqb (snd x) INITIALIZED) cs).
  Definition mu (L : list item) (w : world) (cs : list (comp * status)) : nat := undone L w + nunconn cs + ninit cs.

  Definition mono (w w' : world) : Prop := forall it, done w it = true -> done w' it = true.

  Lemma mono_refl : forall w, mono w w. Proof. intros w it H. exact H. Qed.
  Lemma mono_trans : forall w1 w2 w3, mono w1 w2 -> mono w2 w3 -> mono w1 w3.
  Proof. intros w1 w2 w3 H1 H2 it H. apply H2, H1, H. Qed.

  Lemma undone_mono : forall L w w', mono w w' -> undone L w' <= undone L w.
  Proof.
    intros L w w' M. unfold undone. induction L as [|x r IH]; simpl; [lia|].
    destruct (done w x) eqn:E.
    - rewrite (M x E). simpl. exact IH.
    - simpl. destruct (negb (done w' x)); simpl; lia.
  Qed.

  Lemma undone_strict : forall L w w' it, mono w w' -> In it L -> done w it = false -> done w' it = true ->
                                          undone L w' < undone L w.
  Proof.
    intros L w w' it M. unfold undone. induction L as [|x r IH]; simpl; intros Hin Hd Hd'; [contradiction|].
    pose proof (undone_mono r w w' M) as Hle. unfold undone in Hle.
    destruct Hin as [->|Hin].
    - rewrite Hd, Hd'. simpl. lia.
    - specialize (IH Hin Hd Hd'). destruct (done w x) eqn:E.
      + rewrite (M x E). simpl. exact IH.
      + simpl. destruct (negb (done w' x)); simpl; lia.
  Qed.

  Definition sound (w : world) (cs : list (comp * status)) : Prop :=
    forall c st, In (c, st) cs -> st = CONNECTED -> forall it, In it (declared sp c) -> done w it = true.

  Lemma sound_mono : forall w w' cs, mono w w' -> sound w cs -> sound w' cs.
  Proof. intros w w' cs M HS c st Hin Hst it Hit. apply M. eapply HS; eauto. Qed.

  Lemma status_eqb_eq : forall a b, status_eqb a b = true <-> a = b.
  Proof. intros a b. destruct a, b; simpl; split; intros H; try reflexivity; try discriminate. Qed.

  Lemma iter_fst : forall cs k w, map fst (it_comps (iter sp k cs w)) = map fst cs.
  Proof.
    induction cs as [|[c st] r IH]; intros k w; cbn; [reflexivity|].
    destruct st; cbn; try (rewrite IH; reflexivity);
      destruct (helper_connect sp c (prov_args sp w) w) as [w1 st1]; cbn; rewrite IH; reflexivity.
  Qed.

  Lemma iter_mono : forall cs k w, mono w (it_world (iter sp k cs w)).
  Proof.
    induction cs as [|[c st] r IH]; intros k w; cbn; [apply mono_refl|].
    destruct st; cbn; try apply IH;
      destruct (helper_connect sp c (prov_args sp w) w) as [w1 st1] eqn:E; cbn;
        (eapply mono_trans; [exact (proj1 (progress_iff sp c (prov_args sp w) w w1 st1 E))|apply IH]).
  Qed.

  Lemma iter_sound : forall cs k w, sound w cs -> sound (it_world (iter sp k cs w)) (it_comps (iter sp k cs w)).
  Proof.
    induction cs as [|[c st] r IH]; intros k w HS; cbn; [intros ? ? []|].
    assert (Sr : sound w r) by (intros c' st' Hin; apply (HS c' st'); right; exact Hin).
    destruct st; cbn.
    - (* INITIALIZED *) intros c' st' [Heq|Hin] Hst; [inversion Heq; subst; discriminate|]. eapply IH; eauto.
    - destruct (helper_connect sp c (prov_args sp w) w) as [w1 st1] eqn:E; cbn.
      pose proof (progress_iff sp c (prov_args sp w) w w1 st1 E) as (M & HC & _).
      intros c' st' [Heq|Hin] Hst.
      + inversion Heq; subst. intros it Hit. apply (iter_mono r (S k) w1). apply (proj1 HC eq_refl). exact Hit.
      + eapply (IH (S k) w1); eauto. eapply sound_mono; eauto.
    - destruct (helper_connect sp c (prov_args sp w) w) as [w1 st1] eqn:E; cbn.
      pose proof (progress_iff sp c (prov_args sp w) w w1 st1 E) as (M & HC & _).
      intros c' st' [Heq|Hin] Hst.
      + inversion Heq; subst. intros it Hit. apply (iter_mono r (S k) w1). apply (proj1 HC eq_refl). exact Hit.
      + eapply (IH (S k) w1); eauto. eapply sound_mono; eauto.
    - (* CONNECTED *) intros c' st' [Heq|Hin] Hst.
      + inversion Heq; subst. intros it Hit. apply (iter_mono r (S k) w). eapply HS; [left; reflexivity|reflexivity|exact Hit].
      + eapply IH; eauto.
  Qed.

  Lemma iter_measure : forall L cs k w,
      (forall c st, In (c, st) cs -> incl (declared sp c) L) ->
      mu L (it_world (iter sp k cs w)) (it_comps (iter sp k cs w)) + (if it_new (iter sp k cs w) then 1 else 0)
      <= mu L w cs.
  Proof.
    intros L. unfold mu. induction cs as [|[c st] r IH]; intros k w HL; cbn; [lia|].
    assert (HLr : forall c' st', In (c', st') r -> incl (declared sp c') L) by (intros c' st' Hin; apply (HL c' st'); right; exact Hin).
    assert (HLc : incl (declared sp c) L) by (apply (HL c st); left; reflexivity).
    destruct st; cbn.
    - specialize (IH (S k) w HLr). unfold nunconn, ninit in *. cbn. destruct (it_new (iter sp (S k) r w)); lia.
    - destruct (helper_connect sp c (prov_args sp w) w) as [w1 st1] eqn:E; cbn.
      pose proof (progress_iff sp c (prov_args sp w) w w1 st1 E) as (M & HC & HG & HI & HN).
      specialize (IH (S k) w1 HLr). pose proof (undone_mono L w w1 M) as HU.
      unfold nunconn, ninit in *. cbn.
      destruct st1; cbn; try congruence.
      + destruct (proj1 HG eq_refl) as [_ [it [Hin [Hd Hd']]]].
        pose proof (undone_strict L w w1 it M (HLc it Hin) Hd Hd'). destruct (it_new (iter sp (S k) r w1)); lia.
      + destruct (it_new (iter sp (S k) r w1)); lia.
      + destruct (it_new (iter sp (S k) r w1)); lia.
    - destruct (helper_connect sp c (prov_args sp w) w) as [w1 st1] eqn:E; cbn.
      pose proof (progress_iff sp c (prov_args sp w) w w1 st1 E) as (M & HC & HG & HI & HN).
      specialize (IH (S k) w1 HLr). pose proof (undone_mono L w w1 M) as HU.
      unfold nunconn, ninit in *. cbn.
      destruct st1; cbn; try congruence.
      + destruct (proj1 HG eq_refl) as [_ [it [Hin [Hd Hd']]]].
        pose proof (undone_strict L w w1 it M (HLc it Hin) Hd Hd'). destruct (it_new (iter sp (S k) r w1)); lia.
      + destruct (it_new (iter sp (S k) r w1)); lia.
      + destruct (it_new (iter sp (S k) r w1)); lia.
    - specialize (IH (S k) w HLr). unfold nunconn, ninit in *. cbn. destruct (it_new (iter sp (S k) r w)); lia.
  Qed.

  Lemma unconnected_length : forall cs k, length (unconnected k cs) = nunconn cs.
  Proof.
    induction cs as [|[c st] r IH]; intros k; simpl; [reflexivity|].
    unfold nunconn in *. simpl. destruct (status_eqb st CONNECTED); simpl; rewrite IH; reflexivity.
  Qed.

  Lemma loop_sound : forall fuel cs w, sound w cs ->
      sound (r_world (loop sp fuel cs w)) (r_comps (loop sp fuel cs w)).
  Proof.
    induction fuel as [|f IH]; intros cs w HS; simpl; [exact HS|].
    pose proof (iter_sound cs 0 w HS) as HS'.
    destruct (unconnected 0 (it_comps (iter sp 0 cs w))); simpl; [exact HS'|].
    destruct (it_new (iter sp 0 cs w)); simpl; [apply IH; exact HS'|exact HS'].
  Qed.

  Lemma loop_fst : forall fuel cs w, map fst (r_comps (loop sp fuel cs w)) = map fst cs.
  Proof.
    induction fuel as [|f IH]; intros cs w; simpl; [reflexivity|].
    destruct (unconnected 0 (it_comps (iter sp 0 cs w))); simpl; [apply iter_fst|].
    destruct (it_new (iter sp 0 cs w)); simpl; [rewrite IH|]; apply iter_fst.
  Qed.

  Lemma loop_terminates : forall L fuel cs w,
      (forall c, In c (map fst cs) -> incl (declared sp c) L) ->
      mu L w cs <= fuel -> 1 <= fuel ->
      r_out (loop sp fuel cs w) <> OutOfFuel /\ r_iters (loop sp fuel cs w) <= Nat.max (mu L w cs) 1.
  Proof.
    intros L. induction fuel as [|f IH]; intros cs w HL Hmu H1; [lia|]. simpl.
    assert (HL' : forall c st, In (c, st) cs -> incl (declared sp c) L).
    { intros c st Hin. apply HL. apply in_map_iff. exists (c, st). split; [reflexivity|exact Hin]. }
    pose proof (iter_measure L cs 0 w HL') as HM.
    pose proof (unconnected_length (it_comps (iter sp 0 cs w)) 0) as HU.
    destruct (unconnected 0 (it_comps (iter sp 0 cs w))) as [|u0 ur] eqn:EU; simpl.
    - split; [discriminate|lia].
    - destruct (it_new (iter sp 0 cs w)) eqn:EN; simpl.
      + simpl in HU.
        assert (Hmu' : 1 <= mu L (it_world (iter sp 0 cs w)) (it_comps (iter sp 0 cs w))) by (unfold mu; lia).
        destruct (IH (it_comps (iter sp 0 cs w)) (it_world (iter sp 0 cs w))) as [HO HI].
        * intros c Hin. apply HL. rewrite <- (iter_fst cs 0 w). exact Hin.
        * lia.
        * lia.
        * split; [exact HO|lia].
      + split; [discriminate|lia].
  Qed.

  Lemma iter_init : forall l k w,
      iter sp k (map (fun c => (c, INITIALIZED)) l) w =
      mk_iter w (map (fun c => (c, CONNECTING)) l) [] (match l with [] => false | _ => true end).
  Proof.
    induction l as [|c r IH]; intros k w; simpl; [reflexivity|]. rewrite IH. reflexivity.
  Qed.

  Lemma nunconn_connecting : forall l, nunconn (map (fun c => (c, CONNECTING)) l) = length l.
  Proof. induction l as [|c r IH]; simpl; [reflexivity|]. unfold nunconn in *. simpl. rewrite IH. reflexivity. Qed.
  Lemma ninit_connecting : forall l, ninit (map (fun c => (c, CONNECTING)) l) = 0.
  Proof. induction l as [|c r IH]; simpl; [reflexivity|]. unfold ninit in *. simpl. exact IH. Qed.

  Lemma undone_le : forall L w, undone L w <= length L.
  Proof.
    intros L w. unfold undone. induction L as [|x r IH]; simpl; [lia|].
    destruct (negb (done w x)); simpl; lia.
  Qed.

  (** C06_terminates *)
  Lemma run_terminates : forall cs,
      r_out (connect_run sp cs) <> OutOfFuel
      /\ r_iters (connect_run sp cs) <= length (all_items sp cs) + length cs + 1.
  Proof.
    intros cs. unfold connect_run, enough_fuel.
    replace (length (all_items sp cs) + length cs + 2) with (S (length (all_items sp cs) + length cs + 1)) by lia.
    simpl. rewrite iter_init. simpl.
    destruct cs as [|c0 r]; simpl; [split; [discriminate|lia]|].
    set (l := c0 :: r).
    change ((c0, CONNECTING) :: map (fun c => (c, CONNECTING)) r) with (map (fun c => (c, CONNECTING)) l).
    set (L := all_items sp l).
    destruct (loop_terminates L (length L + length l + 1) (map (fun c => (c, CONNECTING)) l) (init_world sp)) as [HO HI].
    - intros c Hin. rewrite map_map in Hin. simpl in Hin. rewrite map_id in Hin.
      unfold L, all_items. intros it Hit. apply in_flat_map. exists c. split; assumption.
    - unfold mu. rewrite nunconn_connecting, ninit_connecting. pose proof (undone_le L (init_world sp)). lia.
    - lia.
    - unfold mu in HI. rewrite nunconn_connecting, ninit_connecting in HI. pose proof (undone_le L (init_world sp)) as HU.
      assert (Hlen : length l = S (length r)) by reflexivity.
      change (declared sp c0 ++ all_items sp r) with L. change (S (length r)) with (length l).
      split; [exact HO|]. lia.
  Qed.

  (** C06_connected_sound for the composition loop *)
  Lemma run_sound : forall cs c st,
      In (c, st) (r_comps (connect_run sp cs)) -> st = CONNECTED ->
      forall it, In it (declared sp c) -> done (r_world (connect_run sp cs)) it = true.
  Proof.
    intros cs c st Hin Hst. unfold connect_run in Hin |- *.
    eapply loop_sound; eauto.
    intros c' st' Hin' Hst'. apply in_map_iff in Hin'. destruct Hin' as [x [Hx _]]. inversion Hx. congruence.
  Qed.
End Loop.
