(** FV.SchedSparse with all publication periods 1 IS FV.Sched: same outcome, same event trace, same final times,
    for every composition, end time and fuel.  (States hold functions; they are compared pointwise, no axiom.) *)
From Coq Require Import List ZArith Bool Arith Lia.
From FV Require Import Base Sched SchedSparse.
From FVP Require Confluence_proofs.
Import ListNotations.
Open Scope Z_scope.

Definition st_eq (a b : state) : Prop :=
  (forall x, s_time a x = s_time b x) /\ (forall x, s_cnt a x = s_cnt b x) /\ (forall x y, s_link a x y = s_link b x y).

Lemma st_eq_refl a : st_eq a a.
Proof. repeat split; auto. Qed.

Lemma upd_ext {A} (f g : nat -> A) k v : (forall x, f x = g x) -> forall x, upd f k v x = upd g k v x.
Proof. intros H x. unfold upd. destruct (Nat.eqb x k); auto. Qed.

Lemma upd2_ext {A} (f g : nat -> nat -> A) c k v : (forall x y, f x y = g x y) -> forall x y, upd2 f c k v x y = upd2 g c k v x y.
Proof. intros H x y. unfold upd2. destruct (Nat.eqb x c && Nat.eqb y k); auto. Qed.

Lemma ptime_of_ext cs a b src : st_eq a b -> ptime_of cs a src = ptime_of cs b src.
Proof. intros [T _]. unfold ptime_of. now rewrite T. Qed.

(** ** pulls *)
Lemma pull_list_ext (reca recb : nat -> input -> state -> list ev -> state * list ev * option err) :
  (forall k x s1 s2 a s1' a' e, st_eq s1 s2 -> reca k x s1 a = (s1', a', e) ->
      exists s2', recb k x s2 a = (s2', a', e) /\ st_eq s1' s2') ->
  forall ins k0 s1 s2 a s1' a' e, st_eq s1 s2 -> pull_list reca k0 ins s1 a = (s1', a', e) ->
    exists s2', pull_list recb k0 ins s2 a = (s2', a', e) /\ st_eq s1' s2'.
Proof.
  intros Hrec. induction ins as [|x ins IH]; intros k0 s1 s2 a s1' a' e E H; simpl in *.
  - inversion H; subst. eauto.
  - destruct (reca k0 x s1 a) as [[t1 a1] e1] eqn:R.
    destruct (Hrec _ _ _ _ _ _ _ _ E R) as [t2 [R2 E2]]. rewrite R2.
    destruct e1; [inversion H; subst; eauto|]. eapply IH; eauto.
Qed.

Lemma pull_input_ext cs fuel : forall s1 s2 c k inp t a s1' a' e,
  st_eq s1 s2 -> pull_input fuel cs s1 c k inp t a = (s1', a', e) ->
  exists s2', pull_input fuel cs s2 c k inp t a = (s2', a', e) /\ st_eq s1' s2'.
Proof.
  induction fuel as [|fuel IH]; intros s1 s2 c k inp t a s1' a' e E H; simpl in *.
  - inversion H; subst. eauto.
  - destruct E as [ET [EC EL]] eqn:EE. clear EE.
    rewrite <- (ptime_of_ext cs s1 s2 (i_src inp) E), <- (EL c k).
    destruct (pull_chain (i_chain inp) (s_link s1 c k) (init_of cs (i_src inp)) (ptime_of cs s1 (i_src inp)) t) as [[r b] ss'].
    assert (E1 : st_eq (mkS (s_time s1) (s_cnt s1) (upd2 (s_link s1) c k ss')) (mkS (s_time s2) (s_cnt s2) (upd2 (s_link s2) c k ss'))).
    { split; [exact ET|]. split; [exact EC|]. simpl. apply upd2_ext. exact EL. }
    rewrite <- (ET (fst (i_src inp))).
    destruct (is_static_src cs (i_src inp)); [inversion H; subst; eauto|].
    destruct b; [inversion H; subst; eauto|].
    destruct (is_time cs (fst (i_src inp))); [inversion H; subst; eauto|].
    eapply (pull_list_ext (fun k0 x s a0 => pull_input fuel cs s (fst (i_src inp)) k0 x r a0)); [|exact E1|exact H].
    intros k1 x t1 t2 a1 t1' a1' e1 Et R. eapply IH; eauto.
Qed.

Lemma pull_all_ext cs fuel s1 s2 c ins t a s1' a' e :
  st_eq s1 s2 -> pull_all fuel cs s1 c ins t a = (s1', a', e) ->
  exists s2', pull_all fuel cs s2 c ins t a = (s2', a', e) /\ st_eq s1' s2'.
Proof.
  intros E H. unfold pull_all in *.
  eapply (pull_list_ext (fun k x s a0 => pull_input fuel cs s c k x t a0)); [|exact E|exact H].
  intros k1 x t1 t2 a1 t1' a1' e1 Et R. eapply pull_input_ext; eauto.
Qed.

(** ** dependencies *)
Lemma link_dep_ext cs a b c k inp t : st_eq a b -> link_dep cs a c k inp t = link_dep cs b c k inp t.
Proof.
  intros E. unfold link_dep. rewrite (ptime_of_ext cs a b _ E). destruct E as [_ [_ EL]]. now rewrite EL.
Qed.

Lemma find_deps_from_ext cs a b c : st_eq a b -> forall ins k t deps,
  find_deps_from cs a c k ins t deps = find_deps_from cs b c k ins t deps.
Proof.
  intros E. pose proof (proj1 E) as ET. induction ins as [|x ins IH]; intros k t deps; simpl; [reflexivity|].
  rewrite (link_dep_ext cs a b c k x t E). rewrite (ET (fst (i_src x))). apply IH.
Qed.

Lemma find_deps_ext cs a b c t : st_eq a b -> find_deps cs a c t = find_deps cs b c t.
Proof. intros E. unfold find_deps. apply find_deps_from_ext; exact E. Qed.

Lemma next_time_ext cs a b c : st_eq a b -> next_time cs a c = next_time cs b c.
Proof. intros [ET [EC _]]. unfold next_time. now rewrite ET, EC. Qed.

Lemma pick_min_ext cs a b : st_eq a b -> forall l k best, pick_min cs a k l best = pick_min cs b k l best.
Proof.
  intros [ET _]. induction l as [|x l IH]; intros k best; simpl; [reflexivity|].
  destruct (c_kind x); [|apply IH]. destruct best as [bb|]; [|apply IH]. rewrite (ET k), (ET bb). apply IH.
Qed.

Lemma any_running_ext a b endt : st_eq a b -> forall l k, any_running a k l endt = any_running b k l endt.
Proof.
  intros [ET _]. induction l as [|x l IH]; intros k; simpl; [reflexivity|]. rewrite (ET k), IH. reflexivity.
Qed.

Lemma final_times_ext cs a b : st_eq a b -> final_times cs a = final_times cs b.
Proof. intros [ET _]. unfold final_times. apply map_ext. intros k. now rewrite ET. Qed.

(** pulls do not touch the time field *)
Lemma pull_list_time rec : forall ins k0 s a s' a' e,
  (forall k x s1 a1 s2 a2 e2, rec k x s1 a1 = (s2, a2, e2) -> s_time s2 = s_time s1) ->
  pull_list rec k0 ins s a = (s', a', e) -> s_time s' = s_time s.
Proof.
  induction ins as [|x ins IH]; intros k0 s a s' a' e Hrec H; simpl in H; [inversion H; reflexivity|].
  destruct (rec k0 x s a) as [[s2 a2] e2] eqn:R2. pose proof (Hrec _ _ _ _ _ _ _ R2) as E2.
  destruct e2; [inversion H; subst; exact E2|]. rewrite (IH _ _ _ _ _ _ Hrec H). exact E2.
Qed.

Lemma pull_input_time cs fuel : forall s c k x t a s2 a2 e2,
  pull_input fuel cs s c k x t a = (s2, a2, e2) -> s_time s2 = s_time s.
Proof.
  induction fuel as [|fuel IH]; intros s c k x t a s2 a2 e2 H; simpl in H; [inversion H; reflexivity|].
  destruct (pull_chain _ _ _ _ _) as [[r b] ss']. destruct (is_static_src cs (i_src x)); [inversion H; reflexivity|].
  destruct b; [inversion H; reflexivity|].
  destruct (is_time cs (fst (i_src x))); [inversion H; reflexivity|].
  apply pull_list_time in H; [exact H|]. intros k1 x1 s1 a1 s3 a3 e3 R1. eapply IH; eauto.
Qed.

Lemma pull_all_time cs fuel s c ins t a s' a' e :
  pull_all fuel cs s c ins t a = (s', a', e) -> s_time s' = s_time s.
Proof.
  unfold pull_all. intros H. apply pull_list_time in H; [exact H|].
  intros k1 x1 s1 a1 s3 a3 e3 R1. eapply pull_input_time; eauto.
Qed.

(** ** the simulation *)
Definition dense (pe : list nat) : Prop := forall c, pe_of pe c = 1%nat.

Lemma dense_ones (cs : composition) : dense (map (fun _ => 1%nat) cs).
Proof.
  intros c. unfold pe_of.
  destruct (nth_in_or_default c (map (fun _ : comp => 1%nat) cs) 1%nat) as [Hin|Hd]; [|now rewrite Hd].
  apply in_map_iff in Hin. destruct Hin as [y [Hy _]]. now rewrite <- Hy.
Qed.

Definition R (sp : state) (pub : nat -> Z) (st : state) : Prop := st_eq sp st /\ forall x, pub x = s_time st x.

Lemma R_with_time sp pub st : R sp pub st -> st_eq st (with_time sp pub).
Proof.
  intros [[ET [EC EL]] P]. unfold with_time. split; [intros x; symmetry; apply P|].
  split; [intros x; symmetry; apply EC|intros x y; symmetry; apply EL].
Qed.

Lemma do_update_sim cs pe (D : dense pe) sp pub st c acc st' acc' e :
  R sp pub st -> do_update cs st c acc = (st', acc', e) ->
  exists sp' pub', do_update_sp cs pe sp pub c acc = (sp', pub', acc', e) /\ R sp' pub' st'.
Proof.
  intros HR H. pose proof (R_with_time sp pub st HR) as EW. destruct HR as [E P].
  destruct E as [ET [EC EL]] eqn:EE. clear EE.
  unfold do_update in H. unfold do_update_sp.
  rewrite (next_time_ext cs sp st c E).
  destruct (pull_all (S (length cs)) cs st c (c_inputs (getc cs c)) (next_time cs st c) (EU c (next_time cs st c) :: acc))
    as [[s1 a1] e1] eqn:PA.
  destruct (pull_all_ext cs _ _ _ _ _ _ _ _ _ _ EW PA) as [w1 [PW [_ [_ E1L]]]].
  rewrite PW. inversion H; subst st' acc' e. clear H.
  assert (Pub : publishes pe c (S (s_cnt sp c)) = true).
  { unfold publishes. rewrite (D c). now rewrite Nat.mod_1_r. }
  rewrite Pub. eexists; eexists. split; [reflexivity|].
  pose proof (pull_all_time _ _ _ _ _ _ _ _ _ _ PA) as T1.
  split.
  - split; [simpl; rewrite T1; apply upd_ext; exact ET|]. split.
    + simpl. rewrite (EC c).
      assert (C1 : s_cnt s1 = s_cnt st).
      { unfold pull_all in PA. apply Confluence_proofs.pull_list_cnt in PA; [exact PA|].
        intros k1 x1 t1 a2 t3 a3 e3 R1. eapply Confluence_proofs.pull_input_cnt; eauto. }
      rewrite C1. apply upd_ext. exact EC.
    + simpl. intros x y. symmetry. apply E1L.
  - simpl. rewrite T1. intros x. unfold upd. destruct (Nat.eqb x c); [reflexivity|apply P].
Qed.

Definition ures_sim (r : ures) (rs : ures_sp) : Prop :=
  match r, rs with
  | UUpdated c st acc e, USUpdated c' sp pub acc' e' => c = c' /\ acc = acc' /\ e = e' /\ R sp pub st
  | UNone, USNone | UCirc, USCirc | UFuel, USFuel => True
  | _, _ => False
  end.

Lemma dep_loop_sim cs (rec : nat -> Z -> ures) (recs : nat -> Z -> ures_sp) fin fins :
  (forall c t, ures_sim (rec c t) (recs c t)) -> ures_sim (fin tt) (fins tt) ->
  forall deps, ures_sim (dep_loop cs rec fin deps) (dep_loop_sp cs recs fins deps).
Proof.
  intros Hrec Hfin. induction deps as [|[o lt] deps IH]; simpl; [exact Hfin|].
  destruct (is_time cs (fst o)); [apply Hrec|].
  pose proof (Hrec (fst o) lt) as H. destruct (rec (fst o) lt), (recs (fst o) lt); simpl in H; try contradiction; auto.
Qed.

Lemma update_rec_sim cs pe (D : dense pe) sp pub st (HR : R sp pub st) acc fuel : forall c chain tgt,
  ures_sim (update_rec fuel cs st acc c chain tgt) (update_rec_sp fuel cs pe sp pub acc c chain tgt).
Proof.
  induction fuel as [|fuel IH]; intros c chain tgt; simpl; [exact I|].
  destruct (existsb (key_eqb (chain_key cs c tgt)) chain); [exact I|].
  pose proof (R_with_time sp pub st HR) as EW. destruct HR as [E P] eqn:EE. clear EE.
  rewrite <- (find_deps_ext cs st (with_time sp pub) c _ EW).
  rewrite (next_time_ext cs sp st c E).
  apply dep_loop_sim.
  - intros c' t'. apply IH.
  - destruct (is_time cs c); [|exact I].
    destruct (do_update cs st c acc) as [[st' acc'] e] eqn:DU.
    destruct (do_update_sim cs pe D sp pub st c acc st' acc' e (conj E P) DU) as [sp' [pub' [DS R']]].
    rewrite DS. simpl. auto.
Qed.

Lemma run_loop_sim cs pe (D : dense pe) endt fuel : forall sp pub st acc,
  R sp pub st ->
  let '(o, st', acc') := run_loop fuel cs endt st acc in
  let '(os, sp', accs) := run_loop_sp fuel cs pe endt sp pub acc in
  o = os /\ acc' = accs /\ st_eq sp' st'.
Proof.
  induction fuel as [|fuel IH]; intros sp pub st acc HR; cbn [run_loop run_loop_sp].
  - destruct HR as [E _]. auto.
  - destruct HR as [E P] eqn:EE. clear EE.
    rewrite (pick_min_ext cs sp st E).
    destruct (pick_min cs st 0 cs None) as [c|]; [|auto].
    pose proof (update_rec_sim cs pe D sp pub st (conj E P) acc (rec_fuel cs) c [] 0) as S.
    destruct (update_rec (rec_fuel cs) cs st acc c [] 0) as [u st1 acc1 e1| | |],
             (update_rec_sp (rec_fuel cs) cs pe sp pub acc c [] 0) as [u' sp1 pub1 accs1 es1| | |];
      simpl in S; try contradiction; auto.
    destruct S as [<- [<- [<- R1]]].
    pose proof (proj1 R1) as E1.
    destruct e1 as [[| |]|]; try (split; [reflexivity|split; [reflexivity|exact E1]]).
    rewrite (any_running_ext sp1 st1 endt E1).
    destruct (any_running st1 0 cs endt); [|auto].
    apply IH. exact R1.
Qed.

(** the generalisation with all periods 1 is the model of the theorems *)
Theorem sparse_refines_dense cs endt fuel :
  sp_model (dense_as_sparse (cs, endt, fuel)) = sched_model (cs, endt, fuel).
Proof.
  unfold sp_model, sched_model, dense_as_sparse, run_sp, run.
  pose proof (run_loop_sim cs (map (fun _ => 1%nat) cs) (dense_ones cs) endt fuel
                (init_state cs) (s_time (init_state cs)) (init_state cs) [] (conj (st_eq_refl _) (fun x => eq_refl))) as H.
  destruct (run_loop fuel cs endt (init_state cs) []) as [[o st'] acc'].
  destruct (run_loop_sp fuel cs (map (fun _ => 1%nat) cs) endt (init_state cs) (s_time (init_state cs)) []) as [[os sp'] accs].
  destruct H as [-> [-> E]]. now rewrite (final_times_ext cs sp' st' E).
Qed.
