(** Proofs about the link data model (property C08): nearest-publication selection,
    payload normalisation / unit conversion / mask, memory-sharing rule. *)
From Coq Require Import List ZArith QArith Qabs Bool Arith Lia Lqa.
From FV Require Import Base OutputM LinkData.
From FVP Require Import OutputM_proofs.
Import ListNotations.

(* ================================================================== *)
(** * Part 1: nearest publication *)
Section Nearest.
  Context {A : Type}.
  Open Scope Z_scope.

  Definition opt_list (p : option (Z * A)) : list (Z * A) :=
    match p with Some e => [e] | None => [] end.

  Lemma interp_loop_nearest (l : hist A) : forall prev time,
    match prev with
    | Some (tp, _) => inc_from tp l /\ tp < time
    | None => increasing l /\ match l with (t0, _) :: _ => t0 <= time | [] => True end
    end ->
    (exists e, In e l /\ time <= fst e) ->
    exists tr dr, interp_loop prev l time = Ok dr /\ In (tr, dr) (opt_list prev ++ l)
      /\ forall e, In e (opt_list prev ++ l) -> Z.abs (tr - time) <= Z.abs (fst e - time).
  Proof.
    induction l as [|[t d] r IH]; intros prev time Hprev [e [He Hle]]; [contradiction|].
    cbn [interp_loop].
    destruct (t <? time) eqn:E1.
    - (* skip this entry *)
      apply Z.ltb_lt in E1.
      assert (inc_from t r) as Hinc.
      { destruct prev as [[tp dp]|]; simpl in Hprev; tauto. }
      assert (exists e, In e r /\ time <= fst e) as Hex.
      { destruct He as [<-|He]; [simpl in Hle; lia|]. exists e; tauto. }
      destruct (IH (Some (t, d)) time (conj Hinc E1) Hex) as [tr [dr [H1 [H2 H3]]]].
      exists tr, dr. split; [exact H1|]. split.
      + simpl in H2. apply in_or_app. right. exact H2.
      + intros e' He'. apply in_app_or in He'. destruct He' as [He'|He'].
        * destruct prev as [[tp dp]|]; simpl in He'; [|contradiction].
          destruct He' as [<-|[]]. simpl.
          destruct Hprev as [[Hlt _] _].
          specialize (H3 (t, d) (or_introl eq_refl)). simpl in H3. lia.
        * apply H3. simpl. exact He'.
    - apply Z.ltb_ge in E1.
      assert (forall e', In e' r -> t < fst e') as Hr.
      { intros e' He'. destruct prev as [[tp dp]|]; simpl in Hprev.
        - destruct Hprev as [[_ Hi] _]. eapply inc_from_lt; eassumption.
        - destruct Hprev as [Hi _]. eapply inc_from_lt; eassumption. }
      destruct (time =? t) eqn:E2.
      + apply Z.eqb_eq in E2. subst t. exists time, d. split; [reflexivity|].
        split; [apply in_or_app; right; left; reflexivity|].
        intros e' _. lia.
      + apply Z.eqb_neq in E2.
        destruct prev as [[tp dp]|]; simpl in Hprev.
        * destruct Hprev as [[Hlt Hi] Htp].
          destruct (time - tp <? t - time) eqn:E3.
          -- apply Z.ltb_lt in E3. exists tp, dp. split; [reflexivity|]. split; [left; reflexivity|].
             intros e' [<-|[<-|He']]; simpl; try lia. specialize (Hr _ He'). lia.
          -- apply Z.ltb_ge in E3. exists t, d. split; [reflexivity|]. split; [right; left; reflexivity|].
             intros e' [<-|[<-|He']]; simpl; try lia. specialize (Hr _ He'). lia.
        * destruct Hprev as [_ Hle0]. lia.
  Qed.

  Lemma last_time_In t0 (d0 : A) (r : hist A) : exists d, In (last_time t0 r, d) ((t0, d0) :: r).
  Proof.
    revert t0 d0. induction r as [|[t1 d1] r IH]; intros t0 d0.
    - exists d0. left. reflexivity.
    - rewrite last_time_cons. destruct (IH t1 d1) as [d H]. exists d. right. exact H.
  Qed.

  (** the full statement about [Output._interpolate] *)
  Theorem nearest (l : hist A) (t : Z) :
    increasing l ->
    match l with
    | [] => interpolate l t = ErrNoData
    | (t0, _) :: r =>
        (t < t0 \/ last_time t0 r < t -> interpolate l t = ErrTime)
        /\ (t0 <= t <= last_time t0 r ->
            exists tp d, In (tp, d) l /\ interpolate l t = Ok d
              /\ forall e, In e l -> Z.abs (tp - t) <= Z.abs (fst e - t))
    end.
  Proof.
    intros Hinc. destruct l as [|[t0 d0] r]; [reflexivity|].
    unfold interpolate. split.
    - intros H. destruct (t <? t0) eqn:E1; [reflexivity|]. apply Z.ltb_ge in E1.
      destruct (last_time t0 r <? t) eqn:E2; [reflexivity|]. apply Z.ltb_ge in E2. lia.
    - intros [H1 H2].
      replace (t <? t0) with false by (symmetry; apply Z.ltb_ge; lia).
      replace (last_time t0 r <? t) with false by (symmetry; apply Z.ltb_ge; lia).
      simpl orb. cbv iota.
      destruct (last_time_In t0 d0 r) as [dl Hl].
      destruct (interp_loop_nearest ((t0, d0) :: r) None t) as [tr [dr [Ha [Hb Hc]]]].
      + split; [exact Hinc|exact H1].
      + exists (last_time t0 r, dl). split; [exact Hl|simpl; lia].
      + exists tr, dr. simpl in Hb, Hc. auto.
  Qed.

  (** at an exact midpoint (and in every tie) the later publication is delivered: the result is
      the unique publication of minimal distance, later one on ties *)
  Lemma interp_loop_tie (l : hist A) : forall prev time d,
    match prev with Some (tp, _) => inc_from tp l /\ tp < time | None => increasing l end ->
    interp_loop prev l time = Ok d ->
    exists tr, In (tr, d) (opt_list prev ++ l)
      /\ forall e, In e (opt_list prev ++ l) -> Z.abs (fst e - time) = Z.abs (tr - time) -> fst e <= tr.
  Proof.
    induction l as [|[t d0] r IH]; intros prev time d Hprev Hres; [discriminate|].
    cbn [interp_loop] in Hres.
    assert (inc_from t r) as Hinc.
    { destruct prev as [[tp dp]|]; simpl in Hprev; tauto. }
    assert (forall e', In e' r -> t < fst e') as Hr.
    { intros e' He'. eapply inc_from_lt; eassumption. }
    destruct (t <? time) eqn:E1.
    - apply Z.ltb_lt in E1.
      destruct (IH (Some (t, d0)) time d (conj Hinc E1) Hres) as [tr [H2 H3]].
      exists tr. split; [apply in_or_app; right; exact H2|].
      intros e' He' Heq. apply in_app_or in He'. destruct He' as [He'|He']; [|apply H3; assumption].
      destruct prev as [[tp dp]|]; simpl in He'; [|contradiction]. destruct He' as [<-|[]]. simpl in *.
      destruct Hprev as [[Hlt _] _].
      simpl in H2. destruct H2 as [[= <- <-]|H2]; [lia|]. specialize (Hr _ H2). simpl in Hr. lia.
    - apply Z.ltb_ge in E1. destruct (time =? t) eqn:E2.
      + apply Z.eqb_eq in E2. subst t. injection Hres as <-. exists time. split; [apply in_or_app; right; left; reflexivity|].
        intros e' He' Heq. lia.
      + apply Z.eqb_neq in E2. destruct prev as [[tp dp]|]; [|discriminate].
        simpl in Hprev. destruct Hprev as [[Hlt Hi] Htp].
        destruct (time - tp <? t - time) eqn:E3; injection Hres as <-.
        * apply Z.ltb_lt in E3. exists tp. split; [left; reflexivity|].
          intros e' [<-|[<-|He']] Heq; simpl in *; try lia. specialize (Hr _ He'). lia.
        * apply Z.ltb_ge in E3. exists t. split; [right; left; reflexivity|].
          intros e' [<-|[<-|He']] Heq; simpl in *; try lia.
  Qed.
End Nearest.


(* ================================================================== *)
(** * Part 2: the memory-sharing rule of [Output.push_data] *)
Section Sharing.
  Open Scope Z_scope.

  Lemma last_entry_app (h : hist entry) t e : last_entry (h ++ [(t, e)]) = Some e.
  Proof.
    induction h as [|[t0 e0] r IH]; [reflexivity|].
    simpl app. cbn [last_entry]. destruct (r ++ [(t, e)]) eqn:E; [destruct r; discriminate|].
    exact IH.
  Qed.

  Lemma last_entry_evict m (h : hist entry) : last_entry (evict m h) = last_entry h.
  Proof.
    induction h as [|[t0 e0] r IH]; [reflexivity|].
    cbn [evict]. destruct r as [|[t1 e1] r']; [reflexivity|].
    destruct (t1 <=? m); [|reflexivity]. rewrite IH. reflexivity.
  Qed.

  (** pulls (including the eviction they trigger) never change which publication is the newest one *)
  Lemma lpull_last g u (s : lstate) t : last_entry (st_hist (fst (lpull g u s t))) = last_entry (st_hist s).
  Proof.
    unfold lpull, get_data.
    destruct (interpolate (st_hist s) t) as [e| |]; simpl; try reflexivity.
    unfold clear_data. destruct (conn_min _); simpl; [apply last_entry_evict|reflexivity].
  Qed.

  (** which memory the prepared publication lives in *)
  Lemma prepare_buf inf p e : prepare inf p = POk e ->
    e_buf e = match p_units p with
              | Some u => if equivalent u (i_units inf) then p_buf p else None
              | None => p_buf p
              end.
  Proof.
    unfold prepare, shape_phase.
    destruct (p_units p) as [u|].
    - destruct (compatible u (i_units inf)); simpl; [|discriminate].
      destruct (mask_ok (i_mask inf) (p_arr p)) eqn:Em; simpl; [|discriminate].
      destruct (equivalent u (i_units inf)).
      + simpl. destruct (check_shape _ _); [|discriminate]. intros [= <-]. reflexivity.
      + destruct (mask_ok _ _); simpl; [|discriminate]. destruct (check_shape _ _); [|discriminate]. intros [= <-]. reflexivity.
    - destruct (mask_ok _ _); simpl; [|discriminate]. destruct (check_shape _ _); [|discriminate]. intros [= <-]. reflexivity.
  Qed.

  Theorem sharing_rule inf (s : lstate) t p e :
    prepare inf p = POk e ->
    (forall e0, last_entry (st_hist s) = Some e0 -> shares (e_buf e0) (e_buf e) = true ->
       lpush inf s t p = (s, Some EData))
    /\ ((forall e0, last_entry (st_hist s) = Some e0 -> shares (e_buf e0) (e_buf e) = false) ->
        lpush inf s t p = (push s t e, None) /\ last_entry (st_hist (push s t e)) = Some e).
  Proof.
    intros Hp. unfold lpush. rewrite Hp. split.
    - intros e0 H0 Hs. rewrite H0, Hs. reflexivity.
    - intros H. split; [|apply last_entry_app].
      destruct (last_entry (st_hist s)) as [e0|]; [|reflexivity]. rewrite (H e0 eq_refl). reflexivity.
  Qed.

  (** identity tokens: a non-empty buffer shares memory with itself and with every overlapping window
      of the same allocation; buffers of different allocations, disjoint windows and memory
      allocated by [prepare] never share *)
  Lemma shares_spec b1 b2 : shares b1 b2 = true <->
    exists i lo hi lo' hi', b1 = Some (i, lo, hi) /\ b2 = Some (i, lo', hi') /\ lo < hi' /\ lo' < hi.
  Proof.
    unfold shares. destruct b1 as [[[i lo] hi]|], b2 as [[[j lo'] hi']|]; split;
      try discriminate; try (intros [? [? [? [? [? [? [? _]]]]]]]; discriminate).
    - intros H. apply andb_prop in H. destruct H as [H H3]. apply andb_prop in H. destruct H as [H1 H2].
      apply Nat.eqb_eq in H1. subst j. exists i, lo, hi, lo', hi'. repeat split; lia.
    - intros [i0 [a [b [a' [b' [[= -> -> ->] [[= -> -> ->] [H1 H2]]]]]]]].
      rewrite Nat.eqb_refl. simpl. apply andb_true_intro. split; lia.
  Qed.

  Lemma shares_self i lo hi : lo < hi -> shares (Some (i, lo, hi)) (Some (i, lo, hi)) = true.
  Proof. intros H. apply shares_spec. exists i, lo, hi, lo, hi. repeat split; assumption. Qed.
End Sharing.


(* ================================================================== *)
(** * Part 3: payload normalisation *)
Section Index.
  Open Scope nat_scope.

  Definition in_range (idx sh : list nat) : Prop := Forall2 lt idx sh.
  Definition positive (sh : list nat) : Prop := Forall (fun d => 0 < d) sh.

  Lemma prod_pos sh : positive sh -> 0 < prod sh.
  Proof. induction 1 as [|d r Hd _ IH]; simpl; [lia|nia]. Qed.

  Lemma flatC_lt sh : forall idx, in_range idx sh -> flatC sh idx < prod sh.
  Proof.
    induction sh as [|d r IH]; intros idx H; inversion H as [|i d' ir r' Hi Hr]; subst; simpl; [lia|].
    specialize (IH _ Hr). nia.
  Qed.

  Lemma unflatC_flatC sh : forall idx, in_range idx sh -> unflatC sh (flatC sh idx) = idx.
  Proof.
    induction sh as [|d r IH]; intros idx H; inversion H as [|i d' ir r' Hi Hr]; subst; simpl; [reflexivity|].
    pose proof (flatC_lt _ _ Hr) as Hlt.
    assert ((i * prod r + flatC r ir) / prod r = i) as ->.
    { symmetry. apply (Nat.div_unique _ _ _ (flatC r ir)); [assumption|lia]. }
    assert ((i * prod r + flatC r ir) mod prod r = flatC r ir) as ->.
    { symmetry. apply (Nat.mod_unique _ _ i); [assumption|lia]. }
    rewrite (IH _ Hr). reflexivity.
  Qed.

  Lemma nth_map_seq {X : Type} (f : nat -> X) n p d : p < n -> nth p (map f (seq 0 n)) d = f p.
  Proof.
    intros H. rewrite (nth_indep _ d (f 0)) by (rewrite map_length, seq_length; assumption).
    rewrite map_nth. rewrite seq_nth by assumption. reflexivity.
  Qed.

  (** [flat.reshape(sh, order="F")[idx] = flat[flatF sh idx]] *)
  Lemma permF_nth {X : Type} sh (l : list X) d idx :
    in_range idx sh -> nth (flatC sh idx) (permF sh l d) d = nth (flatF sh idx) l d.
  Proof.
    intros H. unfold permF. rewrite nth_map_seq by (apply flatC_lt; assumption).
    rewrite unflatC_flatC by assumption. reflexivity.
  Qed.

  Lemma permF_length {X : Type} sh (l : list X) d : length (permF sh l d) = prod sh.
  Proof. unfold permF. rewrite map_length, seq_length. reflexivity. Qed.

  Lemma list_eqb_nat_eq (a b : list nat) : list_eqb Nat.eqb a b = true <-> a = b.
  Proof.
    revert b; induction a as [|x a IH]; intros [|y b]; simpl; split; try discriminate; try reflexivity.
    - intros H. apply andb_prop in H. destruct H as [H1 H2]. apply Nat.eqb_eq in H1. apply IH in H2. congruence.
    - intros [= -> ->]. rewrite Nat.eqb_refl. simpl. apply IH. reflexivity.
  Qed.

  Lemma list_eqb_nat_neq (a b : list nat) : a <> b -> list_eqb Nat.eqb a b = false.
  Proof. intros H. destruct (list_eqb Nat.eqb a b) eqn:E; [|reflexivity]. apply list_eqb_nat_eq in E. contradiction. Qed.
End Index.

Section Shape.
  Open Scope nat_scope.

  (** the payload forms of the property text *)
  Inductive form := FShaped | FTimed | FFlat | FStacked (k : nat).

  Definition wf_grid (g : gridspec) : Prop :=
    match g with GStruct ds _ => ds <> [] /\ positive ds | GNo _ => True end.

  (** declarative acceptance rule *)
  Definition has_form (g : gridspec) (sh : list nat) (f : form) : Prop :=
    match g, f with
    | GNo dsh, FShaped => shape_valid sh dsh = true        (* rank of the grid, fixed axes agree *)
    | GNo dsh, FTimed => exists cell, sh = 1 :: cell /\ shape_valid cell dsh = true
    | GStruct ds _, FShaped => sh = ds
    | GStruct ds _, FTimed => sh = 1 :: ds
    | GStruct ds _, FFlat => sh = [prod ds]
    | GStruct ds _, FStacked k => 2 <= k /\ sh = k :: ds   (* k time entries at once *)
    | _, _ => False
    end.

  Definition form_k (f : form) : nat := match f with FStacked k => k | _ => 1 end.
  (** the shape of one time entry *)
  Definition cell (g : gridspec) (sh : list nat) (f : form) : list nat :=
    match g with
    | GStruct ds _ => ds
    | GNo _ => match f with FShaped => sh | _ => tl sh end
    end.
  (** position (in the payload's C-order element list) of the value that belongs to entry [j], cell [idx] *)
  Definition src_pos (g : gridspec) (f : form) (sh : list nat) (j : nat) (idx : list nat) : nat :=
    match f with
    | FShaped => flatC sh idx
    | FTimed | FStacked _ => flatC sh (j :: idx)
    | FFlat => if grid_orderF g then flatF (grid_ds g) idx else flatC (grid_ds g) idx
    end.
  Definition form_layout (g : gridspec) (f : form) : layout :=
    match g, f with
    | GStruct ds _, FShaped => if Nat.eqb (length ds) 1 then LReshape 1 else LExpand
    | GStruct _ _, FFlat => LReshape 1
    | GNo _, FShaped => LExpand
    | _, _ => LKeep
    end.

  Lemma shape_valid_length sh dsh : shape_valid sh dsh = true -> length sh = length dsh.
  Proof.
    revert dsh; induction sh as [|d r IH]; intros [|o r']; simpl; try discriminate; [reflexivity|].
    intros H. apply andb_prop in H. destruct H as [_ H]. f_equal. apply IH. exact H.
  Qed.

  (** every payload form of the domain is accepted ... *)
  Lemma form_accepted g sh f : wf_grid g -> has_form g sh f -> check_shape g sh = Some (form_layout g f).
  Proof.
    intros Hwf Hf. destruct g as [dsh|ds o]; simpl in Hf.
    - destruct f; try contradiction; unfold check_shape, form_layout.
      + pose proof (shape_valid_length _ _ Hf) as Hl. rewrite Hl.
        replace (Nat.eqb (length dsh) (S (length dsh))) with false by (symmetry; apply Nat.eqb_neq; lia).
        simpl. rewrite Hf. reflexivity.
      + destruct Hf as [c [-> Hc]]. pose proof (shape_valid_length _ _ Hc) as Hl. simpl length. rewrite Hl.
        rewrite Nat.eqb_refl. simpl. rewrite Hc. reflexivity.
    - destruct Hwf as [Hne Hpos]. pose proof (prod_pos _ Hpos) as Hp.
      assert (1 <= length ds) as Hlen by (destruct ds; [contradiction|simpl; lia]).
      unfold check_shape, form_layout. destruct f; simpl in Hf.
      + (* shaped *) subst sh.
        replace (Nat.eqb (length ds) (S (length ds))) with false by (symmetry; apply Nat.eqb_neq; lia).
        rewrite Nat.mod_1_r, Nat.div_1_r, !Nat.eqb_refl. simpl.
        destruct (Nat.eqb (length ds) 1) eqn:E1; simpl; [reflexivity|].
        rewrite list_eqb_nat_neq.
        * rewrite (proj2 (list_eqb_nat_eq ds ds) eq_refl). reflexivity.
        * intros H. apply (f_equal (@length nat)) in H. destruct ds; simpl in *; lia.
      + (* time axis *) subst sh. simpl length. rewrite Nat.eqb_refl. simpl hd.
        assert (prod (1 :: ds) = prod ds) as -> by (simpl; lia).
        rewrite Nat.mod_1_r, Nat.div_1_r, !Nat.eqb_refl. simpl.
        replace (Nat.eqb (length ds) 0) with false by (symmetry; apply Nat.eqb_neq; lia). simpl.
        rewrite (proj2 (list_eqb_nat_eq ds ds) eq_refl). reflexivity.
      + (* flat *) subst sh. simpl length.
        replace (Nat.eqb 1 (S (length ds))) with false by (symmetry; apply Nat.eqb_neq; lia).
        assert (prod [prod ds] = prod ds) as -> by (simpl; lia).
        rewrite Nat.mod_1_r, Nat.div_1_r, !Nat.eqb_refl. simpl. reflexivity.
      + (* stacked *) destruct Hf as [Hk ->]. simpl length. rewrite Nat.eqb_refl. simpl hd.
        assert (prod (k :: ds) = prod ds * k) as -> by (simpl; lia).
        rewrite Nat.mod_mul, Nat.div_mul by lia. rewrite !Nat.eqb_refl. simpl.
        replace (Nat.eqb (length ds) 0) with false by (symmetry; apply Nat.eqb_neq; lia). simpl.
        rewrite (proj2 (list_eqb_nat_eq ds ds) eq_refl). reflexivity.
  Qed.

  (** ... and nothing else is *)
  Lemma accepted_form g sh lay : wf_grid g -> check_shape g sh = Some lay -> exists f, has_form g sh f.
  Proof.
    intros Hwf H. destruct g as [dsh|ds o]; unfold check_shape in H.
    - destruct (Nat.eqb (length sh) (S (length dsh))) eqn:E; simpl in H.
      + destruct (shape_valid (tl sh) dsh) eqn:Ev; simpl in H; [|discriminate].
        destruct (Nat.eqb (hd 0 sh) 1) eqn:Eh; simpl in H; [|discriminate].
        destruct sh as [|h c]; [simpl in E; discriminate|]. simpl in Eh, Ev. apply Nat.eqb_eq in Eh. subst h.
        exists FTimed. simpl. exists c. split; [reflexivity|assumption].
      + destruct (shape_valid sh dsh) eqn:Ev; [|discriminate]. exists FShaped. exact Ev.
    - destruct Hwf as [Hne Hpos]. pose proof (prod_pos _ Hpos) as Hp.
      assert (1 <= length ds) as Hlen by (destruct ds; [contradiction|simpl; lia]).
      set (te := if Nat.eqb (length sh) (S (length ds)) then hd 1 sh else 1) in H.
      destruct (Nat.eqb (prod sh mod te) 0 && Nat.eqb (prod sh / te) (prod ds)) eqn:Ec; simpl in H; [|discriminate].
      apply andb_prop in Ec. destruct Ec as [Ec1 Ec2]. apply Nat.eqb_eq in Ec1, Ec2.
      destruct (Nat.eqb (length sh) 1) eqn:E1; simpl in H.
      + (* 1-d payload: flat *)
        apply Nat.eqb_eq in E1. destruct sh as [|n [|]]; try discriminate.
        assert (te = 1) as Hte.
        { unfold te. simpl length. replace (Nat.eqb 1 (S (length ds))) with false by (symmetry; apply Nat.eqb_neq; lia). reflexivity. }
        rewrite Hte, Nat.div_1_r in Ec2. simpl in Ec2. exists FFlat. simpl. f_equal. lia.
      + destruct (list_eqb Nat.eqb (tl sh) ds) eqn:Et.
        * apply list_eqb_nat_eq in Et. destruct sh as [|h c]; [simpl in Et; congruence|]. simpl in Et. subst c.
          assert (te = h) as Hte by (unfold te; simpl length; rewrite Nat.eqb_refl; reflexivity).
          rewrite Hte in Ec1, Ec2.
          destruct h as [|[|h]].
          -- simpl in Ec2. lia.
          -- exists FTimed. reflexivity.
          -- exists (FStacked (S (S h))). simpl. split; [lia|reflexivity].
        * destruct (list_eqb Nat.eqb sh ds) eqn:Es; [|discriminate]. apply list_eqb_nat_eq in Es. exists FShaped. exact Es.
  Qed.

  Lemma tl_in_range_length idx sh : in_range idx sh -> length idx = length sh.
  Proof. induction 1; simpl; congruence. Qed.

  (** where every element ends up: the array after the layout step has shape [k :: cell] and its
      element [j, idx] is the payload element at [src_pos] *)
  Lemma layout_elems {X : Type} g sh f (l : list X) d j idx :
    wf_grid g -> has_form g sh f -> j < form_k f -> in_range idx (cell g sh f) ->
    lay_shape g (form_layout g f) sh = form_k f :: cell g sh f
    /\ nth (flatC (form_k f :: cell g sh f) (j :: idx)) (lay_list g (form_layout g f) l d) d
       = nth (src_pos g f sh j idx) l d.
  Proof.
    intros Hwf Hf Hj Hi. destruct g as [dsh|ds o]; simpl in Hf.
    - destruct f; try contradiction; simpl in *.
      + assert (j = 0) as -> by lia. split; [reflexivity|]. f_equal.
      + destruct Hf as [c [-> Hc]]. assert (j = 0) as -> by lia. simpl in *. split; reflexivity.
    - destruct Hwf as [Hne Hpos]. destruct f; simpl in Hf, Hj, Hi; simpl cell; simpl form_k.
      + (* shaped *) subst sh. assert (j = 0) as -> by lia. unfold form_layout.
        destruct (Nat.eqb (length ds) 1) eqn:E1.
        * apply Nat.eqb_eq in E1. destruct ds as [|n [|]]; try discriminate.
          inversion Hi as [|i n' ir r' Hin Hr]; subst. inversion Hr; subst.
          split; [reflexivity|]. unfold lay_list, src_pos. simpl grid_orderF. simpl grid_ds.
          destruct o.
          -- rewrite permF_nth by (repeat constructor; assumption). f_equal. simpl. lia.
          -- f_equal.
        * split; [reflexivity|]. simpl. f_equal.
      + (* time axis *) subst sh. assert (j = 0) as -> by lia. split; reflexivity.
      + (* flat *) subst sh. assert (j = 0) as -> by lia. split; [reflexivity|].
        unfold form_layout, lay_list, src_pos. simpl grid_orderF. simpl grid_ds. destruct o.
        * rewrite permF_nth by (constructor; [lia|assumption]). f_equal. simpl. lia.
        * f_equal. simpl. lia.
      + (* stacked *) destruct Hf as [Hk ->]. split; reflexivity.
  Qed.

  Lemma layout_length {X : Type} g sh f (l : list X) d :
    wf_grid g -> has_form g sh f -> length l = prod sh ->
    length (lay_list g (form_layout g f) l d) = prod (lay_shape g (form_layout g f) sh).
  Proof.
    intros Hwf Hf Hl. destruct g as [dsh|ds o]; simpl in Hf.
    - destruct f; try contradiction; simpl; lia.
    - destruct f; simpl in Hf; unfold form_layout.
      + subst sh. destruct (Nat.eqb (length ds) 1) eqn:E1; [|simpl; lia].
        unfold lay_list, lay_shape. simpl grid_orderF. simpl grid_ds. destruct o; [apply permF_length|simpl; lia].
      + simpl. lia.
      + subst sh. unfold lay_list, lay_shape. simpl grid_orderF. simpl grid_ds. destruct o; [apply permF_length|simpl in *; lia].
      + simpl. lia.
  Qed.
End Shape.
