(** Proofs about the link data model (property C08): nearest-publication selection,
    payload normalisation / unit conversion / mask, memory-sharing rule. *)
From Coq Require Import List ZArith QArith Qabs Bool Arith Lia Lqa.
From FV Require Import Base OutputM LinkData.
From FVP Require Import OutputM_proofs.
Import ListNotations.

(* ================================================================== *)
(** * Part 1: nearest publication *)
Section Nearest.
  Context {A : Type}.
  Open Scope Z_scope.

  Definition opt_list (p : option (Z * A)) : list (Z * A) :=
    match p with Some e => [e] | None => [] end.

  Lemma interp_loop_nearest (l : hist A) : forall prev time,
    match prev with
    | Some (tp, _) => inc_from tp l /\ tp < time
    | None => increasing l /\ match l with (t0, _) :: _ => t0 <= time | [] => True end
    end ->
    (exists e, In e l /\ time <= fst e) ->
    exists tr dr, interp_loop prev l time = Ok dr /\ In (tr, dr) (opt_list prev ++ l)
      /\ forall e, In e (opt_list prev ++ l) -> Z.abs (tr - time) <= Z.abs (fst e - time).
  Proof.
    induction l as [|[t d] r IH]; intros prev time Hprev [e [He Hle]]; [contradiction|].
    cbn [interp_loop].
    destruct (t <? time) eqn:E1.
    - (* skip this entry *)
      apply Z.ltb_lt in E1.
      assert (inc_from t r) as Hinc.
      { destruct prev as [[tp dp]|]; simpl in Hprev; tauto. }
      assert (exists e, In e r /\ time <= fst e) as Hex.
      { destruct He as [<-|He]; [simpl in Hle; lia|]. exists e; tauto. }
      destruct (IH (Some (t, d)) time (conj Hinc E1) Hex) as [tr [dr [H1 [H2 H3]]]].
      exists tr, dr. split; [exact H1|]. split.
      + simpl in H2. apply in_or_app. right. exact H2.
      + intros e' He'. apply in_app_or in He'. destruct He' as [He'|He'].
        * destruct prev as [[tp dp]|]; simpl in He'; [|contradiction].
          destruct He' as [<-|[]]. simpl.
          destruct Hprev as [[Hlt _] _].
          specialize (H3 (t, d) (or_introl eq_refl)). simpl in H3. lia.
        * apply H3. simpl. exact He'.
    - apply Z.ltb_ge in E1.
      assert (forall e', In e' r -> t < fst e') as Hr.
      { intros e' He'. destruct prev as [[tp dp]|]; simpl in Hprev.
        - destruct Hprev as [[_ Hi] _]. eapply inc_from_lt; eassumption.
        - destruct Hprev as [Hi _]. eapply inc_from_lt; eassumption. }
      destruct (time =? t) eqn:E2.
      + apply Z.eqb_eq in E2. subst t. exists time, d. split; [reflexivity|].
        split; [apply in_or_app; right; left; reflexivity|].
        intros e' _. lia.
      + apply Z.eqb_neq in E2.
        destruct prev as [[tp dp]|]; simpl in Hprev.
        * destruct Hprev as [[Hlt Hi] Htp].
          destruct (time - tp <? t - time) eqn:E3.
          -- apply Z.ltb_lt in E3. exists tp, dp. split; [reflexivity|]. split; [left; reflexivity|].
             intros e' [<-|[<-|He']]; simpl; try lia. specialize (Hr _ He'). lia.
          -- apply Z.ltb_ge in E3. exists t, d. split; [reflexivity|]. split; [right; left; reflexivity|].
             intros e' [<-|[<-|He']]; simpl; try lia. specialize (Hr _ He'). lia.
        * destruct Hprev as [_ Hle0]. lia.
  Qed.

  Lemma last_time_In t0 (d0 : A) (r : hist A) : exists d, In (last_time t0 r, d) ((t0, d0) :: r).
  Proof.
    revert t0 d0. induction r as [|[t1 d1] r IH]; intros t0 d0.
    - exists d0. left. reflexivity.
    - rewrite last_time_cons. destruct (IH t1 d1) as [d H]. exists d. right. exact H.
  Qed.

  (** the full statement about [Output._interpolate] *)
  Theorem nearest (l : hist A) (t : Z) :
    increasing l ->
    match l with
    | [] => interpolate l t = ErrNoData
    | (t0, _) :: r =>
        (t < t0 \/ last_time t0 r < t -> interpolate l t = ErrTime)
        /\ (t0 <= t <= last_time t0 r ->
            exists tp d, In (tp, d) l /\ interpolate l t = Ok d
              /\ forall e, In e l -> Z.abs (tp - t) <= Z.abs (fst e - t))
    end.
  Proof.
    intros Hinc. destruct l as [|[t0 d0] r]; [reflexivity|].
    unfold interpolate. split.
    - intros H. destruct (t <? t0) eqn:E1; [reflexivity|]. apply Z.ltb_ge in E1.
      destruct (last_time t0 r <? t) eqn:E2; [reflexivity|]. apply Z.ltb_ge in E2. lia.
    - intros [H1 H2].
      replace (t <? t0) with false by (symmetry; apply Z.ltb_ge; lia).
      replace (last_time t0 r <? t) with false by (symmetry; apply Z.ltb_ge; lia).
      simpl orb. cbv iota.
      destruct (last_time_In t0 d0 r) as [dl Hl].
      destruct (interp_loop_nearest ((t0, d0) :: r) None t) as [tr [dr [Ha [Hb Hc]]]].
      + split; [exact Hinc|exact H1].
      + exists (last_time t0 r, dl). split; [exact Hl|simpl; lia].
      + exists tr, dr. simpl in Hb, Hc. auto.
  Qed.

  (** at an exact midpoint (and in every tie) the later publication is delivered: the result is
      the unique publication of minimal distance, later one on ties *)
  Lemma interp_loop_tie (l : hist A) : forall prev time d,
    match prev with Some (tp, _) => inc_from tp l /\ tp < time | None => increasing l end ->
    interp_loop prev l time = Ok d ->
    exists tr, In (tr, d) (opt_list prev ++ l)
      /\ forall e, In e (opt_list prev ++ l) -> Z.abs (fst e - time) = Z.abs (tr - time) -> fst e <= tr.
  Proof.
    induction l as [|[t d0] r IH]; intros prev time d Hprev Hres; [discriminate|].
    cbn [interp_loop] in Hres.
    assert (inc_from t r) as Hinc.
    { destruct prev as [[tp dp]|]; simpl in Hprev; tauto. }
    assert (forall e', In e' r -> t < fst e') as Hr.
    { intros e' He'. eapply inc_from_lt; eassumption. }
    destruct (t <? time) eqn:E1.
    - apply Z.ltb_lt in E1.
      destruct (IH (Some (t, d0)) time d (conj Hinc E1) Hres) as [tr [H2 H3]].
      exists tr. split; [apply in_or_app; right; exact H2|].
      intros e' He' Heq. apply in_app_or in He'. destruct He' as [He'|He']; [|apply H3; assumption].
      destruct prev as [[tp dp]|]; simpl in He'; [|contradiction]. destruct He' as [<-|[]]. simpl in *.
      destruct Hprev as [[Hlt _] _].
      simpl in H2. destruct H2 as [[= <- <-]|H2]; [lia|]. specialize (Hr _ H2). simpl in Hr. lia.
    - apply Z.ltb_ge in E1. destruct (time =? t) eqn:E2.
      + apply Z.eqb_eq in E2. subst t. injection Hres as <-. exists time. split; [apply in_or_app; right; left; reflexivity|].
        intros e' He' Heq. lia.
      + apply Z.eqb_neq in E2. destruct prev as [[tp dp]|]; [|discriminate].
        simpl in Hprev. destruct Hprev as [[Hlt Hi] Htp].
        destruct (time - tp <? t - time) eqn:E3; injection Hres as <-.
        * apply Z.ltb_lt in E3. exists tp. split; [left; reflexivity|].
          intros e' [<-|[<-|He']] Heq; simpl in *; try lia. specialize (Hr _ He'). lia.
        * apply Z.ltb_ge in E3. exists t. split; [right; left; reflexivity|].
          intros e' [<-|[<-|He']] Heq; simpl in *; try lia.
  Qed.
End Nearest.


(* ================================================================== *)
(** * Part 2: the memory-sharing rule of [Output.push_data] *)
Section Sharing.
  Open Scope Z_scope.

  Lemma last_entry_app (h : hist entry) t e : last_entry (h ++ [(t, e)]) = Some e.
  Proof.
    induction h as [|[t0 e0] r IH]; [reflexivity|].
    simpl app. cbn [last_entry]. destruct (r ++ [(t, e)]) eqn:E; [destruct r; discriminate|].
    exact IH.
  Qed.

  Lemma last_entry_evict m (h : hist entry) : last_entry (evict m h) = last_entry h.
  Proof.
    induction h as [|[t0 e0] r IH]; [reflexivity|].
    cbn [evict]. destruct r as [|[t1 e1] r']; [reflexivity|].
    destruct (t1 <=? m); [|reflexivity]. rewrite IH. reflexivity.
  Qed.

  (** pulls (including the eviction they trigger) never change which publication is the newest one *)
  Lemma lpull_last g tr u (s : lstate) k t : last_entry (st_hist (fst (lpull g tr u s k t))) = last_entry (st_hist s).
  Proof.
    unfold lpull, get_data.
    destruct (interpolate (st_hist s) t) as [e| |]; simpl; try reflexivity.
    unfold clear_data. destruct (conn_min _); simpl; [apply last_entry_evict|reflexivity].
  Qed.

  (** which memory the prepared publication lives in *)
  Lemma prepare_buf inf p e : prepare inf p = POk e ->
    e_buf e = match p_units p with
              | Some u => if equivalent u (i_units inf) then p_buf p else None
              | None => p_buf p
              end.
  Proof.
    unfold prepare, shape_phase.
    destruct (p_units p) as [u|].
    - destruct (compatible u (i_units inf)); simpl; [|discriminate].
      destruct (mask_ok (i_mask inf) (p_arr p)) eqn:Em; simpl; [|discriminate].
      destruct (equivalent u (i_units inf)).
      + simpl. destruct (check_shape _ _); [|discriminate]. intros [= <-]. reflexivity.
      + destruct (mask_ok _ _); simpl; [|discriminate]. destruct (check_shape _ _); [|discriminate]. intros [= <-]. reflexivity.
    - destruct (mask_ok _ _); simpl; [|discriminate]. destruct (check_shape _ _); [|discriminate]. intros [= <-]. reflexivity.
  Qed.

  Theorem sharing_rule inf (s : lstate) t p e :
    prepare inf p = POk e ->
    (forall e0, last_entry (st_hist s) = Some e0 -> shares (e_buf e0) (e_buf e) = true ->
       lpush inf s t p = (s, Some EData))
    /\ ((forall e0, last_entry (st_hist s) = Some e0 -> shares (e_buf e0) (e_buf e) = false) ->
        lpush inf s t p = (push s t e, None) /\ last_entry (st_hist (push s t e)) = Some e).
  Proof.
    intros Hp. unfold lpush. rewrite Hp. split.
    - intros e0 H0 Hs. rewrite H0, Hs. reflexivity.
    - intros H. split; [|apply last_entry_app].
      destruct (last_entry (st_hist s)) as [e0|]; [|reflexivity]. rewrite (H e0 eq_refl). reflexivity.
  Qed.

  (** identity tokens: a non-empty buffer shares memory with itself and with every overlapping window
      of the same allocation; buffers of different allocations, disjoint windows and memory
      allocated by [prepare] never share *)
  Lemma shares_spec b1 b2 : shares b1 b2 = true <->
    exists i lo hi lo' hi', b1 = Some (i, lo, hi) /\ b2 = Some (i, lo', hi') /\ lo < hi' /\ lo' < hi.
  Proof.
    unfold shares. destruct b1 as [[[i lo] hi]|], b2 as [[[j lo'] hi']|]; split;
      try discriminate; try (intros [? [? [? [? [? [? [? _]]]]]]]; discriminate).
    - intros H. apply andb_prop in H. destruct H as [H H3]. apply andb_prop in H. destruct H as [H1 H2].
      apply Nat.eqb_eq in H1. subst j. exists i, lo, hi, lo', hi'. repeat split; lia.
    - intros [i0 [a [b [a' [b' [[= -> -> ->] [[= -> -> ->] [H1 H2]]]]]]]].
      rewrite Nat.eqb_refl. simpl. apply andb_true_intro. split; lia.
  Qed.

  Lemma shares_self i lo hi : lo < hi -> shares (Some (i, lo, hi)) (Some (i, lo, hi)) = true.
  Proof. intros H. apply shares_spec. exists i, lo, hi, lo, hi. repeat split; assumption. Qed.
End Sharing.


(* ================================================================== *)
(** * Part 3: payload normalisation *)
Section Index.
  Open Scope nat_scope.

  Definition in_range (idx sh : list nat) : Prop := Forall2 lt idx sh.
  Definition positive (sh : list nat) : Prop := Forall (fun d => 0 < d) sh.

  Lemma prod_pos sh : positive sh -> 0 < prod sh.
  Proof. induction 1 as [|d r Hd _ IH]; simpl; [lia|nia]. Qed.

  Lemma flatC_lt sh : forall idx, in_range idx sh -> flatC sh idx < prod sh.
  Proof.
    induction sh as [|d r IH]; intros idx H; inversion H as [|i d' ir r' Hi Hr]; subst; simpl; [lia|].
    specialize (IH _ Hr). nia.
  Qed.

  Lemma unflatC_flatC sh : forall idx, in_range idx sh -> unflatC sh (flatC sh idx) = idx.
  Proof.
    induction sh as [|d r IH]; intros idx H; inversion H as [|i d' ir r' Hi Hr]; subst; simpl; [reflexivity|].
    pose proof (flatC_lt _ _ Hr) as Hlt.
    assert ((i * prod r + flatC r ir) / prod r = i) as ->.
    { symmetry. apply (Nat.div_unique _ _ _ (flatC r ir)); [assumption|lia]. }
    assert ((i * prod r + flatC r ir) mod prod r = flatC r ir) as ->.
    { symmetry. apply (Nat.mod_unique _ _ i); [assumption|lia]. }
    rewrite (IH _ Hr). reflexivity.
  Qed.

  Lemma nth_map_seq {X : Type} (f : nat -> X) n p d : p < n -> nth p (map f (seq 0 n)) d = f p.
  Proof.
    intros H. rewrite (nth_indep _ d (f 0)) by (rewrite map_length, seq_length; assumption).
    rewrite map_nth. rewrite seq_nth by assumption. reflexivity.
  Qed.

  (** [flat.reshape(sh, order="F")[idx] = flat[flatF sh idx]] *)
  Lemma permF_nth {X : Type} sh (l : list X) d idx :
    in_range idx sh -> nth (flatC sh idx) (permF sh l d) d = nth (flatF sh idx) l d.
  Proof.
    intros H. unfold permF. rewrite nth_map_seq by (apply flatC_lt; assumption).
    rewrite unflatC_flatC by assumption. reflexivity.
  Qed.

  Lemma permF_length {X : Type} sh (l : list X) d : length (permF sh l d) = prod sh.
  Proof. unfold permF. rewrite map_length, seq_length. reflexivity. Qed.

  Lemma list_eqb_nat_eq (a b : list nat) : list_eqb Nat.eqb a b = true <-> a = b.
  Proof.
    revert b; induction a as [|x a IH]; intros [|y b]; simpl; split; try discriminate; try reflexivity.
    - intros H. apply andb_prop in H. destruct H as [H1 H2]. apply Nat.eqb_eq in H1. apply IH in H2. congruence.
    - intros [= -> ->]. rewrite Nat.eqb_refl. simpl. apply IH. reflexivity.
  Qed.

  Lemma list_eqb_nat_neq (a b : list nat) : a <> b -> list_eqb Nat.eqb a b = false.
  Proof. intros H. destruct (list_eqb Nat.eqb a b) eqn:E; [|reflexivity]. apply list_eqb_nat_eq in E. contradiction. Qed.
End Index.

Section Shape.
  Open Scope nat_scope.

  (** the payload forms of the property text *)
  Inductive form := FShaped | FTimed | FFlat | FStacked (k : nat).

  Definition wf_grid (g : gridspec) : Prop :=
    match g with GStruct ds _ => ds <> [] /\ positive ds | GNo _ => True end.

  (** declarative acceptance rule *)
  Definition has_form (g : gridspec) (sh : list nat) (f : form) : Prop :=
    match g, f with
    | GNo dsh, FShaped => shape_valid sh dsh = true        (* rank of the grid, fixed axes agree *)
    | GNo dsh, FTimed => exists cell, sh = 1 :: cell /\ shape_valid cell dsh = true
    | GStruct ds _, FShaped => sh = ds
    | GStruct ds _, FTimed => sh = 1 :: ds
    | GStruct ds _, FFlat => sh = [prod ds]
    | GStruct ds _, FStacked k => 2 <= k /\ sh = k :: ds   (* k time entries at once *)
    | _, _ => False
    end.

  Definition form_k (f : form) : nat := match f with FStacked k => k | _ => 1 end.
  (** the shape of one time entry *)
  Definition cell (g : gridspec) (sh : list nat) (f : form) : list nat :=
    match g with
    | GStruct ds _ => ds
    | GNo _ => match f with FShaped => sh | _ => tl sh end
    end.
  (** position (in the payload's C-order element list) of the value that belongs to entry [j], cell [idx] *)
  Definition src_pos (g : gridspec) (f : form) (sh : list nat) (j : nat) (idx : list nat) : nat :=
    match f with
    | FShaped => flatC sh idx
    | FTimed | FStacked _ => flatC sh (j :: idx)
    | FFlat => if grid_orderF g then flatF (grid_ds g) idx else flatC (grid_ds g) idx
    end.
  Definition form_layout (g : gridspec) (f : form) : layout :=
    match g, f with
    | GStruct ds _, FShaped => if Nat.eqb (length ds) 1 then LReshape 1 else LExpand
    | GStruct _ _, FFlat => LReshape 1
    | GNo _, FShaped => LExpand
    | _, _ => LKeep
    end.

  Lemma shape_valid_length sh dsh : shape_valid sh dsh = true -> length sh = length dsh.
  Proof.
    revert dsh; induction sh as [|d r IH]; intros [|o r']; simpl; try discriminate; [reflexivity|].
    intros H. apply andb_prop in H. destruct H as [_ H]. f_equal. apply IH. exact H.
  Qed.

  (** every payload form of the domain is accepted ... *)
  Lemma form_accepted g sh f : wf_grid g -> has_form g sh f -> check_shape g sh = Some (form_layout g f).
  Proof.
    intros Hwf Hf. destruct g as [dsh|ds o]; simpl in Hf.
    - destruct f; try contradiction; unfold check_shape, form_layout.
      + pose proof (shape_valid_length _ _ Hf) as Hl. rewrite Hl.
        replace (Nat.eqb (length dsh) (S (length dsh))) with false by (symmetry; apply Nat.eqb_neq; lia).
        simpl. rewrite Hf. reflexivity.
      + destruct Hf as [c [-> Hc]]. pose proof (shape_valid_length _ _ Hc) as Hl. simpl length. rewrite Hl.
        rewrite Nat.eqb_refl. simpl. rewrite Hc. reflexivity.
    - destruct Hwf as [Hne Hpos]. pose proof (prod_pos _ Hpos) as Hp.
      assert (1 <= length ds) as Hlen by (destruct ds; [contradiction|simpl; lia]).
      unfold check_shape, form_layout. destruct f; simpl in Hf.
      + (* shaped *) subst sh.
        replace (Nat.eqb (length ds) (S (length ds))) with false by (symmetry; apply Nat.eqb_neq; lia).
        rewrite Nat.mod_1_r, Nat.div_1_r, !Nat.eqb_refl. simpl.
        destruct (Nat.eqb (length ds) 1) eqn:E1; simpl; [reflexivity|].
        rewrite list_eqb_nat_neq.
        * rewrite (proj2 (list_eqb_nat_eq ds ds) eq_refl). reflexivity.
        * intros H. apply (f_equal (@length nat)) in H. destruct ds; simpl in *; lia.
      + (* time axis *) subst sh. simpl length. rewrite Nat.eqb_refl. simpl hd.
        assert (prod (1 :: ds) = prod ds) as -> by (simpl; lia).
        rewrite Nat.mod_1_r, Nat.div_1_r, !Nat.eqb_refl. simpl.
        replace (Nat.eqb (length ds) 0) with false by (symmetry; apply Nat.eqb_neq; lia). simpl.
        rewrite (proj2 (list_eqb_nat_eq ds ds) eq_refl). reflexivity.
      + (* flat *) subst sh. simpl length.
        replace (Nat.eqb 1 (S (length ds))) with false by (symmetry; apply Nat.eqb_neq; lia).
        assert (prod [prod ds] = prod ds) as -> by (simpl; lia).
        rewrite Nat.mod_1_r, Nat.div_1_r, !Nat.eqb_refl. simpl. reflexivity.
      + (* stacked *) destruct Hf as [Hk ->]. simpl length. rewrite Nat.eqb_refl. simpl hd.
        assert (prod (k :: ds) = prod ds * k) as -> by (simpl; lia).
        rewrite Nat.mod_mul, Nat.div_mul by lia. rewrite !Nat.eqb_refl. simpl.
        replace (Nat.eqb (length ds) 0) with false by (symmetry; apply Nat.eqb_neq; lia). simpl.
        rewrite (proj2 (list_eqb_nat_eq ds ds) eq_refl). reflexivity.
  Qed.

  (** ... and nothing else is *)
  Lemma accepted_form g sh lay : wf_grid g -> check_shape g sh = Some lay -> exists f, has_form g sh f.
  Proof.
    intros Hwf H. destruct g as [dsh|ds o]; unfold check_shape in H.
    - destruct (Nat.eqb (length sh) (S (length dsh))) eqn:E; simpl in H.
      + destruct (shape_valid (tl sh) dsh) eqn:Ev; simpl in H; [|discriminate].
        destruct (Nat.eqb (hd 0 sh) 1) eqn:Eh; simpl in H; [|discriminate].
        destruct sh as [|h c]; [simpl in E; discriminate|]. simpl in Eh, Ev. apply Nat.eqb_eq in Eh. subst h.
        exists FTimed. simpl. exists c. split; [reflexivity|assumption].
      + destruct (shape_valid sh dsh) eqn:Ev; [|discriminate]. exists FShaped. exact Ev.
    - destruct Hwf as [Hne Hpos]. pose proof (prod_pos _ Hpos) as Hp.
      assert (1 <= length ds) as Hlen by (destruct ds; [contradiction|simpl; lia]).
      set (te := if Nat.eqb (length sh) (S (length ds)) then hd 1 sh else 1) in H.
      destruct (Nat.eqb (prod sh mod te) 0 && Nat.eqb (prod sh / te) (prod ds)) eqn:Ec; simpl in H; [|discriminate].
      apply andb_prop in Ec. destruct Ec as [Ec1 Ec2]. apply Nat.eqb_eq in Ec1, Ec2.
      destruct (Nat.eqb (length sh) 1) eqn:E1; simpl in H.
      + (* 1-d payload: flat *)
        apply Nat.eqb_eq in E1. destruct sh as [|n [|]]; try discriminate.
        assert (te = 1) as Hte.
        { unfold te. simpl length. replace (Nat.eqb 1 (S (length ds))) with false by (symmetry; apply Nat.eqb_neq; lia). reflexivity. }
        rewrite Hte, Nat.div_1_r in Ec2. simpl in Ec2. exists FFlat. simpl. f_equal. lia.
      + destruct (list_eqb Nat.eqb (tl sh) ds) eqn:Et.
        * apply list_eqb_nat_eq in Et. destruct sh as [|h c]; [simpl in Et; congruence|]. simpl in Et. subst c.
          assert (te = h) as Hte by (unfold te; simpl length; rewrite Nat.eqb_refl; reflexivity).
          rewrite Hte in Ec1, Ec2.
          destruct h as [|[|h]].
          -- simpl in Ec2. lia.
          -- exists FTimed. reflexivity.
          -- exists (FStacked (S (S h))). simpl. split; [lia|reflexivity].
        * destruct (list_eqb Nat.eqb sh ds) eqn:Es; [|discriminate]. apply list_eqb_nat_eq in Es. exists FShaped. exact Es.
  Qed.

  Lemma tl_in_range_length idx sh : in_range idx sh -> length idx = length sh.
  Proof. induction 1; simpl; congruence. Qed.

  (** where every element ends up: the array after the layout step has shape [k :: cell] and its
      element [j, idx] is the payload element at [src_pos] *)
  Lemma layout_elems {X : Type} g sh f (l : list X) d j idx :
    wf_grid g -> has_form g sh f -> j < form_k f -> in_range idx (cell g sh f) ->
    lay_shape g (form_layout g f) sh = form_k f :: cell g sh f
    /\ nth (flatC (form_k f :: cell g sh f) (j :: idx)) (lay_list g (form_layout g f) l d) d
       = nth (src_pos g f sh j idx) l d.
  Proof.
    intros Hwf Hf Hj Hi. destruct g as [dsh|ds o]; simpl in Hf.
    - destruct f; try contradiction; simpl in *.
      + assert (j = 0) as -> by lia. split; [reflexivity|]. f_equal.
      + destruct Hf as [c [-> Hc]]. assert (j = 0) as -> by lia. simpl in *. split; reflexivity.
    - destruct Hwf as [Hne Hpos]. destruct f; simpl in Hf, Hj, Hi; simpl cell; simpl form_k.
      + (* shaped *) subst sh. assert (j = 0) as -> by lia. unfold form_layout.
        destruct (Nat.eqb (length ds) 1) eqn:E1.
        * apply Nat.eqb_eq in E1. destruct ds as [|n [|]]; try discriminate.
          inversion Hi as [|i n' ir r' Hin Hr]; subst. inversion Hr; subst.
          split; [reflexivity|]. unfold lay_list, src_pos. simpl grid_orderF. simpl grid_ds.
          destruct o.
          -- rewrite permF_nth by (repeat constructor; assumption). f_equal. simpl. lia.
          -- f_equal.
        * split; [reflexivity|]. simpl. f_equal.
      + (* time axis *) subst sh. assert (j = 0) as -> by lia. split; reflexivity.
      + (* flat *) subst sh. assert (j = 0) as -> by lia. split; [reflexivity|].
        unfold form_layout, lay_list, src_pos. simpl grid_orderF. simpl grid_ds. destruct o.
        * rewrite permF_nth by (constructor; [lia|assumption]). f_equal. simpl. lia.
        * f_equal; simpl; lia.
      + (* stacked *) destruct Hf as [Hk ->]. split; reflexivity.
  Qed.

  Lemma layout_length {X : Type} g sh f (l : list X) d :
    wf_grid g -> has_form g sh f -> length l = prod sh ->
    length (lay_list g (form_layout g f) l d) = prod (lay_shape g (form_layout g f) sh).
  Proof.
    intros Hwf Hf Hl. destruct g as [dsh|ds o]; simpl in Hf.
    - destruct f; try contradiction; simpl; lia.
    - destruct f; simpl in Hf; unfold form_layout.
      + subst sh. destruct (Nat.eqb (length ds) 1) eqn:E1; [|simpl; lia].
        unfold lay_list, lay_shape. simpl grid_orderF. simpl grid_ds. destruct o; [apply permF_length|simpl; lia].
      + simpl. lia.
      + subst sh. unfold lay_list, lay_shape. simpl grid_orderF. simpl grid_ds. destruct o; [apply permF_length|simpl in *; lia].
      + simpl. lia.
  Qed.
End Shape.

Section Units.
  Open Scope Q_scope.

  Definition unit_ok (u : uspec) : Prop := ~ u_fac u == 0.
  (** units that [equivalent_units] identifies have the same zero point (true of every pair of
      the registry; for an abstract pair with different offsets relabelling would not be exact) *)
  Definition relabel_safe (u v : uspec) : Prop := equivalent u v = true -> u_off u == u_off v.

  Lemma convert_compose u v w x : unit_ok v -> unit_ok w ->
    convert v w (convert u v x) == convert u w x.
  Proof. unfold convert, unit_ok. intros Hv Hw. field. split; assumption. Qed.

  Lemma convert_self u x : unit_ok u -> convert u u x == x.
  Proof. unfold convert, unit_ok. intros Hu. field. assumption. Qed.

  Lemma equivalent_id u v x : unit_ok v -> relabel_safe u v -> equivalent u v = true -> convert u v x == x.
  Proof.
    intros Hv Hs He. specialize (Hs He). unfold equivalent in He. apply andb_prop in He. destruct He as [_ He].
    apply Qeq_bool_iff in He. unfold convert in *. unfold unit_ok in Hv.
    rewrite Hs in He. rewrite Hs.
    assert (u_fac u == u_fac v) as Hf.
    { transitivity (((1 * u_fac u + u_off v - u_off v) / u_fac v) * u_fac v); [field; assumption|].
      rewrite He. ring. }
    rewrite Hf. field. assumption.
  Qed.

  Lemma list_eqb_Z_eq (a b : list Z) : list_eqb Z.eqb a b = true <-> a = b.
  Proof.
    revert b; induction a as [|x a IH]; intros [|y b]; simpl; split; try discriminate; try reflexivity.
    - intros H. apply andb_prop in H. destruct H as [H1 H2]. apply Z.eqb_eq in H1. apply IH in H2. congruence.
    - intros [= -> ->]. rewrite Z.eqb_refl. simpl. apply IH. reflexivity.
  Qed.

  Lemma compatible_trans u v w : compatible u v = true -> compatible v w = true -> compatible u w = true.
  Proof. unfold compatible. rewrite !list_eqb_Z_eq. congruence. Qed.

  Lemma equivalent_compatible u v : equivalent u v = true -> compatible u v = true.
  Proof. unfold equivalent. intros H. apply andb_prop in H. tauto. Qed.

  (** the units and the value under which a publication is stored by [prepare], and the value
      [Input._convert_and_check] makes of it *)
  Definition producer_units (uo : uspec) (pu : option uspec) : uspec := match pu with Some u => u | None => uo end.
  Definition stored_units (uo : uspec) (pu : option uspec) : uspec :=
    match pu with Some u => if equivalent u uo then u else uo | None => uo end.
  Definition stored_val (uo : uspec) (pu : option uspec) (x : Q) : Q :=
    match pu with Some u => if equivalent u uo then x else convert u uo x | None => x end.
  Definition delivered_val (ue ui : uspec) (y : Q) : Q := if equivalent ue ui then y else convert ue ui y.

  (** relabelling and the two conversions compose to the one affine map producer -> consumer *)
  Lemma link_conv uo ui pu x :
    unit_ok uo -> unit_ok ui ->
    relabel_safe (producer_units uo pu) ui -> relabel_safe uo ui ->
    delivered_val (stored_units uo pu) ui (stored_val uo pu x) == convert (producer_units uo pu) ui x.
  Proof.
    intros Ho Hi Hs1 Hs2. unfold delivered_val, stored_units, stored_val, producer_units in *.
    destruct pu as [u|].
    - destruct (equivalent u uo) eqn:E1.
      + destruct (equivalent u ui) eqn:E2; [|reflexivity].
        symmetry. apply equivalent_id; assumption.
      + destruct (equivalent uo ui) eqn:E2.
        * rewrite <- (convert_compose u uo ui x Ho Hi). symmetry. apply equivalent_id; assumption.
        * apply convert_compose; assumption.
    - destruct (equivalent uo ui) eqn:E2; [|reflexivity]. symmetry. apply equivalent_id; assumption.
  Qed.
End Units.

Section Payload.
  Open Scope nat_scope.

  Definition wf_arr (a : arr) : Prop :=
    length (a_data a) = prod (a_shape a)
    /\ match a_mask a with Some m => length m = prod (a_shape a) | None => True end.

  (** an explicit mask in the metadata has one bit per cell of the grid *)
  Definition wf_mask (inf : info) (c : list nat) : Prop :=
    match i_mask inf with MBits bits => length bits = prod c | _ => True end.

  Definition units_ok (inf : info) (p : payload) : Prop :=
    match p_units p with Some u => compatible u (i_units inf) = true | None => True end.

  (** the mask demanded for entry [j], cell [idx]: the payload's own bit if it is a masked array,
      otherwise the bit of the metadata's mask at that cell, none if no mask is demanded *)
  Definition demanded_mask (inf : info) (a : arr) (f : form) (j : nat) (idx : list nat) : option bool :=
    let g := i_grid inf in
    match a_mask a with
    | Some m => Some (nth (src_pos g f (a_shape a) j idx) m false)
    | None => match i_mask inf with
              | MBits bits => Some (nth (flatC (cell g (a_shape a) f) idx) bits false)
              | _ => None
              end
    end.

  Lemma flatF_lt sh : forall idx, in_range idx sh -> flatF sh idx < prod sh.
  Proof.
    induction sh as [|d r IH]; intros idx H; inversion H as [|i d' ir r' Hi Hr]; subst; simpl; [lia|].
    specialize (IH _ Hr). nia.
  Qed.

  Lemma prod_form g sh f : has_form g sh f -> prod sh = form_k f * prod (cell g sh f).
  Proof.
    destruct g as [dsh|ds o]; destruct f; simpl; try contradiction.
    - lia.
    - intros [c [-> _]]. simpl. lia.
    - intros ->. lia.
    - intros ->. simpl. lia.
    - intros ->. simpl. lia.
    - intros [_ ->]. simpl. lia.
  Qed.

  Lemma src_pos_lt g sh f j idx :
    wf_grid g -> has_form g sh f -> j < form_k f -> in_range idx (cell g sh f) ->
    src_pos g f sh j idx < prod sh.
  Proof.
    intros Hwf Hf Hj Hi. destruct g as [dsh|ds o]; destruct f; simpl in Hf; try contradiction; simpl in Hi, Hj; unfold src_pos.
    - apply flatC_lt. assumption.
    - destruct Hf as [c [-> _]]. simpl in Hi. apply flatC_lt. constructor; assumption.
    - subst sh. apply flatC_lt. assumption.
    - subst sh. apply flatC_lt. constructor; assumption.
    - subst sh. simpl grid_orderF. simpl grid_ds. simpl prod. rewrite Nat.mul_1_r.
      destruct o; [apply flatF_lt|apply flatC_lt]; assumption.
    - destruct Hf as [_ ->]. apply flatC_lt. constructor; assumption.
  Qed.

  Lemma attach_shape m own a : a_shape (attach_mask m own a) = a_shape a.
  Proof. destruct m, own; reflexivity. Qed.
  Lemma attach_data m own a : a_data (attach_mask m own a) = a_data a.
  Proof. destruct m, own; reflexivity. Qed.

  Lemma nth_map_in {X Y : Type} (f : X -> Y) l p dx dy : p < length l -> nth p (map f l) dy = f (nth p l dx).
  Proof.
    intros H. rewrite (nth_indep _ dy (f dx)) by (rewrite map_length; assumption). apply map_nth.
  Qed.

  Lemma nth_repeat_in {X : Type} (x d : X) n p : p < n -> nth p (repeat x n) d = x.
  Proof.
    intros H. rewrite (nth_indep _ d x) by (rewrite repeat_length; assumption). apply nth_repeat.
  Qed.

  Lemma lay_shape_form g sh f : has_form g sh f -> lay_shape g (form_layout g f) sh = form_k f :: cell g sh f.
  Proof.
    intros Hf. destruct g as [dsh|ds o]; destruct f; simpl in Hf; try contradiction; try reflexivity.
    - destruct Hf as [c [-> _]]. reflexivity.
    - subst sh. unfold form_layout. destruct (Nat.eqb (length ds) 1); reflexivity.
    - subst sh. reflexivity.
    - destruct Hf as [_ ->]. reflexivity.
  Qed.

  (** the array stored by [prepare] for a payload array [a] of an accepted form *)
  Definition prepared (inf : info) (a : arr) (f : form) : arr :=
    attach_mask (i_mask inf) (a_mask a) (apply_layout (i_grid inf) (form_layout (i_grid inf) f) a).

  Lemma prepared_spec inf a f :
    let g := i_grid inf in let sh := a_shape a in
    wf_grid g -> wf_arr a -> has_form g sh f -> wf_mask inf (cell g sh f) -> mask_ok (i_mask inf) a = true ->
    a_shape (prepared inf a f) = form_k f :: cell g sh f
    /\ length (a_data (prepared inf a f)) = prod (form_k f :: cell g sh f)
    /\ forall j idx, j < form_k f -> in_range idx (cell g sh f) ->
         aget (prepared inf a f) (j :: idx) = nth (src_pos g f sh j idx) (a_data a) 0%Q
         /\ mget (prepared inf a f) (j :: idx) = demanded_mask inf a f j idx.
  Proof.
    intros g sh; subst g sh; intros Hwf [Hlen Hmlen] Hf Hwm Hmok.
    assert (a_shape (prepared inf a f) = form_k f :: cell (i_grid inf) (a_shape a) f) as Hshape.
    { unfold prepared. rewrite attach_shape. simpl. apply lay_shape_form. exact Hf. }
    split; [exact Hshape|]. split.
    { rewrite <- Hshape. unfold prepared. rewrite attach_data, attach_shape. simpl.
      apply layout_length; assumption. }
    intros j idx Hj Hi.
    destruct (@layout_elems Q (i_grid inf) (a_shape a) f (a_data a) 0%Q j idx Hwf Hf Hj Hi) as [_ Hq].
    split.
    - unfold aget. rewrite Hshape. unfold prepared. rewrite attach_data. simpl. exact Hq.
    - unfold mget, demanded_mask. rewrite Hshape.
      unfold prepared. destruct (a_mask a) as [m|] eqn:Em.
      + (* a masked payload keeps its own mask *)
        assert (a_mask (attach_mask (i_mask inf) (Some m) (apply_layout (i_grid inf) (form_layout (i_grid inf) f) a))
                = Some (lay_list (i_grid inf) (form_layout (i_grid inf) f) m false)) as ->.
        { destruct (i_mask inf); simpl; rewrite Em; reflexivity. }
        simpl. f_equal.
        destruct (@layout_elems bool (i_grid inf) (a_shape a) f m false j idx Hwf Hf Hj Hi) as [_ Hb]. exact Hb.
      + destruct (i_mask inf) as [| |bits] eqn:Ei; simpl; try (rewrite Em; reflexivity).
        f_equal. unfold wf_mask in Hwm. rewrite Ei in Hwm.
        unfold mask_ok in Hmok. rewrite Em in Hmok.
        pose proof (prod_form _ _ _ Hf) as Hp.
        assert (flatC (cell (i_grid inf) (a_shape a) f) idx < prod (cell (i_grid inf) (a_shape a) f)) as Hlt by (apply flatC_lt; assumption).
        destruct (Nat.eqb (length bits) 1) eqn:E1.
        * apply Nat.eqb_eq in E1.
          rewrite (lay_shape_form _ _ _ Hf).
          rewrite nth_repeat_in by (simpl; nia).
          assert (flatC (cell (i_grid inf) (a_shape a) f) idx = 0) as -> by lia.
          destruct bits; [discriminate|reflexivity].
        * simpl in Hmok. apply Nat.eqb_eq in Hmok. apply Nat.eqb_neq in E1.
          assert (form_k f = 1) as Hk by nia.
          assert (j = 0) as -> by lia. simpl. reflexivity.
  Qed.
End Payload.

Section Delivery.
  Open Scope nat_scope.

  Lemma shape_phase_form inf a u b f :
    wf_grid (i_grid inf) -> has_form (i_grid inf) (a_shape a) f -> mask_ok (i_mask inf) a = true ->
    shape_phase inf a u b = POk (mkE (prepared inf a f) u b).
  Proof.
    intros Hwf Hf Hm. unfold shape_phase. rewrite Hm. simpl.
    rewrite (form_accepted _ _ _ Hwf Hf). reflexivity.
  Qed.

  Lemma check_delivered_form g sh f : has_form g sh f -> check_delivered g (form_k f :: cell g sh f) = true.
  Proof.
    intros Hf. destruct g as [dsh|ds o]; simpl.
    - destruct f; simpl in Hf; try contradiction.
      + rewrite (shape_valid_length _ _ Hf). apply Nat.eqb_refl.
      + destruct Hf as [c [-> Hc]]. simpl. rewrite (shape_valid_length _ _ Hc). apply Nat.eqb_refl.
    - rewrite Nat.eqb_refl. simpl. apply list_eqb_nat_eq. reflexivity.
  Qed.

  Lemma aget_amap fq a i : flatC (a_shape a) i < length (a_data a) -> aget (amap fq a) i = fq (aget a i).
  Proof. intros H. unfold aget, amap. simpl. apply nth_map_in. exact H. Qed.

  (** [Input._convert_and_check] on a stored publication of shape [sh'] *)
  Lemma deliver_spec g ui pa ue b sh' :
    a_shape pa = sh' -> length (a_data pa) = prod sh' -> check_delivered g sh' = true ->
    compatible ue ui = true ->
    exists d, deliver g ui (mkE pa ue b) = RArr d ui /\ a_shape d = sh'
      /\ forall i, in_range i sh' -> aget d i = delivered_val ue ui (aget pa i) /\ mget d i = mget pa i.
  Proof.
    intros Hs Hl Hc Hcomp. unfold deliver. simpl. rewrite Hcomp. simpl. unfold delivered_val.
    destruct (equivalent ue ui).
    - rewrite Hs, Hc. exists pa. repeat split; auto.
    - simpl. rewrite Hs, Hc. exists (amap (convert ue ui) pa). split; [reflexivity|]. split; [exact Hs|].
      intros i Hi. split; [|reflexivity]. apply aget_amap. rewrite Hs, Hl. apply flatC_lt. exact Hi.
  Qed.

  (** Every payload of the domain is accepted and delivered with shape [k :: cell]; element
      [j, idx] is the published element that belongs there, relabelled / converted as the code
      does it; the mask is the demanded one. *)
  Theorem payload_accepted_raw inf ui p f :
    wf_grid (i_grid inf) -> wf_arr (p_arr p) -> wf_mask inf (cell (i_grid inf) (a_shape (p_arr p)) f) ->
    has_form (i_grid inf) (a_shape (p_arr p)) f -> units_ok inf p -> mask_ok (i_mask inf) (p_arr p) = true ->
    compatible (i_units inf) ui = true ->
    exists e d,
      prepare inf p = POk e /\ deliver (i_grid inf) ui e = RArr d ui
      /\ a_shape d = form_k f :: cell (i_grid inf) (a_shape (p_arr p)) f
      /\ forall j idx, j < form_k f -> in_range idx (cell (i_grid inf) (a_shape (p_arr p)) f) ->
           aget d (j :: idx)
           = delivered_val (stored_units (i_units inf) (p_units p)) ui
               (stored_val (i_units inf) (p_units p)
                  (nth (src_pos (i_grid inf) f (a_shape (p_arr p)) j idx) (a_data (p_arr p)) 0%Q))
           /\ mget d (j :: idx) = demanded_mask inf (p_arr p) f j idx.
  Proof.
    intros Hwf Hwa Hwm Hf Hu Hm Hc.
    set (a := p_arr p) in *.
    (* the array that goes through the shape phase: [a] itself or its converted copy *)
    assert (forall fq ue b a1, a1 = a \/ a1 = amap fq a ->
      compatible ue ui = true ->
      exists d, deliver (i_grid inf) ui (mkE (prepared inf a1 f) ue b) = RArr d ui
        /\ a_shape d = form_k f :: cell (i_grid inf) (a_shape a) f
        /\ forall j idx, j < form_k f -> in_range idx (cell (i_grid inf) (a_shape a) f) ->
             aget d (j :: idx) = delivered_val ue ui (nth (src_pos (i_grid inf) f (a_shape a) j idx) (a_data a1) 0%Q)
             /\ mget d (j :: idx) = demanded_mask inf a f j idx) as Hgen.
    { intros fq ue b a1 Ha1 Hcomp.
      assert (a_shape a1 = a_shape a /\ a_mask a1 = a_mask a /\ wf_arr a1) as [Hs1 [Hm1 Hw1]].
      { destruct Ha1 as [->| ->]; [auto|]. simpl. repeat split; try reflexivity.
        - simpl. rewrite map_length. apply Hwa.
        - simpl. apply Hwa. }
      assert (mask_ok (i_mask inf) a1 = true) as Hmk1 by (unfold mask_ok; rewrite Hm1, Hs1; exact Hm).
      destruct (prepared_spec inf a1 f) as [P1 [P2 P3]]; try (rewrite ?Hs1; assumption).
      rewrite Hs1 in P1, P2, P3.
      destruct (deliver_spec (i_grid inf) ui (prepared inf a1 f) ue b _ P1 P2 (check_delivered_form _ _ _ Hf) Hcomp)
        as [d [D1 [D2 D3]]].
      exists d. split; [exact D1|]. split; [exact D2|].
      intros j idx Hj Hi. destruct (D3 (j :: idx)) as [D4 D5]; [constructor; assumption|].
      destruct (P3 j idx Hj Hi) as [P4 P5]. rewrite D4, D5, P4, P5. split; [reflexivity|].
      unfold demanded_mask. rewrite Hm1, Hs1. reflexivity. }
    unfold prepare. fold a. unfold units_ok in Hu. unfold stored_units, stored_val.
    destruct (p_units p) as [u|].
    - rewrite Hu, Hm. simpl. destruct (equivalent u (i_units inf)) eqn:Ee.
      + rewrite (shape_phase_form inf a u (p_buf p) f Hwf Hf Hm).
        destruct (Hgen (fun x => x) u (p_buf p) a (or_introl eq_refl)) as [d Hd].
        { eapply compatible_trans; eassumption. }
        exists (mkE (prepared inf a f) u (p_buf p)), d. split; [reflexivity|]. exact Hd.
      + set (a1 := amap (convert u (i_units inf)) a).
        assert (mask_ok (i_mask inf) a1 = true) as Hm1 by exact Hm.
        rewrite (shape_phase_form inf a1 (i_units inf) None f Hwf Hf Hm1).
        destruct (Hgen (convert u (i_units inf)) (i_units inf) None a1 (or_intror eq_refl) Hc) as [d [D1 [D2 D3]]].
        exists (mkE (prepared inf a1 f) (i_units inf) None), d. split; [reflexivity|]. split; [exact D1|]. split; [exact D2|].
        intros j idx Hj Hi. destruct (D3 j idx Hj Hi) as [D4 D5]. split; [|exact D5].
        rewrite D4. f_equal. unfold a1. simpl. apply nth_map_in.
        destruct Hwa as [Hl _]. fold a in Hl. rewrite Hl. apply src_pos_lt; assumption.
    - rewrite (shape_phase_form inf a (i_units inf) (p_buf p) f Hwf Hf Hm).
      destruct (Hgen (fun x => x) (i_units inf) (p_buf p) a (or_introl eq_refl) Hc) as [d Hd].
      exists (mkE (prepared inf a f) (i_units inf) (p_buf p)), d. split; [reflexivity|]. exact Hd.
  Qed.

  (** the same with the value stated as the affine conversion producer units -> consumer units *)
  Theorem payload_accepted inf ui p f :
    wf_grid (i_grid inf) -> wf_arr (p_arr p) -> wf_mask inf (cell (i_grid inf) (a_shape (p_arr p)) f) ->
    has_form (i_grid inf) (a_shape (p_arr p)) f -> units_ok inf p -> mask_ok (i_mask inf) (p_arr p) = true ->
    compatible (i_units inf) ui = true ->
    unit_ok (i_units inf) -> unit_ok ui ->
    relabel_safe (producer_units (i_units inf) (p_units p)) ui -> relabel_safe (i_units inf) ui ->
    exists e d,
      prepare inf p = POk e /\ deliver (i_grid inf) ui e = RArr d ui
      /\ a_shape d = form_k f :: cell (i_grid inf) (a_shape (p_arr p)) f
      /\ forall j idx, j < form_k f -> in_range idx (cell (i_grid inf) (a_shape (p_arr p)) f) ->
           (aget d (j :: idx)
            == convert (producer_units (i_units inf) (p_units p)) ui
                 (nth (src_pos (i_grid inf) f (a_shape (p_arr p)) j idx) (a_data (p_arr p)) 0%Q))%Q
           /\ mget d (j :: idx) = demanded_mask inf (p_arr p) f j idx.
  Proof.
    intros Hwf Hwa Hwm Hf Hu Hm Hc Ho Hi Hs1 Hs2.
    destruct (payload_accepted_raw inf ui p f Hwf Hwa Hwm Hf Hu Hm Hc) as [e [d [H1 [H2 [H3 H4]]]]].
    exists e, d. split; [exact H1|]. split; [exact H2|]. split; [exact H3|].
    intros j idx Hj Hidx. destruct (H4 j idx Hj Hidx) as [H5 H6]. split; [|exact H6].
    rewrite H5. apply link_conv; assumption.
  Qed.

  (** everything else is refused *)
  Theorem payload_refused inf p :
    wf_grid (i_grid inf) ->
    (forall u, p_units p = Some u -> compatible u (i_units inf) = false -> prepare inf p = PErr EData)
    /\ (units_ok inf p -> mask_ok (i_mask inf) (p_arr p) = false -> prepare inf p = PErr EMask)
    /\ (units_ok inf p -> mask_ok (i_mask inf) (p_arr p) = true ->
        (forall f, ~ has_form (i_grid inf) (a_shape (p_arr p)) f) -> prepare inf p = PErr EData).
  Proof.
    intros Hwf. split; [|split].
    - intros u Hu Hc. unfold prepare. rewrite Hu, Hc. reflexivity.
    - intros Hu Hm. unfold prepare, units_ok in *. destruct (p_units p) as [u|].
      + rewrite Hu, Hm. reflexivity.
      + unfold shape_phase. rewrite Hm. reflexivity.
    - intros Hu Hm Hnf. unfold prepare, units_ok in *.
      assert (check_shape (i_grid inf) (a_shape (p_arr p)) = None) as Hn.
      { destruct (check_shape (i_grid inf) (a_shape (p_arr p))) as [lay|] eqn:E; [|reflexivity].
        destruct (accepted_form _ _ _ Hwf E) as [f Hf]. exfalso. exact (Hnf f Hf). }
      destruct (p_units p) as [u|].
      + rewrite Hu, Hm. simpl. destruct (equivalent u (i_units inf)); unfold shape_phase.
        * rewrite Hm, Hn. reflexivity.
        * assert (mask_ok (i_mask inf) (amap (convert u (i_units inf)) (p_arr p)) = true) as -> by exact Hm.
          simpl. rewrite Hn. reflexivity.
      + unfold shape_phase. rewrite Hm, Hn. reflexivity.
  Qed.
End Delivery.

Section LinkPull.
  Open Scope Z_scope.

  (** a pull over the link = [_convert_and_check] of the nearest publication *)
  Theorem link_pull_nearest g tr ui (s : lstate) k t :
    increasing (st_hist s) ->
    match st_hist s with
    | [] => lpull g tr ui s k t = (s, RNoData)
    | (t0, _) :: r =>
        (t < t0 \/ last_time t0 r < t -> lpull g tr ui s k t = (s, RTime))
        /\ (t0 <= t <= last_time t0 r ->
            exists tp e, In (tp, e) (st_hist s) /\ snd (lpull g tr ui s k t) = deliver g ui (relaid tr e)
              /\ forall x, In x (st_hist s) -> Z.abs (tp - t) <= Z.abs (fst x - t))
    end.
  Proof.
    intros Hinc. pose proof (nearest (st_hist s) t Hinc) as H. unfold lpull, get_data.
    destruct (st_hist s) as [|[t0 d0] r] eqn:Eh.
    - rewrite H. reflexivity.
    - destruct H as [H1 H2]. split.
      + intros Ho. rewrite (H1 Ho). reflexivity.
      + intros Hi. destruct (H2 Hi) as [tp [e [Hin [Hok Hmin]]]]. exists tp, e.
        split; [exact Hin|]. rewrite Hok. simpl. split; [reflexivity|exact Hmin].
  Qed.
End LinkPull.

(* ================================================================== *)
(** * Part 4: transform between two layouts of one structured grid *)
Section Relayout.
  Open Scope nat_scope.

  Lemma flip_idx_invol dims : forall inc c,
    in_range c dims -> length inc = length dims -> flip_idx dims inc (flip_idx dims inc c) = c.
  Proof.
    induction dims as [|n dr IH]; intros inc c Hc Hl; inversion Hc as [|i n' ir r' Hi Hr]; subst; [destruct inc; reflexivity|].
    destruct inc as [|b br]; [discriminate|]. simpl in Hl. simpl. rewrite IH by (assumption || lia).
    destruct b; f_equal; lia.
  Qed.

  (** going to layout [l] and back to the canonical index is the identity: [idx_of] picks the index
      that denotes the given cell *)
  Theorem same_cell dims l c :
    in_range c dims -> length (l_inc l) = length dims -> can_of dims l (idx_of dims l c) = c.
  Proof.
    intros Hc Hl. unfold can_of, idx_of. destruct (l_rev l); [rewrite rev_involutive|]; apply flip_idx_invol; assumption.
  Qed.

  (** the delivered array has the consumer's shape; its element (and mask bit) at consumer index
      [ic] is the stored one at the producer index of the same cell *)
  Theorem relayout_spec r a k :
    a_shape a = k :: lshape (r_dims r) (r_src r) ->
    a_shape (relayout (Some r) a) = k :: lshape (r_dims r) (r_dst r)
    /\ forall j ic, j < k -> in_range ic (lshape (r_dims r) (r_dst r)) ->
         let ip := idx_of (r_dims r) (r_src r) (can_of (r_dims r) (r_dst r) ic) in
         aget (relayout (Some r) a) (j :: ic) = aget a (j :: ip)
         /\ mget (relayout (Some r) a) (j :: ic) = mget a (j :: ip).
  Proof.
    intros Hs. unfold relayout. rewrite Hs. split; [reflexivity|].
    intros j ic Hj Hic; try (intros ip); cbv zeta.
    assert (in_range (j :: ic) (k :: lshape (r_dims r) (r_dst r))) as Hr by (constructor; assumption).
    split.
    - unfold aget. simpl a_shape. simpl a_data. rewrite Hs. unfold relay_list.
      rewrite nth_map_seq by (apply flatC_lt; exact Hr).
      rewrite unflatC_flatC by exact Hr. reflexivity.
    - unfold mget. simpl a_shape. simpl a_mask. rewrite Hs. destruct (a_mask a) as [m|]; [|reflexivity]. cbn [option_map]. f_equal.
      unfold relay_list. rewrite nth_map_seq by (apply flatC_lt; exact Hr).
      rewrite unflatC_flatC by exact Hr. reflexivity.
  Qed.
End Relayout.

(* ================================================================== *)
(** * Part 5: consumers that declare their own [NoGrid] data shape *)
Section ConsumerShape.
  Open Scope nat_scope.

  Lemma nogrid_compatible_eq a b : nogrid_compatible a b = true -> a = b.
  Proof.
    unfold nogrid_compatible. revert b; induction a as [|x a IH]; intros [|y b]; simpl; try discriminate; [reflexivity|].
    intros H. apply andb_prop in H. destruct H as [H1 H2]. rewrite (IH _ H2). f_equal.
    destruct x as [n|], y as [m|]; simpl in H1; try discriminate; [|reflexivity].
    apply Nat.eqb_eq in H1. congruence.
  Qed.

  (** On an established link (the two [NoGrid]s are compatible) every accepted payload is delivered
      with one leading time entry and a shape that fits the CONSUMER's declared data shape
      (fixed axes agree, flexible axes take any length). *)
  Theorem consumer_shape inf ui p f dsh dsh' :
    i_grid inf = GNo dsh -> nogrid_compatible dsh dsh' = true ->
    wf_arr (p_arr p) -> wf_mask inf (cell (i_grid inf) (a_shape (p_arr p)) f) ->
    has_form (i_grid inf) (a_shape (p_arr p)) f -> units_ok inf p -> mask_ok (i_mask inf) (p_arr p) = true ->
    compatible (i_units inf) ui = true ->
    exists e d c,
      prepare inf p = POk e /\ deliver (GNo dsh') ui e = RArr d ui
      /\ a_shape d = 1 :: c /\ shape_valid c dsh' = true.
  Proof.
    intros Hg Hc Hwa Hwm Hf Hu Hm Hcu.
    apply nogrid_compatible_eq in Hc. subst dsh'.
    assert (wf_grid (i_grid inf)) as Hwf by (rewrite Hg; exact I).
    destruct (payload_accepted_raw inf ui p f Hwf Hwa Hwm Hf Hu Hm Hcu) as [e [d [H1 [H2 [H3 _]]]]].
    rewrite Hg in H2, H3, Hf. exists e, d.
    destruct f; simpl in Hf; try contradiction; simpl in H3.
    - exists (a_shape (p_arr p)). repeat split; assumption.
    - destruct Hf as [c [E Hv]]. rewrite E in H3. simpl in H3. exists c. repeat split; assumption.
  Qed.
End ConsumerShape.
