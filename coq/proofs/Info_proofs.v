(** Specification predicates and proofs for FV.Info (C07). *)
From Coq Require Import List ZArith QArith Bool Lia Permutation.
From FV Require Import Base Info.
Import ListNotations.
Open Scope Z_scope.

(** * Specification predicates (what the theorems of properties/C07.v talk about) *)

(** no entry of a meta dictionary is unset *)
Definition meta_all_set (m : meta_t) : Prop := forall k, mget k m <> Some None.

(** an info without unset field; the mask is treated separately, time is exempt on static links *)
Definition complete (static : bool) (i : info) : Prop :=
  i_grid i <> None /\ i_units i <> None /\ meta_all_set (i_meta i) /\ (static = false -> i_time i <> None).

(** The documented mask acceptance relation, written out (independent of the code structure of
    masks_compatible): [down] is the mask a receiver states, [dg] the grid it states (if any),
    [up]/[ug] the mask and grid offered by the source.
    - FLEX accepts every source whose mask is set;
    - NONE (plain arrays) accepts only NONE;
    - nomask accepts nomask and explicit all-false masks;
    - an explicit mask accepts nomask if it is all-false, and an explicit mask of the same rank that is
      equal after bringing both to canonical layout with their grids; if one of the two sides has no grid
      there is only one layout to refer to and the masks must be equal as they are. *)
Definition bits_same (a b : bits) : Prop := shape_eqb (bits_shape a) (bits_shape b) && bits_eqb a b = true.
Definition mask_accept_spec (down : mask) (dg : option gridspec) (up : option mask) (ug : option gridspec) : Prop :=
  match up with
  | None => False
  | Some u =>
    match down with
    | MFlex => True
    | MNone => u = MNone
    | MNoMask => u = MNoMask \/ exists b, u = MBits b /\ bits_any b = false
    | MBits a =>
        (u = MNoMask /\ bits_any a = false) \/
        exists b, u = MBits b /\ bits_ndim a = bits_ndim b /\
                  match dg, ug with
                  | Some g, Some h => exists ca cb, to_canonical g a = Some ca /\ to_canonical h b = Some cb /\ bits_same ca cb
                  | _, _ => bits_same a b
                  end
    end
  end.

(** the request that reaches the output after the request rewrites of the adapters *)
Fixpoint arriving (chain : list adapter) (req : info) : xres info :=
  match chain with
  | [] => XOk req
  | a :: rest => do up <- a_req a req; arriving rest up
  end.

Definition plain_chain (chain : list adapter) : Prop := Forall (fun a => a = APlain) chain.

(** Agreement at the input end of a link: [req] the consumer's declared info, [d] the info delivered
    to it, [ii] the consumer's info after the exchange. *)
Record input_end_agrees (static : bool) (req d ii : info) : Prop := mk_iea {
  iea_grid : exists gi gd, i_grid ii = Some gi /\ i_grid d = Some gd /\ compatible gi gd = true;
  iea_units : exists ui ud, i_units ii = Some ui /\ i_units d = Some ud /\ u_dims ui = u_dims ud;
  iea_mask_set : i_mask ii <> None /\ i_mask ii = i_mask d;
  iea_mask : forall m, i_mask req = Some m -> mask_accept_spec m (i_grid req) (i_mask d) (i_grid d);
  iea_meta_set : meta_all_set (i_meta ii);
  iea_time_set : static = false -> i_time ii <> None;
  (* fields left unset by the consumer carry the delivered values *)
  iea_fill_time : i_time req = None -> i_time ii = i_time d;
  iea_fill_grid : i_grid req = None -> i_grid ii = i_grid d;
  iea_fill_units : i_units req = None -> i_units ii = i_units d;
  iea_fill_meta : forall k, (forall v, ~ In (k, Some v) (i_meta req)) -> mget k (i_meta ii) = mget k (i_meta d);
  (* declared values are kept *)
  iea_keep_time : forall t, i_time req = Some t -> i_time ii = Some t;
  iea_keep_grid : forall g, i_grid req = Some g -> i_grid ii = Some g;
  iea_keep_units : forall u, i_units req = Some u -> i_units ii = Some u;
  iea_keep_meta : NoDup (map fst (i_meta req)) ->
                  forall k v, mget k (i_meta req) = Some (Some v) -> mget k (i_meta ii) = Some (Some v)
}.

(** Agreement at the output end: [ob]/[oa] the producer's info before/after the exchange, [arr] the
    request arriving at the output. *)
Record output_end_agrees (static : bool) (ob arr oa : info) : Prop := mk_oea {
  oea_complete : complete static oa;
  oea_mask : i_mask oa = i_mask ob /\ (i_mask ob = None -> i_mask arr <> None);
  oea_grid_acc : forall g h, i_grid ob = Some g -> i_grid arr = Some h -> compatible g h = true;
  oea_units_acc : forall u v, i_units ob = Some u -> i_units arr = Some v -> u_dims u = u_dims v;
  oea_mask_acc : forall m, i_mask ob <> None -> i_mask arr = Some m ->
                           mask_accept_spec m (i_grid arr) (i_mask ob) (i_grid ob);
  (* declared values are kept *)
  oea_keep_grid : forall g, i_grid ob = Some g -> i_grid oa = Some g;
  oea_keep_units : forall u, i_units ob = Some u -> i_units oa = Some u;
  oea_keep_time : forall t, i_time ob = Some t -> i_time oa = Some t;
  oea_keep_meta : forall k v, mget k (i_meta ob) = Some (Some v) -> mget k (i_meta oa) = Some (Some v);
  (* unset ones are taken from the arriving request *)
  oea_fill_grid : i_grid ob = None -> i_grid oa = i_grid arr;
  oea_fill_units : i_units ob = None -> i_units oa = i_units arr;
  oea_fill_time : static = false -> i_time ob = None -> i_time oa = i_time arr;
  (* a static output never adopts a time: its time stays as stated, set or unset *)
  oea_static_time : static = true -> i_time oa = i_time ob;
  oea_fill_meta : forall k, mget k (i_meta ob) = Some None -> mget k (i_meta oa) = mget k (i_meta arr);
  oea_meta_keys : forall k, mget k (i_meta ob) = None -> mget k (i_meta oa) = None
}.

(** The whole exchange of one output with its consumers in the order of [cs]:
    [ob] the producer's info before, [oz] after all exchanges. *)
Inductive agrees_from (static : bool) : info -> list consumer -> list info -> info -> Prop :=
| ag_nil : forall oi, agrees_from static oi [] [] oi
| ag_cons : forall ob oa oz c cs ii iis d arr,
    arriving (c_chain c) (c_info c) = XOk arr ->
    input_end_agrees static (c_info c) d ii ->
    output_end_agrees static ob arr oa ->
    (plain_chain (c_chain c) -> d = oa /\ arr = c_info c) ->
    agrees_from static oa cs iis oz ->
    agrees_from static ob (c :: cs) (ii :: iis) oz.

(** conflicts *)
Definition grid_conflict (a b : info) : Prop :=
  exists g h, i_grid a = Some g /\ i_grid b = Some h /\ compatible g h = false.
Definition units_conflict (a b : info) : Prop :=
  exists u v, i_units a = Some u /\ i_units b = Some v /\ u_dims u <> u_dims v.
(** [down] states a mask the source's mask [up] does not satisfy *)
Definition mask_conflict (down up : info) : Prop :=
  exists m, i_mask down = Some m /\ i_mask up <> None /\ ~ mask_accept_spec m (i_grid down) (i_mask up) (i_grid up).
Definition conflict (down up : info) : Prop :=
  grid_conflict down up \/ units_conflict down up \/ mask_conflict down up.
Definition is_refusal {A : Type} (r : xres A) : Prop := r = XMeta \/ r = XOther.

Definition fully_set (static : bool) (oi : info) : Prop :=
  i_grid oi <> None /\ (static = false -> i_time oi <> None) /\ i_units oi <> None
  /\ Forall (fun kv => snd kv <> None) (i_meta oi).

(** the exchange of one consumer alone with a producer whose info is [oi] *)
Definition single (static : bool) (oi : info) (c : consumer) : xres info :=
  snd (input_exchange (c_chain c) (mkO (Some oi) static 0 0) (c_info c)).

(** * Basic lemmas *)
Lemma compatible_refl : forall g, compatible g g = true.
Proof.
  intros g. unfold compatible. rewrite !Z.eqb_refl. destruct (g_kind g); reflexivity.
Qed.

Lemma list_eqb_Z_eq : forall a b, list_eqb Z.eqb a b = true <-> a = b.
Proof.
  induction a as [|x a IH]; destruct b as [|y b]; simpl; split; intros H; try discriminate; auto.
  - apply andb_true_iff in H. destruct H as [H1 H2]. apply Z.eqb_eq in H1. apply IH in H2. subst. reflexivity.
  - inversion H; subst. rewrite Z.eqb_refl. simpl. apply IH. reflexivity.
Qed.

Lemma dims_eqb_eq : forall a b, dims_eqb a b = true <-> a = b.
Proof. exact list_eqb_Z_eq. Qed.

Lemma mget_mset_same : forall k v m, mget k (mset k v m) = Some (Some v).
Proof.
  intros k v m. induction m as [|[k' v'] r IH]; simpl.
  - rewrite Z.eqb_refl. reflexivity.
  - destruct (k =? k') eqn:E; simpl; rewrite E; auto.
Qed.

Lemma mget_mset_other : forall k k' v m, k <> k' -> mget k' (mset k v m) = mget k' m.
Proof.
  intros k k' v m Hne. induction m as [|[k2 v2] r IH]; simpl.
  - destruct (k' =? k) eqn:E; auto. apply Z.eqb_eq in E. congruence.
  - destruct (k =? k2) eqn:E; simpl.
    + apply Z.eqb_eq in E. subst. destruct (k' =? k2) eqn:E2; auto. apply Z.eqb_eq in E2. congruence.
    + destruct (k' =? k2); auto.
Qed.

Lemma mset_all_set : forall k v m, meta_all_set m -> meta_all_set (mset k v m).
Proof.
  intros k v m H k'. destruct (Z.eq_dec k k') as [->|Hne].
  - rewrite mget_mset_same. discriminate.
  - rewrite mget_mset_other by assumption. apply H.
Qed.

Lemma merge_meta_all_set : forall kw m, meta_all_set m -> meta_all_set (merge_meta m kw).
Proof.
  induction kw as [|[k [v|]] r IH]; simpl; intros m H; auto.
  apply IH. apply mset_all_set. assumption.
Qed.

Lemma merge_meta_absent : forall kw m k,
  (forall v, ~ In (k, Some v) kw) -> mget k (merge_meta m kw) = mget k m.
Proof.
  induction kw as [|[k' [v'|]] r IH]; simpl; intros m k H; auto.
  - rewrite IH.
    + apply mget_mset_other. intros ->. apply (H v'). left. reflexivity.
    + intros v Hin. apply (H v). right. assumption.
  - apply IH. intros v Hin. apply (H v). right. assumption.
Qed.

Lemma mget_in : forall k v m, mget k m = Some v -> In (k, v) m.
Proof.
  induction m as [|[k' v'] r IH]; simpl; intros H; try discriminate.
  destruct (k =? k') eqn:E.
  - apply Z.eqb_eq in E. inversion H; subst. left. reflexivity.
  - right. apply IH. assumption.
Qed.

Lemma merge_meta_keep : forall kw m k v,
  NoDup (map fst kw) -> mget k kw = Some (Some v) -> mget k (merge_meta m kw) = Some (Some v).
Proof.
  induction kw as [|[k' ov'] r IH]; simpl; intros m k v Hnd H; try discriminate.
  inversion Hnd as [|? ? Hnotin Hnd']; subst.
  destruct (k =? k') eqn:E.
  - apply Z.eqb_eq in E. subst k'. inversion H; subst ov'.
    rewrite merge_meta_absent.
    + apply mget_mset_same.
    + intros v0 Hin. apply Hnotin. apply (in_map fst) in Hin. exact Hin.
  - destruct ov' as [v'|]; apply IH; auto.
Qed.

(** fill_meta *)
Lemma fill_meta_spec : forall m req m',
  fill_meta m req = Some m' ->
  forall k, mget k m' = match mget k m with
                        | None => None
                        | Some (Some v) => Some (Some v)
                        | Some None => mget k req
                        end
            /\ mget k m' <> Some None.
Proof.
  induction m as [|[k0 [v0|]] r IH]; simpl; intros req m' H k.
  - inversion H; subst. simpl. split; [reflexivity|discriminate].
  - destruct (fill_meta r req) as [r'|] eqn:E; simpl in H; try discriminate. inversion H; subst. simpl.
    destruct (k =? k0); [split; [reflexivity|discriminate]|]. apply (IH _ _ E).
  - destruct (mget k0 req) as [[v|]|] eqn:Eg; try discriminate.
    destruct (fill_meta r req) as [r'|] eqn:E; simpl in H; try discriminate. inversion H; subst. simpl.
    destruct (k =? k0) eqn:Ek.
    + apply Z.eqb_eq in Ek. subst. rewrite Eg. split; [reflexivity|discriminate].
    + apply (IH _ _ E).
Qed.

Lemma fill_meta_id : forall m req, Forall (fun kv => snd kv <> None) m -> fill_meta m req = Some m.
Proof.
  induction m as [|[k [v|]] r IH]; simpl; intros req H; auto.
  - inversion H; subst. rewrite IH by assumption. reflexivity.
  - inversion H; subst. simpl in *. congruence.
Qed.

(** * The mask relation: code = specification *)
Lemma masks_equal_bits : forall a b tg og,
  masks_equal (Some (MBits a)) (Some (MBits b)) tg og =
  if negb (Nat.eqb (bits_ndim a) (bits_ndim b)) then Some false
  else match tg, og with
       | Some g, Some h =>
           match to_canonical g a with
           | None => None
           | Some ca => match to_canonical h b with
                        | None => None
                        | Some cb => Some (shape_eqb (bits_shape ca) (bits_shape cb) && bits_eqb ca cb)
                        end
           end
       | _, _ => Some (shape_eqb (bits_shape a) (bits_shape b) && bits_eqb a b)
       end.
Proof. reflexivity. Qed.

(** receiver side view: [masks_compatible (Some m) up false dg ug] *)
Ltac spec_false :=
  split; [discriminate |
          intros H; repeat match goal with
                           | H : _ \/ _ |- _ => destruct H
                           | H : _ /\ _ |- _ => destruct H
                           | H : exists _, _ |- _ => destruct H
                           end; discriminate].

Lemma masks_compatible_spec_in : forall m dg up ug,
  masks_compatible (Some m) up false dg ug = Some true <-> mask_accept_spec m dg up ug.
Proof.
  intros m dg up ug. unfold masks_compatible, mask_accept_spec.
  destruct up as [u|]; [|split; [discriminate|tauto]].
  destruct m as [| | |a]; destruct u as [| | |b]; simpl.
  1-4: split; auto.
  1: spec_false. 1: split; auto. 1-2: spec_false.
  1-2: spec_false.
  - (* nomask / nomask *) split; auto.
  - (* nomask / bits *)
    split.
    + intros H. right. exists b. split; auto. inversion H as [H1]. destruct (bits_any b); simpl in *; congruence.
    + intros [H|[b' [H1 H2]]]; try discriminate. inversion H1; subst. rewrite H2. reflexivity.
  - spec_false.
  - spec_false.
  - (* bits / nomask *)
    split.
    + intros H. left. split; auto. inversion H as [H1]. destruct (bits_any a); simpl in *; congruence.
    + intros [[_ H]|[b' [H _]]]; try discriminate. rewrite H. reflexivity.
  - (* bits / bits *)
    destruct (Nat.eqb (bits_ndim a) (bits_ndim b)) eqn:En; simpl.
    + apply Nat.eqb_eq in En. split.
      * intros H. right. exists b. split; auto. split; auto.
        destruct dg as [g|]; destruct ug as [h|]; try (unfold bits_same; inversion H; reflexivity).
        destruct (to_canonical g a) as [ca|]; try discriminate.
        destruct (to_canonical h b) as [cb|]; try discriminate.
        exists ca, cb. repeat split; auto. unfold bits_same. inversion H. reflexivity.
      * intros [[H _]|[b' [H1 [_ H2]]]]; try discriminate. inversion H1; subst b'.
        destruct dg as [g|]; destruct ug as [h|]; try (unfold bits_same in H2; rewrite H2; reflexivity).
        destruct H2 as [ca [cb [Ha [Hb Hs]]]]. rewrite Ha, Hb. unfold bits_same in Hs. rewrite Hs. reflexivity.
    + split; try discriminate. intros [[H _]|[b' [H1 [H2 _]]]]; try discriminate.
      inversion H1; subst b'. apply Nat.eqb_neq in En. contradiction.
Qed.

(** the same relation as used by the output (incoming from downstream) *)
Lemma masks_compatible_down : forall up m ug dg,
  masks_compatible up (Some m) true ug dg = masks_compatible (Some m) up false dg ug.
Proof. intros. unfold masks_compatible. reflexivity. Qed.

(** * accepts *)
Lemma accepts_true : forall self inc ds,
  accepts self inc ds = XOk true ->
  grid_ok self inc ds = true /\ mask_ok self inc ds = Some true /\ units_ok self inc ds = true.
Proof.
  intros self inc ds H. unfold accepts in H.
  destruct (mask_ok self inc ds) as [mk|]; try discriminate.
  inversion H as [H1]. rewrite H1. apply andb_true_iff in H1. destruct H1 as [H1 H3].
  apply andb_true_iff in H1. destruct H1 as [H1 H2]. subst mk. repeat split; auto.
Qed.

Lemma accepts_not_true : forall self inc ds,
  (grid_ok self inc ds = false \/ mask_ok self inc ds <> Some true \/ units_ok self inc ds = false) ->
  forall b, accepts self inc ds = XOk b -> b = false.
Proof.
  intros self inc ds H b Hb. destruct b; auto. apply accepts_true in Hb. destruct Hb as [H1 [H2 H3]].
  destruct H as [H|[H|H]]; congruence.
Qed.

Lemma accepts_cases : forall self inc ds, (exists b, accepts self inc ds = XOk b) \/ accepts self inc ds = XOther.
Proof.
  intros. unfold accepts. destruct (mask_ok self inc ds); [left; eexists; reflexivity | right; reflexivity].
Qed.

(** * Output.get_info *)
Lemma out_get_info_ok : forall o req o' d,
  out_get_info o req = XOk (o', d) ->
  exists oi, o_info o = Some oi /\ accepts oi req true = XOk true /\ fill_info (o_static o) oi req = XOk d
             /\ o' = mkO (Some d) (o_static o) (o_conn o) (S (o_exch o)).
Proof.
  intros o req o' d H. unfold out_get_info in H.
  destruct (o_info o) as [oi|]; try discriminate.
  destruct (accepts oi req true) as [b| | |] eqn:Ea; simpl in H; try discriminate.
  destruct b; simpl in H; try discriminate.
  destruct (fill_info (o_static o) oi req) as [oi'| | |] eqn:Ef; simpl in H; try discriminate.
  inversion H; subst. exists oi. auto.
Qed.

Lemma fill_info_ok : forall st oi req d,
  fill_info st oi req = XOk d ->
  i_grid d = orelse (i_grid oi) (i_grid req) /\ i_grid d <> None /\
  i_time d = (if st then i_time oi else orelse (i_time oi) (i_time req)) /\ (st = false -> i_time d <> None) /\
  i_units d = orelse (i_units oi) (i_units req) /\ i_units d <> None /\
  i_mask d = i_mask oi /\ (i_mask oi = None -> i_mask req <> None) /\
  fill_meta (i_meta oi) (i_meta req) = Some (i_meta d).
Proof.
  intros st oi req d H. unfold fill_info in H.
  destruct (orelse (i_grid oi) (i_grid req)) as [g|] eqn:Eg; try discriminate.
  destruct (negb (is_some (i_mask oi)) && negb (is_some (i_mask req))) eqn:Em; try discriminate.
  destruct (negb (is_some (i_time oi)) && negb st && negb (is_some (i_time req))) eqn:Et; try discriminate.
  destruct (orelse (i_units oi) (i_units req)) as [u|] eqn:Eu; try discriminate.
  destruct (fill_meta (i_meta oi) (i_meta req)) as [m|] eqn:Ef; try discriminate.
  inversion H; subst; simpl. repeat split; auto; try discriminate.
  - intros ->. destruct (i_time oi); simpl in *; try discriminate.
    destruct (i_time req); simpl in *; try discriminate.
  - intros Hn. rewrite Hn in Em. simpl in Em. destruct (i_mask req); simpl in *; try discriminate.
Qed.

Lemma fill_info_id : forall st oi req d, fully_set st oi -> fill_info st oi req = XOk d -> d = oi.
Proof.
  intros st oi req d [Hg [Ht [Hu Hm]]] H. unfold fill_info in H.
  destruct oi as [t g mk u m]; simpl in *.
  destruct g as [g|]; try congruence. destruct u as [u|]; try congruence.
  simpl in H. rewrite (fill_meta_id m (i_meta req) Hm) in H.
  destruct (negb (is_some mk) && negb (is_some (i_mask req))); try discriminate.
  destruct st.
  - destruct (negb (is_some t) && negb true && negb (is_some (i_time req))); try discriminate.
    inversion H. reflexivity.
  - destruct t as [t|]; [|exfalso; apply Ht; reflexivity]. simpl in H. inversion H. reflexivity.
Qed.

(** * Facts about a successful answer of the output *)
Lemma output_end : forall o arr o' d,
  out_get_info o arr = XOk (o', d) ->
  exists ob, o_info o = Some ob /\ o_info o' = Some d /\ o_static o' = o_static o /\ o_conn o' = o_conn o
             /\ o_exch o' = S (o_exch o) /\ output_end_agrees (o_static o) ob arr d.
Proof.
  intros o arr o' d H. apply out_get_info_ok in H. destruct H as [ob [Ho [Ha [Hf ->]]]].
  exists ob. simpl. do 5 (split; [auto|]).
  apply accepts_true in Ha. destruct Ha as [Hg [Hm Hu]].
  apply fill_info_ok in Hf. destruct Hf as [Fg [Fg' [Ft [Ft' [Fu [Fu' [Fm [Fm' Fmeta]]]]]]]].
  pose proof (fill_meta_spec _ _ _ Fmeta) as Hmeta.
  constructor.
  - repeat split; auto. intros k. apply (Hmeta k).
  - split; auto.
  - intros g h Eg Eh. unfold grid_ok in Hg. rewrite Eg, Eh in Hg. exact Hg.
  - intros u v Eu Ev. unfold units_ok in Hu. rewrite Eu, Ev in Hu. apply dims_eqb_eq. exact Hu.
  - intros m Hob Em. unfold mask_ok in Hm. destruct (i_mask ob) as [mo|] eqn:Emo; try congruence.
    rewrite Em in Hm. simpl in Hm. rewrite masks_compatible_down in Hm.
    apply masks_compatible_spec_in in Hm. exact Hm.
  - intros g Eg. rewrite Fg, Eg. reflexivity.
  - intros u Eu. rewrite Fu, Eu. reflexivity.
  - intros t Et. rewrite Ft, Et. destruct (o_static o); reflexivity.
  - intros k v Ek. destruct (Hmeta k) as [Hk _]. rewrite Ek in Hk. exact Hk.
  - intros Eg. rewrite Fg, Eg. reflexivity.
  - intros Eu. rewrite Fu, Eu. reflexivity.
  - intros Hs Et. rewrite Ft, Hs, Et. reflexivity.
  - intros Hs. rewrite Ft, Hs. reflexivity.
  - intros k Ek. destruct (Hmeta k) as [Hk _]. rewrite Ek in Hk. exact Hk.
  - intros k Ek. destruct (Hmeta k) as [Hk _]. rewrite Ek in Hk. exact Hk.
Qed.

(** * The adapter chain *)
Lemma xerr_not_ok : forall A B (r : xres A) (b : B), @xerr A B r <> XOk b.
Proof. intros A B r b. destruct r; simpl; discriminate. Qed.

Lemma xerr_refusal : forall A B (r : xres A), is_refusal r -> is_refusal (@xerr A B r).
Proof. intros A B r [->| ->]; [left|right]; reflexivity. Qed.

(** what a successful pass through the chain establishes *)
Lemma chain_ok : forall chain o req o' d,
  chain_get_info chain o req = (o', XOk d) ->
  exists ob arr oa,
    o_info o = Some ob /\ arriving chain req = XOk arr /\ out_get_info o arr = XOk (o', oa) /\
    complete (o_static o) d /\ (i_mask req = None -> i_mask d <> None) /\
    (plain_chain chain -> d = oa /\ arr = req).
Proof.
  induction chain as [|a rest IH]; intros o req o' d H; simpl in H.
  - destruct (out_get_info o req) as [[o1 d1]| | |] eqn:E; simpl in H; try discriminate.
    inversion H; subst. pose proof (output_end _ _ _ _ E) as [ob [Ho [_ [_ [_ [_ Hag]]]]]].
    exists ob, req, d. simpl. repeat split; auto; try apply (oea_complete _ _ _ _ Hag).
    intros Hn. destruct (oea_mask _ _ _ _ Hag) as [Hm1 Hm2]. rewrite Hm1. intros Hob. apply (Hm2 Hob Hn).
  - destruct (a_req a req) as [up| | |] eqn:Er; simpl in H; try discriminate.
    destruct (chain_get_info rest o up) as [o1 r] eqn:Ec.
    destruct r as [ini| | |]; simpl in H; try discriminate.
    inversion H as [[Ho1 Hresp]]; subst o1.
    destruct (IH _ _ _ _ Ec) as [ob [arr [oa [Hob [Harr [Hout [Hc [Hm Hp]]]]]]]].
    exists ob, arr, oa. simpl. rewrite Er. simpl.
    destruct Hc as [Cg [Cu [Cm Ct]]].
    destruct a as [|pt tbl|ig og om]; simpl in Er, Hresp.
    + (* plain *)
      inversion Er; subst up. inversion Hresp; subst d.
      split; [|split; [|split; [|split; [|split]]]]; auto.
      * unfold complete. auto.
      * intros Hpl. inversion Hpl as [|? ? _ Hpl']; subst. apply Hp. exact Hpl'.
    + (* sum *)
      destruct (negb (info_consistent req)); try discriminate.
      destruct (negb (info_consistent ini)); try discriminate.
      assert (Hmask : i_mask up = i_mask req) by (destruct pt; inversion Er; subst; reflexivity).
      assert (Hd : i_grid d = i_grid ini /\ i_mask d = i_mask ini /\ i_meta d = i_meta ini
                   /\ i_time d = i_time ini /\ i_units d <> None).
      { destruct pt.
        - destruct (i_units ini) as [u|]; try discriminate. inversion Hresp; subst d. simpl.
          repeat split; auto. discriminate.
        - inversion Hresp; subst d. repeat split; auto. }
      destruct Hd as [D1 [D2 [D3 [D4 D5]]]].
      split; [|split; [|split; [|split; [|split]]]]; auto.
      * unfold complete. rewrite D1, D3, D4. auto.
      * intros Hn. rewrite D2. apply Hm. congruence.
      * intros Hpl. inversion Hpl as [|? ? Habs _]; subst. discriminate Habs.
    + (* regrid *)
      destruct (negb (info_consistent req)); try discriminate. inversion Er; subst up. clear Er.
      destruct (negb (is_some og) && negb (is_some (i_grid req))); try discriminate.
      destruct (negb (is_some ig) && negb (is_some (i_grid ini))); try discriminate.
      destruct (negb (is_some om) && negb (is_some (i_mask req))) eqn:Eom; try discriminate.
      destruct (negb (is_some (i_mask ini))); try discriminate.
      match type of Hresp with (if ?c then _ else _) = _ => destruct c end; try discriminate.
      destruct (orelse ig (i_grid ini)) as [gi|]; try discriminate.
      destruct (orelse og (i_grid req)) as [go|]; try discriminate.
      destruct (negb (Nat.eqb (g_dim gi) (g_dim go))); try discriminate.
      match type of Hresp with (if ?c then _ else _) = _ => destruct c end; try discriminate.
      match type of Hresp with (if ?c then _ else _) = _ => destruct c end; try discriminate.
      destruct (negb (info_consistent ini)); try discriminate.
      match type of Hresp with (if ?c then _ else _) = _ => destruct c end; try discriminate.
      inversion Hresp; subst d. simpl.
      split; [|split; [|split; [|split; [|split]]]]; auto.
      * unfold complete. simpl. repeat split; auto. discriminate.
      * intros Hn Ho. destruct om; simpl in *; try discriminate. rewrite Hn in *. simpl in *. discriminate.
      * intros Hpl. inversion Hpl as [|? ? Habs _]; subst. discriminate Habs.
Qed.

(** the state of the output only changes through a successful answer of the output itself *)
Lemma chain_state : forall chain o req o' r,
  chain_get_info chain o req = (o', r) ->
  o' = o \/ exists arr oa, arriving chain req = XOk arr /\ out_get_info o arr = XOk (o', oa).
Proof.
  induction chain as [|a rest IH]; intros o req o' r H; simpl in H.
  - destruct (out_get_info o req) as [[o1 d1]| | |] eqn:E; simpl in H; inversion H; subst; auto.
    right. exists req, d1. auto.
  - destruct (a_req a req) as [up| | |] eqn:Er; simpl in H; try (inversion H; subst; auto; fail).
    destruct (chain_get_info rest o up) as [o1 r1] eqn:Ec. inversion H; subst o1.
    destruct (IH _ _ _ _ Ec) as [->|[arr [oa [Ha Ho]]]]; auto.
    right. exists arr, oa. simpl. rewrite Er. simpl. auto.
Qed.

Lemma out_get_info_state : forall o arr o' oa,
  out_get_info o arr = XOk (o', oa) ->
  o_info o' = Some oa /\ o_static o' = o_static o /\ o_conn o' = o_conn o /\ o_exch o' = S (o_exch o).
Proof.
  intros o arr o' oa H. destruct (output_end _ _ _ _ H) as [ob [_ [H1 [H2 [H3 [H4 _]]]]]]. auto.
Qed.

(** * The input end *)
Lemma input_accept_ok : forall st req d ii,
  complete st d -> (i_mask req = None -> i_mask d <> None) ->
  input_accept req d = XOk ii -> input_end_agrees st req d ii.
Proof.
  intros st req d ii [Cg [Cu [Cm Ct]]] Hmask H. unfold input_accept in H.
  destruct (accepts req d false) as [b| | |] eqn:Ea; simpl in H; try discriminate.
  destruct b; simpl in H; try discriminate.
  apply accepts_true in Ea. destruct Ea as [Hg [Hm Hu]].
  unfold merge in H. destruct (negb (info_consistent d)); try discriminate.
  inversion H; subst ii; clear H. simpl.
  destruct (i_grid d) as [gd|] eqn:Egd; try congruence.
  destruct (i_units d) as [ud|] eqn:Eud; try congruence.
  constructor; simpl.
  - unfold grid_ok in Hg. rewrite Egd in Hg. destruct (i_grid req) as [g|]; simpl.
    + exists g, gd. auto.
    + exists gd, gd. repeat split; auto. apply compatible_refl.
  - unfold units_ok in Hu. rewrite Eud in Hu. destruct (i_units req) as [u|]; simpl.
    + exists u, ud. repeat split; auto. apply dims_eqb_eq. exact Hu.
    + exists ud, ud. auto.
  - split; auto. unfold mask_ok in Hm. destruct (i_mask req) as [m|] eqn:Em.
    + simpl in Hm. apply masks_compatible_spec_in in Hm. unfold mask_accept_spec in Hm.
      destruct (i_mask d); [discriminate | contradiction].
    + apply Hmask. reflexivity.
  - intros m Em. unfold mask_ok in Hm. rewrite Em in Hm. simpl in Hm. rewrite <- Em in Hm.
    rewrite Em in Hm. apply masks_compatible_spec_in in Hm. rewrite ?Egd in *. exact Hm.
  - apply merge_meta_all_set. exact Cm.
  - intros Hs. destruct (i_time req); simpl; [discriminate | auto].
  - intros Hn. rewrite Hn. simpl. congruence.
  - intros Hn. rewrite Hn. simpl. congruence.
  - intros Hn. rewrite Hn. simpl. congruence.
  - intros k Hk. apply merge_meta_absent. exact Hk.
  - intros t Hn. rewrite Hn. reflexivity.
  - intros g Hn. rewrite Hn. reflexivity.
  - intros u Hn. rewrite Hn. reflexivity.
  - intros Hnd k v Hk. apply merge_meta_keep; assumption.
Qed.

(** * C07_agree *)
Lemma run_all_agree : forall cs o ob o' infos,
  o_info o = Some ob ->
  run_all o cs = (o', XOk infos) ->
  exists oz, o_info o' = Some oz /\ agrees_from (o_static o) ob cs infos oz
             /\ o_exch o' = (o_exch o + length cs)%nat /\ o_conn o' = o_conn o /\ length infos = length cs.
Proof.
  induction cs as [|c cs IH]; intros o ob o' infos Hob H; simpl in H.
  - inversion H; subst. exists ob. split; [auto|split; [constructor|split; [simpl; lia|auto]]].
  - unfold input_exchange in H.
    destruct (chain_get_info (c_chain c) o (c_info c)) as [o1 r] eqn:Ec.
    destruct r as [d| | |]; simpl in H; try (inversion H; fail).
    destruct (input_accept (c_info c) d) as [ii| | |] eqn:Ei; simpl in H; try (inversion H; fail).
    destruct (run_all o1 cs) as [o2 rr] eqn:Er.
    destruct rr as [l| | |]; simpl in H; inversion H; subst o2 infos; clear H.
    destruct (chain_ok _ _ _ _ _ Ec) as [ob' [arr [oa [Hob' [Harr [Hout [Hc [Hm Hp]]]]]]]].
    rewrite Hob in Hob'. inversion Hob'; subst ob'.
    destruct (output_end _ _ _ _ Hout) as [ob'' [Hob'' [Ho1 [Hst [Hcn [Hex Hoea]]]]]].
    rewrite Hob in Hob''. inversion Hob''; subst ob''.
    destruct (IH _ _ _ _ Ho1 Er) as [oz [Hoz [Hag [Hexz [Hcnz Hlen]]]]].
    exists oz. split; [auto|split; [|split; [|split]]].
    + rewrite Hst in Hag. econstructor; eauto. apply input_accept_ok; auto.
    + rewrite Hexz, Hex. simpl. lia.
    + congruence.
    + simpl. congruence.
Qed.

Theorem agree_main : forall oi st cs o' infos,
  run_all (init_out (Some oi) st (length cs)) cs = (o', XOk infos) ->
  exists oz, o_info o' = Some oz /\ agrees_from st oi cs infos oz /\ length infos = length cs
             /\ data_gate_open o' = true.
Proof.
  intros oi st cs o' infos H.
  assert (Hi : o_info (init_out (Some oi) st (length cs)) = Some oi) by reflexivity.
  destruct (run_all_agree cs _ oi _ _ Hi H) as [oz [Hoz [Hag [Hex [Hcn Hlen]]]]].
  exists oz. simpl in *. split; [auto|split; [auto|split; [auto|]]].
  unfold data_gate_open. rewrite Hoz, Hcn, Hex. simpl. apply Nat.leb_le. lia.
Qed.

(** without a producer info nothing is exchanged *)
Lemma no_info_no_exchange : forall cs o o' r,
  cs <> [] -> o_info o = None -> run_all o cs = (o', r) -> forall l, r <> XOk l.
Proof.
  intros cs o o' r Hne Hnone H l Hr. subst r. destruct cs as [|c cs]; try congruence.
  simpl in H. unfold input_exchange in H.
  destruct (chain_get_info (c_chain c) o (c_info c)) as [o1 r] eqn:Ec.
  destruct r as [d| | |]; simpl in H; try (inversion H; fail).
  destruct (chain_ok _ _ _ _ _ Ec) as [ob [_ [_ [Hob _]]]]. congruence.
Qed.

(** * C07_reject *)
Lemma conflict_not_accepted : forall self inc,
  conflict self inc -> forall b, accepts self inc false = XOk b -> b = false.
Proof.
  intros self inc Hc. apply accepts_not_true.
  destruct Hc as [[g [h [Eg [Eh Hc]]]]|[[u [v [Eu [Ev Hc]]]]|[m [Em [Hup Hc]]]]].
  - left. unfold grid_ok. rewrite Eg, Eh. exact Hc.
  - right. right. unfold units_ok. rewrite Eu, Ev. unfold compatible_units.
    destruct (dims_eqb (u_dims u) (u_dims v)) eqn:E; auto. apply dims_eqb_eq in E. contradiction.
  - right. left. unfold mask_ok. rewrite Em. simpl. intros H. rewrite <- Em in H. rewrite Em in H.
    apply masks_compatible_spec_in in H. contradiction.
Qed.

(** the consumer's statement conflicts with what is delivered: the input refuses *)
Lemma reject_input_end : forall req d, conflict req d -> is_refusal (input_accept req d).
Proof.
  intros req d Hc. unfold input_accept.
  destruct (accepts_cases req d false) as [[b Hb]|Hb]; rewrite Hb; simpl.
  - rewrite (conflict_not_accepted _ _ Hc _ Hb). simpl. left. reflexivity.
  - right. reflexivity.
Qed.

(** the arriving request conflicts with what the producer states: the output refuses, nothing changes *)
Definition conflict_out (ob arr : info) : Prop :=
  grid_conflict ob arr \/ units_conflict ob arr \/
  (exists m, i_mask arr = Some m /\ i_mask ob <> None /\ ~ mask_accept_spec m (i_grid arr) (i_mask ob) (i_grid ob)).

Lemma reject_out : forall o ob arr,
  o_info o = Some ob -> conflict_out ob arr -> is_refusal (out_get_info o arr).
Proof.
  intros o ob arr Ho Hc. unfold out_get_info. rewrite Ho.
  destruct (accepts_cases ob arr true) as [[b Hb]|Hb]; rewrite Hb; simpl; [|right; reflexivity].
  assert (b = false) as ->; [|left; reflexivity].
  revert b Hb. apply accepts_not_true.
  destruct Hc as [[g [h [Eg [Eh Hc]]]]|[[u [v [Eu [Ev Hc]]]]|[m [Em [Hup Hc]]]]].
  - left. unfold grid_ok. rewrite Eg, Eh. exact Hc.
  - right. right. unfold units_ok. rewrite Eu, Ev. unfold compatible_units.
    destruct (dims_eqb (u_dims u) (u_dims v)) eqn:E; auto. apply dims_eqb_eq in E. contradiction.
  - right. left. unfold mask_ok. destruct (i_mask ob) as [mo|] eqn:Emo; try congruence.
    rewrite Em. simpl. rewrite masks_compatible_down. intros H.
    apply masks_compatible_spec_in in H. contradiction.
Qed.

Lemma chain_reject_out : forall chain o req ob arr,
  o_info o = Some ob -> arriving chain req = XOk arr -> conflict_out ob arr ->
  fst (chain_get_info chain o req) = o /\ is_refusal (snd (chain_get_info chain o req)).
Proof.
  induction chain as [|a rest IH]; intros o req ob arr Ho Ha Hc; simpl in *.
  - inversion Ha; subst arr. pose proof (reject_out o ob req Ho Hc) as Hr.
    destruct (out_get_info o req) as [[o1 d1]| | |]; simpl; destruct Hr as [Hr|Hr]; try discriminate;
      split; auto; [left|right]; reflexivity.
  - destruct (a_req a req) as [up| | |] eqn:Er; simpl in Ha; try discriminate.
    destruct (IH o up ob arr Ho Ha Hc) as [H1 H2].
    destruct (chain_get_info rest o up) as [o1 r]. simpl in *. subst o1. split; auto.
    destruct H2 as [->| ->]; simpl; [left|right]; reflexivity.
Qed.

Theorem reject_main : forall chain o req ob arr,
  o_info o = Some ob -> arriving chain req = XOk arr ->
  (* (a) conflict at the output end: refused, the output is unchanged and the data gate stays closed *)
  (conflict_out ob arr ->
     fst (input_exchange chain o req) = o /\ is_refusal (snd (input_exchange chain o req))
     /\ ((o_exch o < o_conn o)%nat -> data_gate_open (fst (input_exchange chain o req)) = false))
  /\
  (* (b) conflict at the input end: refused, the consumer gets no info *)
  (forall o' d, chain_get_info chain o req = (o', XOk d) -> conflict req d ->
     is_refusal (snd (input_exchange chain o req))).
Proof.
  intros chain o req ob arr Ho Ha. split.
  - intros Hc. destruct (chain_reject_out chain o req ob arr Ho Ha Hc) as [H1 H2].
    unfold input_exchange. destruct (chain_get_info chain o req) as [o1 r]. simpl in *. subst o1.
    repeat split; auto.
    + destruct H2 as [->| ->]; simpl; [left|right]; reflexivity.
    + intros Hlt. unfold data_gate_open. rewrite Ho. simpl. apply Nat.leb_gt. exact Hlt.
  - intros o' d Hc Hconf. unfold input_exchange. rewrite Hc. simpl. apply reject_input_end. exact Hconf.
Qed.

(** a refusal anywhere makes the whole connect fail, and then not all consumers have exchanged *)
Lemma run_all_refusal : forall cs1 c cs2 o,
  (forall o1, is_refusal (snd (input_exchange (c_chain c) o1 (c_info c)))) ->
  forall l, snd (run_all o (cs1 ++ c :: cs2)) <> XOk l.
Proof.
  induction cs1 as [|c1 cs1 IH]; intros c cs2 o Href l H; simpl in H.
  - specialize (Href o). destruct (input_exchange (c_chain c) o (c_info c)) as [o1 r]. simpl in *.
    destruct Href as [->| ->]; simpl in H; discriminate.
  - destruct (input_exchange (c_chain c1) o (c_info c1)) as [o1 r].
    destruct r as [ii| | |]; simpl in H; try discriminate.
    destruct (run_all o1 (cs1 ++ c :: cs2)) as [o2 rr] eqn:E. simpl in H.
    destruct rr as [l'| | |]; simpl in H; try discriminate.
    apply (IH c cs2 o1 Href l'). rewrite E. reflexivity.
Qed.

(** * C07_fanout_order *)
Lemma out_get_info_full : forall o oi req o' d,
  o_info o = Some oi -> fully_set (o_static o) oi -> out_get_info o req = XOk (o', d) -> d = oi /\ o_info o' = Some oi.
Proof.
  intros o oi req o' d Ho Hf H. apply out_get_info_ok in H. destruct H as [oi' [Ho' [_ [Hfill ->]]]].
  rewrite Ho in Ho'. inversion Ho'; subst oi'. apply fill_info_id in Hfill; auto. subst. auto.
Qed.

(** with a fully set producer info the answer does not depend on the counters, and the info stays *)
Lemma out_get_info_indep : forall o1 o2 oi req,
  o_info o1 = Some oi -> o_info o2 = Some oi -> o_static o1 = o_static o2 ->
  match out_get_info o1 req, out_get_info o2 req with
  | XOk (_, d1), XOk (_, d2) => d1 = d2
  | XMeta, XMeta | XNoData, XNoData | XOther, XOther => True
  | _, _ => False
  end.
Proof.
  intros o1 o2 oi req H1 H2 Hs. unfold out_get_info. rewrite H1, H2, Hs.
  destruct (accepts oi req true) as [[|]| | |]; simpl; auto.
  destruct (fill_info (o_static o2) oi req); simpl; auto.
Qed.

Lemma chain_indep : forall chain o1 o2 oi req,
  fully_set (o_static o1) oi -> o_info o1 = Some oi -> o_info o2 = Some oi -> o_static o1 = o_static o2 ->
  snd (chain_get_info chain o1 req) = snd (chain_get_info chain o2 req)
  /\ o_info (fst (chain_get_info chain o1 req)) = Some oi
  /\ o_static (fst (chain_get_info chain o1 req)) = o_static o1.
Proof.
  induction chain as [|a rest IH]; intros o1 o2 oi req Hf H1 H2 Hs; simpl.
  - pose proof (out_get_info_indep o1 o2 oi req H1 H2 Hs) as Hi.
    destruct (out_get_info o1 req) as [[o1' d1]| | |] eqn:E1;
      destruct (out_get_info o2 req) as [[o2' d2]| | |] eqn:E2; simpl in *; try contradiction; auto.
    subst d2. destruct (out_get_info_full _ _ _ _ _ H1 Hf E1) as [-> Ho].
    destruct (out_get_info_state _ _ _ _ E1) as [_ [Hst _]]. auto.
  - destruct (a_req a req) as [up| | |]; simpl; auto.
    destruct (IH o1 o2 oi up Hf H1 H2 Hs) as [Ha [Hb Hc]].
    destruct (chain_get_info rest o1 up) as [o1' r1]. destruct (chain_get_info rest o2 up) as [o2' r2].
    simpl in *. subst r2. auto.
Qed.

Lemma input_exchange_indep : forall chain o oi req,
  fully_set (o_static o) oi -> o_info o = Some oi ->
  snd (input_exchange chain o req) = snd (input_exchange chain (mkO (Some oi) (o_static o) 0 0) req)
  /\ o_info (fst (input_exchange chain o req)) = Some oi
  /\ o_static (fst (input_exchange chain o req)) = o_static o.
Proof.
  intros chain o oi req Hf Ho. unfold input_exchange.
  destruct (chain_indep chain o (mkO (Some oi) (o_static o) 0 0) oi req Hf Ho eq_refl eq_refl) as [Ha [Hb Hc]].
  destruct (chain_get_info chain o req) as [o1 r1].
  destruct (chain_get_info chain (mkO (Some oi) (o_static o) 0 0) req) as [o2 r2].
  simpl in *. subst r2. auto.
Qed.

(** every consumer gets exactly what it would get alone *)
Lemma run_all_single : forall cs o oi,
  fully_set (o_static o) oi -> o_info o = Some oi ->
  forall l, snd (run_all o cs) = XOk l <-> Forall2 (fun c ii => single (o_static o) oi c = XOk ii) cs l.
Proof.
  induction cs as [|c cs IH]; intros o oi Hf Ho l; simpl.
  - split; intros H.
    + inversion H; subst. constructor.
    + inversion H; subst. reflexivity.
  - destruct (input_exchange_indep (c_chain c) o oi (c_info c) Hf Ho) as [Ha [Hb Hc]].
    destruct (input_exchange (c_chain c) o (c_info c)) as [o1 r] eqn:Ee. simpl in Ha, Hb, Hc.
    assert (Hf1 : fully_set (o_static o1) oi) by (rewrite Hc; exact Hf).
    specialize (IH o1 oi Hf1 Hb). rewrite Hc in IH.
    split; intros H.
    + destruct r as [ii| | |]; simpl in H; try discriminate.
      destruct (run_all o1 cs) as [o2 rr] eqn:Er. simpl in H, IH.
      destruct rr as [l'| | |]; simpl in H; try discriminate. inversion H; subst l.
      constructor.
      * unfold single. rewrite <- Ha. reflexivity.
      * apply IH. reflexivity.
    + inversion H as [|? ii ? l' H1 H2]; subst. unfold single in H1. rewrite H1.
      apply IH in H2. destruct (run_all o1 cs) as [o2 rr]. simpl in *. subst rr. reflexivity.
Qed.

Lemma Forall2_perm : forall (A B : Type) (P : A -> B -> Prop) (l1 l1' : list A),
  Permutation l1 l1' -> forall l2, Forall2 P l1 l2 ->
  exists l2', Forall2 P l1' l2' /\ Permutation (combine l1 l2) (combine l1' l2').
Proof.
  intros A B P l1 l1' Hp. induction Hp; intros l2 H.
  - inversion H; subst. exists []. split; constructor.
  - inversion H as [|? y ? l2t H1 H2]; subst. destruct (IHHp _ H2) as [l2' [Hf Hq]].
    exists (y :: l2'). split; [constructor; auto|]. simpl. constructor. exact Hq.
  - inversion H as [|? b1 ? l2t H1 H2]; subst. inversion H2 as [|? b2 ? l2tt H3 H4]; subst.
    exists (b2 :: b1 :: l2tt). split; [repeat constructor; auto|]. simpl. apply perm_swap.
  - destruct (IHHp1 _ H) as [l2' [Hf Hq]]. destruct (IHHp2 _ Hf) as [l2'' [Hf' Hq']].
    exists l2''. split; auto. eapply perm_trans; eauto.
Qed.

Theorem fanout_order_main : forall oi st n cs cs' l,
  fully_set st oi -> Permutation cs cs' ->
  snd (run_all (init_out (Some oi) st n) cs) = XOk l ->
  Forall2 (fun c ii => single st oi c = XOk ii) cs l /\
  exists l', snd (run_all (init_out (Some oi) st n) cs') = XOk l'
             /\ Permutation (combine cs l) (combine cs' l')
             /\ o_info (fst (run_all (init_out (Some oi) st n) cs')) = o_info (fst (run_all (init_out (Some oi) st n) cs)).
Proof.
  intros oi st n cs cs' l Hf Hp H.
  pose proof (run_all_single cs (init_out (Some oi) st n) oi Hf eq_refl l) as Hs. simpl in Hs.
  apply Hs in H. split; auto.
  destruct (Forall2_perm _ _ _ _ _ Hp _ H) as [l' [Hf' Hq]].
  exists l'. split; [|split; auto].
  - apply (run_all_single cs' (init_out (Some oi) st n) oi Hf eq_refl l'). exact Hf'.
  - assert (Hinfo : forall cs0 o, o_info o = Some oi -> o_static o = st -> o_info (fst (run_all o cs0)) = Some oi).
    { induction cs0 as [|c0 cs0 IH]; intros o Ho Hst; simpl; auto.
      assert (Hfo : fully_set (o_static o) oi) by (rewrite Hst; exact Hf).
      destruct (input_exchange_indep (c_chain c0) o oi (c_info c0) Hfo Ho) as [_ [Hb Hc]].
      destruct (input_exchange (c_chain c0) o (c_info c0)) as [o1 r]. simpl in Hb, Hc.
      destruct r; simpl; auto. assert (Hst1 : o_static o1 = st) by congruence.
      specialize (IH o1 Hb Hst1). destruct (run_all o1 cs0). simpl in *. auto. }
    rewrite !Hinfo; auto.
Qed.

(** if the producer leaves a field unset, the first requester decides: the value is taken from the
    request arriving first and every later consumer is checked against it *)
Lemma first_requester_decides : forall st ob c cs ii iis oz,
  agrees_from st ob (c :: cs) (ii :: iis) oz ->
  exists arr oa, arriving (c_chain c) (c_info c) = XOk arr /\
    (i_grid ob = None -> i_grid oa = i_grid arr /\ i_grid oz = i_grid arr) /\
    (i_units ob = None -> i_units oa = i_units arr /\ i_units oz = i_units arr) /\
    (st = false -> i_time ob = None -> i_time oa = i_time arr /\ i_time oz = i_time arr).
Proof.
  intros st ob c cs ii iis oz H. inversion H as [|? oa ? ? ? ? ? d arr Harr Hin Hout Hpl Hrest]; subst.
  exists arr, oa. split; auto.
  assert (Hkeep : forall cs0 iis0 o1 o2, agrees_from st o1 cs0 iis0 o2 ->
            (forall g, i_grid o1 = Some g -> i_grid o2 = Some g) /\
            (forall u, i_units o1 = Some u -> i_units o2 = Some u) /\
            (forall t, i_time o1 = Some t -> i_time o2 = Some t)).
  { intros cs0 iis0 o1 o2 Hag. induction Hag as [|? ? ? ? ? ? ? ? ? _ _ Ho _ _ IH]; auto.
    destruct IH as [I1 [I2 I3]]. repeat split; intros x Hx.
    - apply I1. apply (oea_keep_grid _ _ _ _ Ho). exact Hx.
    - apply I2. apply (oea_keep_units _ _ _ _ Ho). exact Hx.
    - apply I3. apply (oea_keep_time _ _ _ _ Ho). exact Hx. }
  destruct (Hkeep _ _ _ _ Hrest) as [K1 [K2 K3]].
  destruct (oea_complete _ _ _ _ Hout) as [Cg [Cu [_ Ct]]].
  repeat split.
  - apply (oea_fill_grid _ _ _ _ Hout). assumption.
  - rewrite <- (oea_fill_grid _ _ _ _ Hout) by assumption.
    destruct (i_grid oa) as [g|] eqn:E; try congruence. apply K1. reflexivity.
  - apply (oea_fill_units _ _ _ _ Hout). assumption.
  - rewrite <- (oea_fill_units _ _ _ _ Hout) by assumption.
    destruct (i_units oa) as [g|] eqn:E; try congruence. apply K2. reflexivity.
  - apply (oea_fill_time _ _ _ _ Hout); assumption.
  - rewrite <- (oea_fill_time _ _ _ _ Hout) by assumption.
    destruct (i_time oa) as [g|] eqn:E; [apply K3; reflexivity|]. exfalso. apply Ct; auto.
Qed.
