(** C01 for the generalised scheduler model FV.SchedSparse (components that publish only at every p-th update):
    in every valid composition, for ANY publication periods, no pull of any update of any run fails for lack of data.

    The argument is the one of FV.Sched applied to the "source view" of the state, [with_time st pub] (the state
    whose time field is the newest publication): the dependency walk and the pulls of FV.SchedSparse ARE the
    functions of FV.Sched on that state, so their lemmas apply unchanged. *)
From Coq Require Import List ZArith Bool Arith Lia.
From FV Require Import Base Sched SchedSparse.
From FVP Require Import Adapters_proofs Sched_proofs.
Import ListNotations.
Open Scope Z_scope.

(** the pulls of an update at an arbitrary time [t] for which the component is served *)
Lemma pull_all_ok cs (W : wf cs) n S c acc t S1 acc1 e1 :
  Inv cs S -> t0_of cs <= t -> servedn n cs S c t ->
  pull_all (Datatypes.S (length cs)) cs S c (c_inputs (getc cs c)) t acc = (S1, acc1, e1) ->
  good e1 /\ (forall x, s_time S1 x = s_time S x) /\
  (forall c0 k0 i0, nth_error (c_inputs (getc cs c0)) k0 = Some i0 -> length (s_link S1 c0 k0) = length (i_chain i0)).
Proof.
  intros [Itime Ilen] Hnt Hs PL. unfold pull_all in PL.
  set (Q := fun (k : nat) (s : state) =>
              (forall x, s_time s x = s_time S x) /\
              (forall x y, is_time cs x = false \/ x <> c \/ (k <= y)%nat -> s_link s x y = s_link S x y) /\
              (forall y, length (s_link s c y) = length (s_link S c y))).
  assert (Q0 : Q O S) by (repeat split; auto).
  destruct (pull_list_ok cs Q (fun k x s a => pull_input (Datatypes.S (length cs)) cs s c k x t a) c
              (c_inputs (getc cs c)) O S acc S1 acc1 e1) as [G [k' [Qt [Ql Qn]]]];
    [intros j x Hj; exact Hj| |exact Q0|exact PL|].
  - intros k x s1 a1 s2 a2 e2 Hx [Qt [Ql Qn]] R.
    destruct n as [|n]; [destruct Hs|].
    assert (I1 : Inv cs s1).
    { split.
      - intros c0 o0 Tc0. rewrite Qt. apply Itime; exact Tc0.
      - intros c0 k0 i0 Hi0. destruct (Nat.eq_dec c0 c) as [->|Nc].
        + rewrite Qn. apply Ilen; exact Hi0.
        + rewrite Ql by (right; left; exact Nc). apply Ilen; exact Hi0. }
    assert (Rq : req_ok n cs s1 c k x t).
    { intros lt Hlt.
      assert (Hlt' : link_req cs S c k x t = Some lt).
      { unfold link_req, link_dep, ptime_of in *. rewrite Qt in Hlt. rewrite (Ql c k) in Hlt by (right; right; lia). exact Hlt. }
      destruct (Hs k x lt Hx Hlt') as [H1 H2]. split.
      - intros Tx. rewrite Qt. exact (H1 Tx).
      - intros Tx. apply (servedn_ext_P n cs S s1 (fst (i_src x)) lt);
          [intros y; rewrite Qt; reflexivity
          |intros y z Ty; rewrite Ql by (left; exact Ty); reflexivity
          |exact Tx|exact (H2 Tx)]. }
    destruct (pull_input_ok cs W (Datatypes.S (length cs)) n s1 c k x t a1 s2 a2 e2 I1 Hx Hnt Rq R) as [G2 [Ft [Fl Fn]]].
    split; [exact G2|]. split; [intros y; rewrite Ft; apply Qt|]. split.
    + intros y z Hyz. rewrite Fl; [apply Ql|].
      * destruct Hyz as [Hy|[Hy|Hy]]; [left; exact Hy|right; left; exact Hy|right; right; lia].
      * destruct Hyz as [Hy|[Hy|Hy]]; [left; exact Hy|right; congruence|right; intros E; inversion E; lia].
    + intros y. destruct (Nat.eq_dec y k) as [->|Ny]; [rewrite Fn; apply Qn|].
      rewrite Fl by (right; congruence). apply Qn.
  - split; [exact G|]. split; [exact Qt|].
    intros c0 k0 i0 Hi0. destruct (Nat.eq_dec c0 c) as [->|Nc].
    + rewrite Qn. apply Ilen; exact Hi0.
    + rewrite Ql by (right; left; exact Nc). apply Ilen; exact Hi0.
Qed.

(** ** the recursion *)
Lemma dep_loop_sp_inv cs rec fin : forall deps r,
  dep_loop_sp cs rec fin deps = r ->
  (r = fin tt /\ forall o lt, In (o, lt) deps -> is_time cs (fst o) = false /\ rec (fst o) lt = USNone)
  \/ (exists o lt, In (o, lt) deps /\
        ((is_time cs (fst o) = true /\ r = rec (fst o) 0)
         \/ (is_time cs (fst o) = false /\ r = rec (fst o) lt /\ r <> USNone))).
Proof.
  induction deps as [|[o lt] deps IH]; intros r H; simpl in H.
  - left. split; [auto|intros o lt []].
  - destruct (is_time cs (fst o)) eqn:Ti.
    + right. exists o, lt. split; [left; reflexivity|left; auto].
    + destruct (rec (fst o) lt) eqn:R.
      * right. exists o, lt. split; [left; reflexivity|]. right. rewrite R. subst r. repeat split; auto; discriminate.
      * destruct (IH r H) as [[H1 H2]|[o' [lt' [Hin Hc]]]].
        -- left. split; [exact H1|]. intros o' lt' [E|Hin]; [inversion E; subst; auto|auto].
        -- right. exists o', lt'. split; [right; exact Hin|exact Hc].
      * right. exists o, lt. split; [left; reflexivity|]. right. rewrite R. subst r. repeat split; auto; discriminate.
      * right. exists o, lt. split; [left; reflexivity|]. right. rewrite R. subst r. repeat split; auto; discriminate.
Qed.

(** whenever the driver advances [u]: every dependency of [u] is served — in the source view of the state, i.e. with
    respect to what has actually been PUBLISHED — for [u]'s announced time *)
Lemma update_rec_sp_props fuel : forall cs pe st pub acc c chain tgt,
  (update_rec_sp fuel cs pe st pub acc c chain tgt = USNone ->
     is_time cs c = false /\ servedn fuel cs (with_time st pub) c tgt) /\
  (forall u st' pub' acc' e, update_rec_sp fuel cs pe st pub acc c chain tgt = USUpdated u st' pub' acc' e ->
     is_time cs u = true /\ do_update_sp cs pe st pub u acc = (st', pub', acc', e) /\
     servedn fuel cs (with_time st pub) u (next_time cs st u)).
Proof.
  induction fuel as [|fuel IH]; intros cs pe st pub acc c chain tgt; simpl.
  - split; [discriminate|intros; discriminate].
  - destruct (existsb (key_eqb (chain_key cs c tgt)) chain); [split; [discriminate|intros; discriminate]|].
    set (SV := with_time st pub).
    set (tgt' := if is_time cs c then next_time cs st c else tgt).
    set (rec := fun c' t' => update_rec_sp fuel cs pe st pub acc c' (chain_key cs c tgt :: chain) t').
    set (fin := fun _ : unit => if is_time cs c
                  then let '(st', pub', acc', e) := do_update_sp cs pe st pub c acc in USUpdated c st' pub' acc' e
                  else USNone).
    assert (Served : (forall o lt, In (o, lt) (find_deps cs SV c tgt') ->
                         is_time cs (fst o) = false /\ rec (fst o) lt = USNone) ->
                     servedn (S fuel) cs SV c tgt').
    { intros Hall k inp lt Hk Hr. split.
      - intros Ti. destruct (Z_lt_le_dec (s_time SV (fst (i_src inp))) lt) as [Hlag|Hok]; [|lia].
        destruct (find_deps_complete cs SV c tgt' k inp lt Hk Hr (or_intror Hlag)) as [l' [Hin _]].
        destruct (Hall _ _ Hin) as [Hf _]. congruence.
      - intros Tp.
        destruct (find_deps_complete cs SV c tgt' k inp lt Hk Hr (or_introl Tp)) as [l' [Hin Hl]].
        destruct (Hall _ _ Hin) as [_ Hn]. unfold rec in Hn.
        destruct (IH cs pe st pub acc (fst (i_src inp)) (chain_key cs c tgt :: chain) l') as [IHa _].
        destruct (IHa Hn) as [_ Hs]. eapply servedn_down; [exact Hl|exact Hs]. }
    split.
    + intros H. destruct (dep_loop_sp_inv cs rec fin _ _ H) as [[Hf Hall]|[o [lt [Hin Hc]]]].
      * unfold fin in Hf. destruct (is_time cs c) eqn:Tc.
        -- destruct (do_update_sp cs pe st pub c acc) as [[[? ?] ?] ?]. discriminate.
        -- split; [reflexivity|]. specialize (Served Hall). unfold tgt' in Served. exact Served.
      * destruct Hc as [[Ti Hr]|[Tp [Hr Hne]]]; [|congruence].
        unfold rec in Hr. symmetry in Hr.
        destruct (IH cs pe st pub acc (fst o) (chain_key cs c tgt :: chain) 0) as [IHa _].
        destruct (IHa Hr) as [Hf _]. congruence.
    + intros u st' pub' acc' e H.
      destruct (dep_loop_sp_inv cs rec fin _ _ H) as [[Hf Hall]|[o [lt [Hin Hc]]]].
      * unfold fin in Hf. destruct (is_time cs c) eqn:Tc; [|discriminate].
        destruct (do_update_sp cs pe st pub c acc) as [[[st1 pub1] acc1] e1] eqn:D. inversion Hf; subst u st' pub' acc' e.
        specialize (Served Hall). unfold tgt' in Served.
        split; [exact Tc|]. split; [exact D|]. exact Served.
      * destruct Hc as [[Ti Hrec]|[Tp [Hrec _]]]; unfold rec in Hrec; symmetry in Hrec.
        -- destruct (IH cs pe st pub acc (fst o) (chain_key cs c tgt :: chain) 0) as [_ IHb].
           destruct (IHb _ _ _ _ _ Hrec) as [Tu [Du Su]].
           split; [exact Tu|]. split; [exact Du|]. apply servedn_S; exact Su.
        -- destruct (IH cs pe st pub acc (fst o) (chain_key cs c tgt :: chain) lt) as [_ IHb].
           destruct (IHb _ _ _ _ _ Hrec) as [Tu [Du Su]].
           split; [exact Tu|]. split; [exact Du|]. apply servedn_S; exact Su.
Qed.

(** ** invariant: clock state and source view both satisfy [Inv] *)
Definition InvSp (cs : composition) (st : state) (pub : nat -> Z) : Prop :=
  Inv cs st /\ Inv cs (with_time st pub).

Lemma do_update_sp_ok cs (W : wf cs) pe n st pub c acc st' pub' acc' e :
  InvSp cs st pub -> is_time cs c = true -> servedn n cs (with_time st pub) c (next_time cs st c) ->
  do_update_sp cs pe st pub c acc = (st', pub', acc', e) ->
  good e /\ InvSp cs st' pub'.
Proof.
  intros [[Ctime Clen] IS] Tc Hs H. unfold do_update_sp in H.
  set (nt := next_time cs st c) in *.
  destruct (pull_all (S (length cs)) cs (with_time st pub) c (c_inputs (getc cs c)) nt (EU c nt :: acc))
    as [[S1 acc1] e1] eqn:PA.
  inversion H; subst st' pub' acc' e. clear H.
  pose proof (next_time_gt cs W st c Tc) as Hgt. fold nt in Hgt.
  assert (Hnt : t0_of cs <= nt).
  { specialize (Ctime c O Tc). pose proof (t0_le_init cs (c, O)). lia. }
  destruct (pull_all_ok cs W n _ c _ nt _ _ _ IS Hnt Hs PA) as [G [T1 L1]].
  split; [exact G|].
  destruct IS as [Ptime _].
  split; split.
  - intros c0 o0 Tc0. cbn [s_time]. unfold upd. destruct (Nat.eqb c0 c) eqn:E.
    + apply Nat.eqb_eq in E. subst c0. specialize (Ctime c o0 Tc). lia.
    + apply Ctime; exact Tc0.
  - intros c0 k0 i0 Hi0. cbn [s_link]. apply L1; exact Hi0.
  - intros c0 o0 Tc0. unfold with_time. cbn [s_time].
    destruct (publishes pe c (S (s_cnt st c))); [|apply (Ptime c0 o0 Tc0)].
    unfold upd. destruct (Nat.eqb c0 c) eqn:E; [|apply (Ptime c0 o0 Tc0)].
    apply Nat.eqb_eq in E. subst c0. specialize (Ctime c o0 Tc). lia.
  - intros c0 k0 i0 Hi0. unfold with_time. cbn [s_link]. apply L1; exact Hi0.
Qed.

Lemma run_loop_sp_good cs (W : wf cs) pe endt fuel : forall st pub acc o st' acc',
  InvSp cs st pub -> run_loop_sp fuel cs pe endt st pub acc = (o, st', acc') -> o <> OTime /\ o <> ONoData.
Proof.
  induction fuel as [|fuel IH]; intros st pub acc o st' acc' Hinv H; cbn [run_loop_sp] in H.
  - inversion H; subst. split; discriminate.
  - destruct (pick_min cs st 0 cs None) as [c|]; [|inversion H; subst; split; discriminate].
    destruct (update_rec_sp (rec_fuel cs) cs pe st pub acc c [] 0) as [u st1 pub1 acc1 e1| | |] eqn:U;
      try (inversion H; subst; split; discriminate).
    destruct (update_rec_sp_props (rec_fuel cs) cs pe st pub acc c [] 0) as [_ HB].
    destruct (HB _ _ _ _ _ U) as [Tu [Du Su]].
    destruct (do_update_sp_ok cs W pe _ st pub u acc st1 pub1 acc1 e1 Hinv Tu Su Du) as [[G1 G2] I1].
    destruct e1 as [[| |]|]; try congruence.
    + inversion H; subst; split; discriminate.
    + destruct (any_running st1 0 cs endt); [eapply IH; eauto|inversion H; subst; split; discriminate].
Qed.

Lemma init_InvSp cs : InvSp cs (init_state cs) (s_time (init_state cs)).
Proof.
  pose proof (init_state_Inv cs) as I. split; [exact I|].
  destruct I as [I1 I2]. split; [exact I1|exact I2].
Qed.

(** C01 for sparse publishers *)
Theorem run_sp_good cs pe endt fuel o st acc :
  wf cs -> run_sp fuel cs pe endt = (o, st, acc) -> o <> OTime /\ o <> ONoData.
Proof.
  intros W H. unfold run_sp in H. eapply run_loop_sp_good; [exact W|apply init_InvSp|exact H].
Qed.
