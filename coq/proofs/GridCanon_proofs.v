(** Proofs about FV.GridCanon (property C15). *)
From Coq Require Import List ZArith QArith Bool Arith Lia.
From FV Require Import Base Grid GridCanon.
From FVP Require Import Grid_proofs.
Import ListNotations.
Open Scope nat_scope.

(** * Basics *)
Lemma shape_eqb_eq s t : shape_eqb s t = true <-> s = t.
Proof.
  unfold shape_eqb. revert t. induction s as [|x s IH]; intros [|y t]; simpl; split; intros H;
    try reflexivity; try discriminate.
  - apply andb_true_iff in H. destruct H as [H1 H2]. apply Nat.eqb_eq in H1. apply IH in H2. congruence.
  - inversion H; subst. rewrite Nat.eqb_refl. simpl. apply IH. reflexivity.
Qed.

Lemma shape_eqb_refl s : shape_eqb s s = true.
Proof. apply shape_eqb_eq. reflexivity. Qed.

Lemma rev_short {X : Type} (l : list X) : length l <= 1 -> rev l = l.
Proof. destruct l as [|x [|y l]]; simpl; intros H; try reflexivity; lia. Qed.

Lemma mrev_invol {X : Type} b (l : list X) : mrev b (mrev b l) = l.
Proof. destruct b; simpl; [apply rev_involutive|reflexivity]. Qed.

Lemma mrev_length {X : Type} b (l : list X) : length (mrev b l) = length l.
Proof. destruct b; simpl; [apply rev_length|reflexivity]. Qed.

Lemma inb_mrev b sh idx : inb sh idx -> inb (mrev b sh) (mrev b idx).
Proof. destruct b; simpl; [apply inb_rev|auto]. Qed.

Lemma canon_shape_length g : length (canon_shape g) = gdim g.
Proof.
  unfold canon_shape, cshape_of, dims, gdim. destruct (g_pts g); rewrite ?map_length; reflexivity.
Qed.

Lemma data_shape_canon g : data_shape g = mrev (g_rev g) (canon_shape g).
Proof. apply data_shape_loc. Qed.

Lemma data_shape_length g : length (data_shape g) = gdim g.
Proof. rewrite data_shape_canon, mrev_length. apply canon_shape_length. Qed.

(** * flipidx *)
Lemma flipidx_length incs : forall sh idx, length (flipidx incs sh idx) = length idx.
Proof.
  induction incs as [|b incs IH]; intros sh idx; [reflexivity|].
  destruct sh as [|n sh], idx as [|i idx]; simpl; try reflexivity. rewrite IH. reflexivity.
Qed.

Lemma flipidx_inb incs : forall sh idx, inb sh idx -> inb sh (flipidx incs sh idx).
Proof.
  unfold inb. induction incs as [|b incs IH]; intros sh idx H; [exact H|].
  destruct H as [|i n idx sh Hi H]; simpl; [constructor|].
  constructor; [destruct b; lia|apply IH; exact H].
Qed.

Lemma flipidx_invol incs : forall sh idx, inb sh idx -> flipidx incs sh (flipidx incs sh idx) = idx.
Proof.
  unfold inb. induction incs as [|b incs IH]; intros sh idx H; [reflexivity|].
  destruct H as [|i n idx sh Hi H]; simpl; [reflexivity|].
  rewrite IH by exact H. f_equal. destruct b; lia.
Qed.

Lemma flipidx_app incs : forall L c X Y, length incs = length L -> length c = length L ->
  flipidx incs (L ++ X) (c ++ Y) = flipidx incs L c ++ Y.
Proof.
  induction incs as [|b incs IH]; intros L c X Y Hi Hc.
  - destruct L; simpl in *; [|lia]. destruct c; simpl in *; [reflexivity|lia].
  - destruct L as [|n L], c as [|i c]; simpl in *; try lia. rewrite IH by lia. reflexivity.
Qed.

(** * Index maps between a layout and the canonical form *)
Lemma layout_canon g i : inb (data_shape g) i -> layout_idx g (canon_idx g i) = i.
Proof.
  intros H. unfold layout_idx, canon_idx. rewrite flipidx_invol; [apply mrev_invol|].
  rewrite data_shape_canon in H. apply (inb_mrev (g_rev g)) in H. rewrite mrev_invol in H. exact H.
Qed.

Lemma canon_layout g c : inb (canon_shape g) c -> canon_idx g (layout_idx g c) = c.
Proof.
  intros H. unfold layout_idx, canon_idx. rewrite mrev_invol. apply flipidx_invol. exact H.
Qed.

Lemma layout_idx_inb g c : inb (canon_shape g) c -> inb (data_shape g) (layout_idx g c).
Proof.
  intros H. rewrite data_shape_canon. unfold layout_idx. apply inb_mrev. apply flipidx_inb. exact H.
Qed.

Lemma canon_idx_inb g i : inb (data_shape g) i -> inb (canon_shape g) (canon_idx g i).
Proof.
  intros H. unfold canon_idx. apply flipidx_inb.
  rewrite data_shape_canon in H. apply (inb_mrev (g_rev g)) in H. rewrite mrev_invol in H. exact H.
Qed.

Lemma layout_idx_length g c : length (layout_idx g c) = length c.
Proof. unfold layout_idx. rewrite mrev_length. apply flipidx_length. Qed.

Lemma canon_idx_length g i : length (canon_idx g i) = length i.
Proof. unfold canon_idx. rewrite flipidx_length. apply mrev_length. Qed.

(** * to_canonical / from_canonical on data of exactly the grid's shape *)
Section Exact.
  Context {A : Type}.

  Lemma guard_exact g (s : list nat) :
    s = canon_shape g ->
    negb (shape_eqb (mrev (g_rev g) (data_shape g)) (firstn (length (data_shape g)) s)) = false.
  Proof.
    intros ->. rewrite data_shape_canon, mrev_invol, mrev_length, firstn_all, shape_eqb_refl. reflexivity.
  Qed.

  Lemma tc_exact g (a : arr A) :
    a_shape a = data_shape g ->
    exists b, to_canonical g a = Some b /\ a_shape b = canon_shape g /\
              forall c, length c = gdim g -> a_get b c = a_get a (layout_idx g c).
  Proof.
    intros Hs. unfold to_canonical.
    rewrite guard_exact by (rewrite Hs, data_shape_canon; apply mrev_invol).
    eexists. split; [reflexivity|]. unfold layout_idx, ndim. rewrite Hs, data_shape_length.
    rewrite data_shape_canon in Hs.
    destruct (g_rev g); simpl in *.
    - destruct (1 <? gdim g) eqn:E; simpl.
      + rewrite Hs, rev_involutive. split; [reflexivity|]. intros c Hc. reflexivity.
      + apply Nat.ltb_ge in E.
        assert (Hr : rev (canon_shape g) = canon_shape g) by (apply rev_short; rewrite canon_shape_length; exact E).
        rewrite Hs, Hr. split; [reflexivity|]. intros c Hc.
        rewrite (rev_short (flipidx _ _ _)) by (rewrite flipidx_length; lia). reflexivity.
    - rewrite Hs. split; [reflexivity|]. intros c Hc. reflexivity.
  Qed.

  Lemma fc_exact g (b : arr A) :
    a_shape b = canon_shape g ->
    exists a, from_canonical g b = Some a /\ a_shape a = data_shape g /\
              forall i, length i = gdim g -> a_get a i = a_get b (canon_idx g i).
  Proof.
    intros Hs. unfold from_canonical. rewrite guard_exact by exact Hs.
    eexists. split; [reflexivity|]. unfold canon_idx, ndim. simpl. rewrite Hs, canon_shape_length.
    rewrite data_shape_canon.
    destruct (g_rev g); simpl.
    - destruct (1 <? gdim g) eqn:E; simpl.
      + rewrite Hs. split; [reflexivity|]. intros i Hi. reflexivity.
      + apply Nat.ltb_ge in E.
        assert (Hr : rev (canon_shape g) = canon_shape g) by (apply rev_short; rewrite canon_shape_length; exact E).
        rewrite Hs, Hr. split; [reflexivity|]. intros i Hi. rewrite (rev_short i) by lia. reflexivity.
    - rewrite Hs. split; [reflexivity|]. intros i Hi. reflexivity.
  Qed.

  (** C15_roundtrip *)
  Theorem roundtrip_data g (a : arr A) :
    a_shape a = data_shape g ->
    exists b a', to_canonical g a = Some b /\ from_canonical g b = Some a' /\
                 a_shape b = canon_shape g /\ a_shape a' = a_shape a /\
                 forall i, inb (data_shape g) i -> a_get a' i = a_get a i.
  Proof.
    intros Hs. destruct (tc_exact g a Hs) as [b [Hb [Hbs Hbg]]].
    destruct (fc_exact g b Hbs) as [a' [Ha' [Has Hag]]].
    exists b, a'. repeat split; try assumption; [congruence|].
    intros i Hi. pose proof (inb_length _ _ Hi) as Hl. rewrite data_shape_length in Hl.
    rewrite Hag by exact Hl. rewrite Hbg by (rewrite canon_idx_length; exact Hl).
    rewrite layout_canon by exact Hi. reflexivity.
  Qed.

  Theorem roundtrip_canon g (b : arr A) :
    a_shape b = canon_shape g ->
    exists a b', from_canonical g b = Some a /\ to_canonical g a = Some b' /\
                 a_shape a = data_shape g /\ a_shape b' = a_shape b /\
                 forall c, inb (canon_shape g) c -> a_get b' c = a_get b c.
  Proof.
    intros Hs. destruct (fc_exact g b Hs) as [a [Ha [Has Hag]]].
    destruct (tc_exact g a Has) as [b' [Hb' [Hbs Hbg]]].
    exists a, b'. repeat split; try assumption; [congruence|].
    intros c Hc. pose proof (inb_length _ _ Hc) as Hl. rewrite canon_shape_length in Hl.
    rewrite Hbg by exact Hl. rewrite Hag by (rewrite layout_idx_length; exact Hl).
    rewrite canon_layout by exact Hc. reflexivity.
  Qed.
End Exact.

(** * Canonical data is indexed along the increasing axes *)
Lemma coords_dir_flip inc : forall X c, length inc = length X -> inb (map (@length Q) X) c ->
  coords (dir_axes inc X) (flipidx inc (map (@length Q) X) c) = coords X c.
Proof.
  unfold inb. induction inc as [|b inc IH]; intros X c Hl Hc; destruct X as [|ax X]; simpl in *; try lia.
  - reflexivity.
  - inversion Hc as [|i n c' sh' Hi Hc']; subst. simpl. rewrite IH by (try lia; exact Hc').
    f_equal. destruct b; [reflexivity|].
    rewrite rev_nth by lia. f_equal. lia.
Qed.

Lemma loc_axes_canon g : wf_grid g -> map (@length Q) (loc_axes g) = canon_shape g.
Proof.
  intros Hwf. change (canon_shape g) with (loc_shape g).
  rewrite <- (loc_axes_lengths g Hwf), dir_axes_lengths. reflexivity.
Qed.

Lemma loc_axes_length g : length (loc_axes g) = gdim g.
Proof. unfold loc_axes, cell_axes, gdim. destruct (g_pts g); rewrite ?map_length; reflexivity. Qed.

Lemma coord_layout g c : wf_grid g -> inb (canon_shape g) c ->
  coord_at g (layout_idx g c) = coords (loc_axes g) c.
Proof.
  intros Hwf Hc. pose proof (loc_axes_canon g Hwf) as HL.
  assert (Hli : length (g_inc g) = length (loc_axes g)).
  { destruct Hwf as [H _]. rewrite loc_axes_length. exact H. }
  assert (Hf : coords (dir_axes (g_inc g) (loc_axes g)) (flipidx (g_inc g) (canon_shape g) c) = coords (loc_axes g) c).
  { rewrite <- HL. apply coords_dir_flip; [exact Hli|]. rewrite HL. exact Hc. }
  unfold coord_at, data_axes, layout_idx. destruct (g_rev g); simpl; [|exact Hf].
  rewrite <- Hf. symmetry.
  rewrite <- (rev_involutive (flipidx (g_inc g) (canon_shape g) c)) at 1.
  apply coords_rev.
  rewrite rev_length, flipidx_length, (inb_length _ _ Hc), canon_shape_length.
  rewrite <- (map_length (@length Q)), dir_axes_lengths, map_length. symmetry. apply loc_axes_length.
Qed.

(** C15_canonical_indexing *)
Theorem canonical_indexing {A : Type} g (a : arr A) c :
  wf_grid g -> a_shape a = data_shape g -> inb (canon_shape g) c ->
  exists b, to_canonical g a = Some b /\ a_shape b = canon_shape g /\
            a_get b c = a_get a (layout_idx g c) /\
            inb (data_shape g) (layout_idx g c) /\
            coord_at g (layout_idx g c) = coords (loc_axes g) c.
Proof.
  intros Hwf Hs Hc. destruct (tc_exact g a Hs) as [b [Hb [Hbs Hbg]]].
  exists b. repeat split; try assumption.
  - apply Hbg. rewrite (inb_length _ _ Hc). apply canon_shape_length.
  - apply layout_idx_inb. exact Hc.
  - apply coord_layout; assumption.
Qed.

(** * compatible_with *)
Lemma list_eqb_Qeq a b : list_eqb Qeq_bool a b = true <-> Forall2 Qeq a b.
Proof.
  revert b. induction a as [|x a IH]; intros [|y b]; simpl; split; intros H; try constructor;
    try discriminate; try (inversion H; fail).
  - apply andb_true_iff in H. apply Qeq_bool_iff. apply H.
  - apply andb_true_iff in H. apply IH. apply H.
  - inversion H; subst. apply andb_true_iff. split; [apply Qeq_bool_iff; assumption|apply IH; assumption].
Qed.

Lemma Qltb_true a b : Qltb a b = true -> (a < b)%Q.
Proof.
  unfold Qltb. intros H. apply negb_true_iff in H.
  destruct (Qlt_le_dec a b) as [Hl|Hl]; [exact Hl|].
  apply Qle_bool_iff in Hl. congruence.
Qed.

Lemma axis_close_sound a b :
  1 <= length a -> 1 <= length b -> strict_inc a -> strict_inc b ->
  axis_close a b = true -> Forall2 Qeq a b.
Proof.
  intros Ha Hb Sa Sb H. unfold axis_close in H.
  destruct (length a =? length b) eqn:E; [apply list_eqb_Qeq; exact H|].
  apply Nat.eqb_neq in E. exfalso.
  destruct a as [|x [|x' a]]; simpl in Ha; try lia.
  - (* a = [x], b has at least two entries *)
    destruct b as [|y0 [|y1 b]]; simpl in *; try lia.
    apply andb_true_iff in H. destruct H as [H0 H]. apply andb_true_iff in H. destruct H as [H1 _].
    apply Qeq_bool_iff in H0. apply Qeq_bool_iff in H1.
    unfold strict_inc in Sb. simpl in Sb. apply andb_true_iff in Sb. destruct Sb as [Sb _].
    apply Qltb_true in Sb. rewrite <- H0, <- H1 in Sb. exact (Qlt_irrefl _ Sb).
  - destruct b as [|y [|y' b]]; simpl in *; try lia.
    apply andb_true_iff in H. destruct H as [H0 H]. apply andb_true_iff in H. destruct H as [H1 _].
    apply Qeq_bool_iff in H0. apply Qeq_bool_iff in H1.
    unfold strict_inc in Sa. simpl in Sa. apply andb_true_iff in Sa. destruct Sa as [Sa _].
    apply Qltb_true in Sa. rewrite H0, H1 in Sa. exact (Qlt_irrefl _ Sa).
Qed.

Lemma axis_close_complete a b : Forall2 Qeq a b -> axis_close a b = true.
Proof.
  intros H. unfold axis_close. rewrite (Forall2_length' _ _ _ H), Nat.eqb_refl. apply list_eqb_Qeq. exact H.
Qed.

Lemma all2_sound (P : list Q -> Prop) (R : list Q -> list Q -> Prop) (f : list Q -> list Q -> bool) :
  (forall a b, P a -> P b -> f a b = true -> R a b) ->
  forall l m, length l = length m -> Forall P l -> Forall P m -> all2 f l m = true -> Forall2 R l m.
Proof.
  intros Hf. induction l as [|x l IH]; intros [|y m] Hl Pl Pm H; simpl in *; try lia; [constructor|].
  apply andb_true_iff in H. destruct H as [H1 H2]. inversion Pl; inversion Pm; subst.
  constructor; [apply Hf; assumption|apply IH; try assumption; lia].
Qed.

Lemma all2_complete {X Y : Type} (R : X -> Y -> Prop) (f : X -> Y -> bool) :
  (forall a b, R a b -> f a b = true) -> forall l m, Forall2 R l m -> all2 f l m = true.
Proof.
  intros Hf l m H. induction H; simpl; [reflexivity|]. rewrite Hf by assumption. assumption.
Qed.

Lemma same_axes_dims g h : Forall2 (Forall2 Qeq) (g_axes g) (g_axes h) -> dims g = dims h.
Proof.
  unfold dims. induction 1 as [|a b l m Hab _ IH]; simpl; [reflexivity|].
  rewrite IH, (Forall2_length' _ _ _ Hab). reflexivity.
Qed.

Definition same_locations (g h : grid) : Prop :=
  gdim g = gdim h /\ g_crs g = g_crs h /\ g_pts g = g_pts h /\
  Forall2 (Forall2 Qeq) (g_axes g) (g_axes h).

Lemma same_locations_canon g h : same_locations g h -> canon_shape g = canon_shape h.
Proof.
  intros [_ [_ [Hp Hx]]]. unfold canon_shape. rewrite Hp, (same_axes_dims g h Hx). reflexivity.
Qed.

(** C15_compatible_iff *)
Theorem compatible_iff g h : wf_axes g -> wf_axes h -> (compatible g h = true <-> same_locations g h).
Proof.
  intros [[Hgi Hg1] Hgs] [[Hhi Hh1] Hhs]. unfold compatible, same_locations. split.
  - intros H.
    apply andb_true_iff in H; destruct H as [H HE]. apply andb_true_iff in H; destruct H as [H HD].
    apply andb_true_iff in H; destruct H as [H HC]. apply andb_true_iff in H; destruct H as [HA HB].
    apply Nat.eqb_eq in HA. apply Nat.eqb_eq in HB. apply eqb_prop in HC.
    repeat split; try assumption.
    assert (HP : Forall (fun ax => 1 <= length ax /\ strict_inc ax) (g_axes g)).
    { apply Forall_forall. intros ax Hax. rewrite Forall_forall in Hg1, Hgs. split; auto. }
    assert (HQ : Forall (fun ax => 1 <= length ax /\ strict_inc ax) (g_axes h)).
    { apply Forall_forall. intros ax Hax. rewrite Forall_forall in Hh1, Hhs. split; auto. }
    refine (all2_sound _ _ axis_close _ _ _ HA HP HQ HE).
    intros a b [Ha Sa] [Hb Sb]. apply axis_close_sound; assumption.
  - intros [Hd [Hc [Hp Hx]]].
    pose proof (same_locations_canon g h (conj Hd (conj Hc (conj Hp Hx)))) as HL.
    rewrite Hd, Hc, Hp, !Nat.eqb_refl, eqb_reflx. simpl.
    rewrite (all2_complete _ axis_close axis_close_complete _ _ Hx), andb_true_r.
    apply shape_eqb_eq. rewrite !data_shape_canon, HL.
    destruct (g_rev g), (g_rev h); simpl; rewrite ?rev_involutive; reflexivity.
Qed.

Lemma Forall2_sym {X : Type} (R : X -> X -> Prop) : (forall a b, R a b -> R b a) ->
  forall l m, Forall2 R l m -> Forall2 R m l.
Proof. intros HR l m H. induction H; constructor; auto. Qed.

Lemma same_locations_sym g h : same_locations g h -> same_locations h g.
Proof.
  intros [H1 [H2 [H3 H4]]]. repeat split; try congruence.
  apply Forall2_sym; [|exact H4]. intros a b. apply Forall2_sym. intros x y. apply Qeq_sym.
Qed.

(** * The transformation applied on a link (data with leading time axis) *)
Section Link.
  Context {A : Type}.

  Lemma firstn_app_exact {X : Type} (l m : list X) n : n = length l -> firstn n (l ++ m) = l.
  Proof. intros ->. rewrite firstn_app, Nat.sub_diag, firstn_all. simpl. apply app_nil_r. Qed.

  (** step A: the source data in canonical form, time axis last *)
  Lemma to_canon_time g (d : arr A) T :
    wf_grid g -> 1 <= gdim g -> a_shape d = T :: data_shape g ->
    exists cn,
      to_canonical g (if (ndim d =? length (data_shape g) + 1) && negb (g_rev g) then move_first_last d else d) = Some cn /\
      a_shape cn = canon_shape g ++ [T] /\
      forall c t, length c = gdim g -> a_get cn (c ++ [t]) = a_get d (t :: layout_idx g c).
  Proof.
    intros [Hli _] Hn Hs.
    assert (Hnd : ndim d =? length (data_shape g) + 1 = true).
    { unfold ndim. rewrite Hs. apply Nat.eqb_eq. simpl. lia. }
    rewrite Hnd. pose proof (canon_shape_length g) as HLl. pose proof (data_shape_length g) as HDl.
    unfold to_canonical, layout_idx. rewrite data_shape_canon in *. unfold gdim in *. destruct (g_rev g); simpl in *.
    - (* reversed: transpose moves the time axis to the end *)
      rewrite Hs. simpl. rewrite !rev_involutive.
      rewrite firstn_app_exact by (rewrite rev_length; reflexivity).
      rewrite shape_eqb_refl. simpl.
      assert (E : 1 <? ndim d = true).
      { unfold ndim. rewrite Hs. simpl. apply Nat.ltb_lt. rewrite rev_length in *. lia. }
      rewrite E. eexists. split; [reflexivity|]. simpl. rewrite Hs. simpl. rewrite rev_involutive.
      split; [reflexivity|]. intros c t Hc.
      rewrite flipidx_app by lia. rewrite rev_app_distr. reflexivity.
    - rewrite Hs. simpl.
      rewrite firstn_app_exact by reflexivity. rewrite shape_eqb_refl. simpl.
      eexists. split; [reflexivity|]. simpl. rewrite Hs. simpl.
      split; [reflexivity|]. intros c t Hc.
      rewrite flipidx_app by lia. rewrite last_last, removelast_last. reflexivity.
  Qed.

  (** step B: from the canonical form (time axis last) to the target layout, time axis first *)
  Lemma from_canon_time h (cn : arr A) T :
    wf_grid h -> 1 <= gdim h -> a_shape cn = canon_shape h ++ [T] ->
    exists r0,
      from_canonical h cn = Some r0 /\
      let r := if negb (g_rev h) then move_last_first r0 else r0 in
      a_shape r = T :: data_shape h /\
      forall t j, length j = gdim h -> a_get r (t :: j) = a_get cn (canon_idx h j ++ [t]).
  Proof.
    intros [Hli _] Hn Hs. pose proof (canon_shape_length h) as HLl.
    unfold from_canonical, canon_idx. rewrite data_shape_canon, mrev_invol, mrev_length, Hs.
    rewrite firstn_app_exact by reflexivity. rewrite shape_eqb_refl. simpl negb.
    eexists. split; [reflexivity|]. unfold ndim. simpl a_shape. rewrite Hs. unfold gdim in *.
    destruct (g_rev h); simpl.
    - assert (E : 1 <? length (canon_shape h ++ [T]) = true).
      { apply Nat.ltb_lt. rewrite app_length. simpl. lia. }
      rewrite E. simpl. rewrite Hs, rev_app_distr. simpl. split; [reflexivity|].
      intros t j Hj. rewrite flipidx_app by (rewrite ?rev_length; lia). reflexivity.
    - rewrite Hs, last_last, removelast_last. split; [reflexivity|].
      intros t j Hj. rewrite flipidx_app by lia. reflexivity.
  Qed.

  Lemma trans_time g h (d : arr A) T :
    wf_grid g -> wf_grid h -> canon_shape g = canon_shape h -> gdim g = gdim h -> 1 <= gdim g ->
    a_shape d = T :: data_shape g ->
    exists r, trans g h d = Some r /\ a_shape r = T :: data_shape h /\
              forall t j, length j = gdim h -> a_get r (t :: j) = a_get d (t :: layout_idx g (canon_idx h j)).
  Proof.
    intros Hg Hh HL Hd Hn Hs.
    destruct (to_canon_time g d T Hg Hn Hs) as [cn [Hcn [Hcs Hcg]]].
    rewrite HL in Hcs.
    destruct (from_canon_time h cn T Hh ltac:(lia) Hcs) as [r0 [Hr0 [Hrs Hrg]]].
    unfold trans. rewrite Hcn, Hr0.
    assert (Hnd : ndim d =? length (data_shape g) + 1 = true).
    { unfold ndim. rewrite Hs. apply Nat.eqb_eq. simpl. lia. }
    rewrite Hnd. simpl andb. eexists. split; [reflexivity|]. split; [exact Hrs|].
    intros t j Hj. rewrite Hrg by exact Hj. apply Hcg. rewrite canon_idx_length. lia.
  Qed.

  Lemma inc_equal (l m : list bool) : length l = length m -> all2 Bool.eqb l m = true -> l = m.
  Proof.
    revert m. induction l as [|x l IH]; intros [|y m] Hl H; simpl in *; try lia; [reflexivity|].
    apply andb_true_iff in H. destruct H as [H1 H2]. apply eqb_prop in H1. rewrite (IH m) by (try lia; exact H2).
    congruence.
  Qed.

  (** C15_link_transform *)
  Theorem link_transform g h (d : arr A) T :
    wf_axes g -> wf_axes h -> 1 <= gdim g -> compatible g h = true ->
    a_shape d = T :: data_shape g ->
    exists out,
      link_deliver g h d = LOk out /\
      a_shape out = T :: data_shape h /\
      canon_shape g = canon_shape h /\
      (forall t c, inb (canon_shape h) c ->
         a_get out (t :: layout_idx h c) = a_get d (t :: layout_idx g c)) /\
      (grid_eq g h = true -> out = d).
  Proof.
    intros Wg Wh Hn Hc Hs.
    pose proof (proj1 (compatible_iff g h Wg Wh) Hc) as Hsame.
    pose proof (proj2 (compatible_iff h g Wh Wg) (same_locations_sym g h Hsame)) as Hc'.
    pose proof (same_locations_canon g h Hsame) as HL.
    destruct Hsame as [Hd _]. destruct Wg as [Wg _]. destruct Wh as [Wh _].
    unfold link_deliver, get_transform_to. rewrite Hc', Hc. simpl negb. cbv iota.
    destruct (grid_eq g h) eqn:Eq.
    - (* equal layouts: passed through *)
      unfold grid_eq in Eq. rewrite Hc in Eq. simpl in Eq. apply andb_true_iff in Eq. destruct Eq as [Ei Er].
      apply eqb_prop in Er.
      assert (Hinc : g_inc g = g_inc h).
      { apply inc_equal; [|exact Ei]. destruct Wg as [-> _]. destruct Wh as [-> _]. exact Hd. }
      assert (Hds : data_shape g = data_shape h) by (rewrite !data_shape_canon, HL, Er; reflexivity).
      rewrite Hs. simpl tl. rewrite Hds, shape_eqb_refl.
      exists d. repeat split; try assumption; [rewrite Hs, Hds; reflexivity|].
      intros t c Hcin. unfold layout_idx. rewrite Hinc, Er, HL. reflexivity.
    - destruct (trans_time g h d T Wg Wh HL Hd Hn Hs) as [r [Hr [Hrs Hrg]]].
      rewrite Hr, Hrs. simpl tl. rewrite shape_eqb_refl.
      exists r. repeat split; try assumption; [|discriminate].
      intros t c Hcin. rewrite Hrg.
      + rewrite canon_layout by exact Hcin. reflexivity.
      + rewrite layout_idx_length, (inb_length _ _ Hcin). apply canon_shape_length.
  Qed.
End Link.

(** * Compatible grids locate the element with canonical index [c] at the same coordinates *)
Lemma nth_Qeq a b : Forall2 Qeq a b -> forall i, (nth i a 0 == nth i b 0)%Q.
Proof.
  induction 1 as [|x y a b Hxy _ IH]; intros i; destruct i; simpl; try reflexivity; [exact Hxy|apply IH].
Qed.

Lemma mids_Qeq a b : Forall2 Qeq a b -> Forall2 Qeq (mids a) (mids b).
Proof.
  induction 1 as [|x y a b Hxy Hab IH]; simpl; [constructor|].
  destruct Hab as [|x' y' a' b' Hxy' Hab']; [constructor|].
  constructor; [rewrite Hxy, Hxy'; reflexivity|exact IH].
Qed.

Lemma cell_axis_Qeq a b : Forall2 Qeq a b -> Forall2 Qeq (cell_axis a) (cell_axis b).
Proof.
  intros H. unfold cell_axis. rewrite (Forall2_length' _ _ _ H).
  destruct (1 <? length b); [apply mids_Qeq; exact H|exact H].
Qed.

Lemma coords_Qeq X Y : Forall2 (Forall2 Qeq) X Y -> forall c, Forall2 Qeq (coords X c) (coords Y c).
Proof.
  induction 1 as [|a b X Y Hab _ IH]; intros c; destruct c as [|i c]; simpl; try constructor.
  - apply nth_Qeq. exact Hab.
  - apply IH.
Qed.

Lemma loc_axes_Qeq g h : g_pts g = g_pts h -> Forall2 (Forall2 Qeq) (g_axes g) (g_axes h) ->
  Forall2 (Forall2 Qeq) (loc_axes g) (loc_axes h).
Proof.
  intros Hp Hx. unfold loc_axes, cell_axes. rewrite Hp. destruct (g_pts h); [exact Hx|].
  induction Hx; simpl; constructor; [apply cell_axis_Qeq; assumption|assumption].
Qed.

Theorem link_locations g h c :
  wf_axes g -> wf_axes h -> compatible g h = true -> inb (canon_shape g) c ->
  inb (data_shape g) (layout_idx g c) /\ inb (data_shape h) (layout_idx h c) /\
  Forall2 Qeq (coord_at g (layout_idx g c)) (coord_at h (layout_idx h c)).
Proof.
  intros Wg Wh Hc Hin.
  pose proof (proj1 (compatible_iff g h Wg Wh) Hc) as Hsame.
  pose proof (same_locations_canon g h Hsame) as HL.
  destruct Hsame as [_ [_ [Hp Hx]]]. destruct Wg as [Wg _]. destruct Wh as [Wh _].
  assert (Hin' : inb (canon_shape h) c) by (rewrite <- HL; exact Hin).
  split; [apply layout_idx_inb; exact Hin|]. split; [apply layout_idx_inb; exact Hin'|].
  rewrite (coord_layout g c Wg Hin), (coord_layout h c Wh Hin').
  apply coords_Qeq. apply loc_axes_Qeq; assumption.
Qed.

(** * A static input converts once: every read returns what the first conversion delivered *)
Lemma static_reads_cached {A : Type} g h (d r : arr A) n :
  link_deliver g h d = LOk r -> static_reads g h (Some r) d n = repeat (link_deliver g h d) n.
Proof. intros E. induction n as [|n IH]; simpl; [reflexivity|]. rewrite IH, E. reflexivity. Qed.

Theorem static_reads_stable {A : Type} g h (d : arr A) n :
  static_reads g h None d n = repeat (link_deliver g h d) n.
Proof.
  induction n as [|n IH]; simpl; [reflexivity|]. f_equal.
  destruct (link_deliver g h d) as [r| | |] eqn:E; try exact IH.
  rewrite <- E. apply static_reads_cached. exact E.
Qed.

(** * Comparisons on living objects answer from the current records *)
Definition answer_ok (x : gop * list grid * gres) : Prop :=
  let '(o, st, r) := x in
  match o with
  | GCompat i j => match nth_error st i, nth_error st j with
                   | Some g, Some h => r = GB (compatible g h) | _, _ => r = GBad end
  | GEq i j => match nth_error st i, nth_error st j with
               | Some g, Some h => r = GB (grid_eq g h) | _, _ => r = GBad end
  | GTrans i j => match nth_error st i, nth_error st j with
                  | Some g, Some h => r = GT (get_transform_to g h) | _, _ => r = GBad end
  | _ => True
  end.

Theorem compat_current ops : forall st, Forall answer_ok (gtrace st ops).
Proof.
  induction ops as [|o ops IH]; intros st; simpl; [constructor|].
  destruct (gstep st o) as [st' x] eqn:E. constructor; [|apply IH].
  unfold answer_ok. destruct o as [i j|i j|i j|i pts|i]; simpl in E; try exact I;
    destruct (nth_error st i), (nth_error st j); inversion E; reflexivity.
Qed.

(** * Flat data pushed by the source: element n of the flat array is the element whose data index
    flattens to n in the grid's order (C14_index_coord: located at data_points[n]) *)
Theorem link_flat {A : Type} (d0 : A) g h (vals : list A) :
  wf_axes g -> wf_axes h -> 1 <= gdim g -> compatible g h = true ->
  exists out,
    link_deliver g h (flat_arr d0 g vals) = LOk out /\
    a_shape out = 1 :: data_shape h /\
    forall c, inb (canon_shape h) c ->
      a_get out (0 :: layout_idx h c) = nth (flat (g_c g) (data_shape g) (layout_idx g c)) vals d0.
Proof.
  intros Wg Wh Hn Hc.
  destruct (link_transform g h (flat_arr d0 g vals) 1 Wg Wh Hn Hc eq_refl) as [out [H1 [H2 [_ [H4 _]]]]].
  exists out. split; [exact H1|]. split; [exact H2|]. intros c Hin. rewrite (H4 0 c Hin). reflexivity.
Qed.

(** * A relay with its own layout between source and consumer keeps every value at its location *)
Theorem relay_transform {A : Type} g m h (d : arr A) T :
  wf_axes g -> wf_axes m -> wf_axes h -> 1 <= gdim g ->
  compatible g m = true -> compatible m h = true ->
  a_shape d = T :: data_shape g ->
  exists out,
    relay_deliver g m h d = LOk out /\
    a_shape out = T :: data_shape h /\
    canon_shape g = canon_shape h /\
    forall t c, inb (canon_shape h) c ->
      a_get out (t :: layout_idx h c) = a_get d (t :: layout_idx g c).
Proof.
  intros Wg Wm Wh Hn Hgm Hmh Hs.
  destruct (link_transform g m d T Wg Wm Hn Hgm Hs) as [a [Ha [Has [HL1 [Hav _]]]]].
  assert (Hnm : 1 <= gdim m).
  { destruct (proj1 (compatible_iff g m Wg Wm) Hgm) as [E _]. rewrite <- E. exact Hn. }
  destruct (link_transform m h a T Wm Wh Hnm Hmh Has) as [out [Ho [Hos [HL2 [Hov _]]]]].
  exists out. unfold relay_deliver. rewrite Ha. split; [exact Ho|]. split; [exact Hos|].
  split; [congruence|]. intros t c Hc. rewrite (Hov t c Hc). apply Hav. rewrite HL2. exact Hc.
Qed.
