(** Executable model of finam's "slot memory limit": buffering slots that spill
    payloads to disk (src/finam/sdk/output.py: memory_limit/memory_location 90-108,
    push_data 195-196, _pack 284-310, _unpack 312-318, _clear_data 320-331,
    finalize 333-338, _interpolate 340-361;  src/finam/adapters/time.py:
    TimeCachingAdapter 223-286 (_source_updated, _get_data, _clear_cached_data,
    _finalize), NextTime/PreviousTime/LinearTime/StepTime._interpolate 301-484;
    src/finam/adapters/time_integration.py: _source_updated 19-33, _get_data 35-56,
    AvgOverTime/SumOverTime._interpolate 111-163, 240-290).

    A slot is an [Output] or a time-caching adapter (an [Adapter] is an [Output], so
    [_pack]/[_unpack] are shared).  Its buffer [self.data] is a list of (time, entry);
    an entry is the payload itself (kept in RAM) or the name of the file it was
    written to.  Times are integer microseconds.  The file system is an association
    list; a file name "<dir>/<id(slot)>-<counter>.npy" is the triple (dir, id, counter).
    [save]/[load] ([np.save] | [MaskedArray.dump] / [np.load]) are parameters of the
    model; the proofs assume [load (save p) = p] as a Section hypothesis.

    No proofs in this file. *)
From Coq Require Import List ZArith Bool Arith.
From FV Require Import Base.
Import ListNotations.
Open Scope Z_scope.

(* ------------------------------------------------------------------ *)
(** * File names and the abstract file system *)

Definition fname : Type := (nat * nat * nat)%type.   (* directory, id(slot), counter *)

Definition fname_eqb (a b : fname) : bool :=
  let '(d1, i1, k1) := a in
  let '(d2, i2, k2) := b in
  Nat.eqb d1 d2 && Nat.eqb i1 i2 && Nat.eqb k1 k2.

(** "<d>/<i>-*.npy": the names a slot with id [i] and location [d] may create *)
Definition owned_by (d i : nat) (f : fname) : bool :=
  let '(d', i', _) := f in Nat.eqb d d' && Nat.eqb i i'.

Definition counter_of (f : fname) : nat := snd f.

Section FS.
  Context {F : Type}.
  Definition fsys : Type := list (fname * F).

  Definition fs_read (f : fname) (fs : fsys) : option F :=
    match find (fun x => fname_eqb f (fst x)) fs with
    | Some x => Some (snd x)
    | None => None
    end.
  Definition fs_mem (f : fname) (fs : fsys) : bool :=
    existsb (fun x => fname_eqb f (fst x)) fs.
  Definition fs_remove (f : fname) (fs : fsys) : fsys :=
    filter (fun x => negb (fname_eqb f (fst x))) fs.
  (** writing replaces an existing file of the same name *)
  Definition fs_write (f : fname) (c : F) (fs : fsys) : fsys :=
    fs_remove f fs ++ [(f, c)].

  Definition own_part (d i : nat) (fs : fsys) : fsys :=
    filter (fun x => owned_by d i (fst x)) fs.
  Definition other_part (d i : nat) (fs : fsys) : fsys :=
    filter (fun x => negb (owned_by d i (fst x))) fs.
End FS.
Arguments fsys : clear implicits.

(* ------------------------------------------------------------------ *)
(** * Slot kinds and what a pull reads

    The readers are polymorphic in the entry type [E]: they decide from the buffered
    times (and [_prev_time]) alone WHICH entries [_interpolate] passes to [_unpack],
    in call order.  The delivered value is a function of those unpacked payloads, the
    buffered times, [_prev_time] and the request time (arithmetic: properties C08/C11/C12). *)

Inductive kind : Type :=
| KOutput                    (* sdk.Output: nearest publication *)
| KNext | KPrev | KLinear
| KStep (num den : Z)        (* StepTime(step = num/den), den > 0 *)
| KAvg | KSum                (* AvgOverTime / SumOverTime *)
| KStatic.                   (* sdk.Output(static=True): a single publication without time *)

Definition is_integ (k : kind) : bool :=
  match k with KAvg | KSum => true | _ => false end.

Definition is_static (k : kind) : bool :=
  match k with KStatic => true | _ => false end.

Section Readers.
  Context {E : Type}.
  Definition tbuf : Type := list (Z * E).

  Fixpoint last_time (t0 : Z) (l : tbuf) : Z :=
    match l with [] => t0 | (t, _) :: r => last_time t r end.

  (** output.py 341 / time.py 263 (check_time with the buffered range) *)
  Definition in_range (b : tbuf) (time : Z) : bool :=
    match b with
    | [] => false
    | (t0, _) :: r => (t0 <=? time) && (time <=? last_time t0 r)
    end.

  (** [for i, (t, data) in enumerate(self.data): if time > t: continue ...] of
      Output (345-356), NextTime (305-309), PreviousTime (334-341), LinearTime (405-417),
      StepTime (467-479); [prev] is [self.data[i-1]]. *)
  Fixpoint scan (k : kind) (prev : option (Z * E)) (l : tbuf) (time : Z) : option (list E) :=
    match l with
    | [] => None
    | (t, e) :: r =>
        if t <? time then scan k (Some (t, e)) r time
        else match k with
             | KNext => Some [e]
             | _ =>
                 if time =? t then Some [e]
                 else match prev with
                      | None => None   (* i = 0 and time < t: excluded by the range check *)
                      | Some (tp, ep) =>
                          match k with
                          | KOutput => if time - tp <? t - time then Some [ep] else Some [e]
                          | KPrev => Some [ep]
                          | KLinear => Some [ep; e]
                          | KStep num den =>
                              (* dt = (time - tp) / (t - tp);  new if dt > step else old *)
                              if num * (t - tp) <? (time - tp) * den then Some [e] else Some [ep]
                          | _ => None
                          end
                      end
             end
    end.

  (** time_integration.py 120-152 / 252-285: [v_new = self._unpack(...)] happens at the top of
      every iteration, before the [continue] / [break] tests; [t_old] is always [self.data[i][0]]. *)
  Fixpoint integ_loop (prev time t_old : Z) (l : tbuf) : list E :=
    match l with
    | [] => []
    | (t_new, e) :: r =>
        e :: (if t_new <=? prev then integ_loop prev time t_new r
              else if time <=? t_old then []
              else integ_loop prev time t_new r)
    end.

  (** [None] = the pull raises (FinamNoDataError / FinamTimeError) and changes nothing. *)
  Definition reader (k : kind) (b : tbuf) (prev : option Z) (time : Z) : option (list E) :=
    match b with
    | [] => None
    | (t0, e0) :: r =>
        if is_static k then Some [e0]     (* output.py 268: self._unpack(self.data[0][1]), any time *)
        else if negb (in_range b time) then None
        else match k with
             | KOutput => scan k None b time
             | KAvg =>
                 match r with
                 | [] => Some [e0]
                 | _ => if time <=? t0 then Some [e0]
                        else match prev with
                             | None => None
                             | Some pv => if time - pv <=? 0 then None   (* zero-length average *)
                                          else Some (e0 :: integ_loop pv time t0 r)
                             end
                 end
             | KSum =>
                 match r with
                 | [] => Some [e0]
                 | _ => if time <=? t0 then Some [e0]
                        else match prev with
                             | None => None
                             | Some pv => Some (e0 :: integ_loop pv time t0 r)
                             end
                 end
             | _ => match r with [] => Some [e0] | _ => scan k None b time end
             end
    end.
End Readers.
Arguments tbuf : clear implicits.

(* ------------------------------------------------------------------ *)
(** * [_connected_inputs] of an Output (as in OutputM.v) *)

Definition conn : Type := list (nat * option Z).

Fixpoint set_conn (k : nat) (t : Z) (c : conn) : conn :=
  match c with
  | [] => [(k, Some t)]
  | (k', v) :: r => if Nat.eqb k k' then (k', Some t) :: r else (k', v) :: set_conn k t r
  end.

Fixpoint conn_times (c : conn) : option (list Z) :=
  match c with
  | [] => Some []
  | (_, None) :: _ => None
  | (_, Some t) :: r => match conn_times r with Some l => Some (t :: l) | None => None end
  end.

Definition conn_min (c : conn) : option Z :=
  match conn_times c with
  | Some (x :: r) => Some (fold_left Z.min r x)
  | _ => None
  end.

(* ------------------------------------------------------------------ *)
(** * The slot *)

Inductive fsev : Type :=
| Created (f : fname)
| Removed (f : fname) (existed : bool).   (* os.remove; [false] would be a FileNotFoundError *)

Section Slot.
  Context {P F : Type}.
  Variable save : P -> F.
  Variable load : F -> P.

  Inductive entry : Type :=
  | InRam (p : P) (size : Z)     (* the Quantity itself; size = data.nbytes *)
  | OnDisk (f : fname).          (* a str: the file name *)

  Definition buffer : Type := tbuf entry.

  Record config : Type := mkc {
    c_kind : kind;
    c_limit : option Z;          (* memory_limit *)
    c_dir : nat;                 (* memory_location *)
    c_sid : nat                  (* id(self) *)
  }.

  Record state : Type := mk {
    s_buf : buffer;              (* self.data, oldest first *)
    s_total : Z;                 (* _total_mem *)
    s_counter : nat;             (* _mem_counter *)
    s_conn : conn;               (* Output._connected_inputs *)
    s_prev : option Z;           (* TimeIntegrationAdapter._prev_time *)
    s_fs : fsys F;               (* the file system *)
    s_log : list fsev            (* ghost: every creation / removal so far *)
  }.

  (** output.py 286-288: [memory_limit is not None and 0 <= memory_limit < _total_mem + data_size] *)
  Definition spills (limit : option Z) (total size : Z) : bool :=
    match limit with
    | Some l => (0 <=? l) && (l <? total + size)
    | None => false
    end.

  (** output.py 312-318 *)
  Definition unpack (fs : fsys F) (e : entry) : option P :=
    match e with
    | InRam p _ => Some p
    | OnDisk f => option_map load (fs_read f fs)
    end.

  (** output.py 284-310 *)
  Definition pack (c : config) (s : state) (p : P) (size : Z) : state * entry :=
    if spills (c_limit c) (s_total s) size then
      let f := (c_dir c, c_sid c, s_counter s) in
      (mk (s_buf s) (s_total s) (S (s_counter s)) (s_conn s) (s_prev s)
          (fs_write f (save p) (s_fs s)) (s_log s ++ [Created f]),
       OnDisk f)
    else
      (mk (s_buf s) (s_total s + size) (s_counter s) (s_conn s) (s_prev s) (s_fs s) (s_log s),
       InRam p size).

  (** output.py 176-180: a static output that already holds its publication raises
      FinamStaticDataError before anything is prepared or packed — whatever the entry is. *)
  Definition refused (k : kind) (b : buffer) : bool :=
    is_static k && match b with [] => false | _ :: _ => true end.

  (** output.py 195-196, time.py 244-245, time_integration.py 29-33 *)
  Definition push_accept (c : config) (s : state) (t : Z) (p : P) (size : Z) : state :=
    let '(s1, e) := pack c s p size in
    let prev' := if is_integ (c_kind c)
                 then match s_prev s with None => Some t | x => x end
                 else s_prev s in
    mk (s_buf s1 ++ [(t, e)]) (s_total s1) (s_counter s1) (s_conn s1) prev' (s_fs s1) (s_log s1).

  Definition push (c : config) (s : state) (t : Z) (p : P) (size : Z) : state :=
    if refused (c_kind c) (s_buf s) then s else push_accept c s t p size.

  Definition store : Type := (Z * fsys F * list fsev)%type.

  (** output.py 327-331 / time.py 271-275: the popped entry *)
  Definition release (e : entry) (st : store) : store :=
    let '(total, fs, lg) := st in
    match e with
    | OnDisk f => (total, fs_remove f fs, lg ++ [Removed f (fs_mem f fs)])
    | InRam _ z => (total - z, fs, lg)
    end.

  (** [while len(self.data) > 1 and self.data[1][0] <= thr: d = self.data.pop(0); ...] *)
  Fixpoint evict (thr : Z) (b : buffer) (st : store) : buffer * store :=
    match b with
    | [] => ([], st)
    | (t0, e0) :: r =>
        match r with
        | [] => (b, st)
        | (t1, _) :: _ => if t1 <=? thr then evict thr r (release e0 st) else (b, st)
        end
    end.

  (** Eviction rule per kind: new [_connected_inputs], new [_prev_time], threshold.
      Output: output.py 321-325; Next/Previous/Linear/Step: time.py 266; Avg/Sum:
      time_integration.py 54-55. *)
  Definition threshold (k : kind) (s : state) (key : nat) (time : Z) : conn * option Z * option Z :=
    match k with
    | KOutput => let c' := set_conn key time (s_conn s) in (c', s_prev s, conn_min c')
    | KAvg | KSum => (s_conn s, Some time, s_prev s)
    | KStatic => (s_conn s, s_prev s, None)       (* output.py 273: no _clear_data for static outputs *)
    | _ => (s_conn s, s_prev s, Some time)
    end.

  (** [get_data] / [_get_data]: which payloads are read, then eviction.  The result is the list of
      unpacked payloads in call order ([None] inside = a file could not be read). *)
  Definition pull (c : config) (s : state) (key : nat) (time : Z)
    : state * option (list (option P)) :=
    match reader (c_kind c) (s_buf s) (s_prev s) time with
    | None => (s, None)
    | Some es =>
        let d := map (unpack (s_fs s)) es in
        let '(cn, pv, thr) := threshold (c_kind c) s key time in
        let '(b, (total, fs, lg)) :=
          match thr with
          | Some m => evict m (s_buf s) (s_total s, s_fs s, s_log s)
          | None => (s_buf s, (s_total s, s_fs s, s_log s))
          end in
        (mk b total (s_counter s) cn pv fs lg, Some d)
    end.

  (** output.py 333-338 / time.py 277-281: only files are removed, then [data.clear()] *)
  Fixpoint finalize_files (b : buffer) (fs : fsys F) (lg : list fsev) : fsys F * list fsev :=
    match b with
    | [] => (fs, lg)
    | (_, OnDisk f) :: r => finalize_files r (fs_remove f fs) (lg ++ [Removed f (fs_mem f fs)])
    | (_, InRam _ _) :: r => finalize_files r fs lg
    end.

  Definition finalize (s : state) : state :=
    let '(fs, lg) := finalize_files (s_buf s) (s_fs s) (s_log s) in
    mk [] (s_total s) (s_counter s) (s_conn s) (s_prev s) fs lg.

  (** Interference by everything else (other slots, other programs): the files that do not carry
      this slot's names are replaced by those of [g]; the slot's own files are left alone. *)
  Definition env_step (c : config) (s : state) (g : fsys F) : state :=
    mk (s_buf s) (s_total s) (s_counter s) (s_conn s) (s_prev s)
       (other_part (c_dir c) (c_sid c) g ++ own_part (c_dir c) (c_sid c) (s_fs s)) (s_log s).

  Inductive op : Type :=
  | Push (t : Z) (p : P) (size : Z)
  | Pull (key : nat) (t : Z)
  | Finalize
  | Env (g : fsys F).

  Definition step (c : config) (s : state) (o : op) : state * option (option (list (option P))) :=
    match o with
    | Push t p size => (push c s t p size, None)
    | Pull key t => let '(s', r) := pull c s key t in (s', Some r)
    | Finalize => (finalize s, None)
    | Env g => (env_step c s g, None)
    end.

  Fixpoint final (c : config) (s : state) (ops : list op) : state :=
    match ops with
    | [] => s
    | o :: r => final c (fst (step c s o)) r
    end.

  (** what every pull delivered ([None] for the other ops) *)
  Fixpoint delivered (c : config) (s : state) (ops : list op)
    : list (option (option (list (option P)))) :=
    match ops with
    | [] => []
    | o :: r => let '(s', x) := step c s o in x :: delivered c s' r
    end.

  Definition init (keys : list nat) (fs0 : fsys F) : state :=
    mk [] 0 0%nat (map (fun k => (k, None)) keys) None fs0 [].

  Definition unlimited (c : config) : config := mkc (c_kind c) None (c_dir c) (c_sid c).

  Definition created (lg : list fsev) : list fname :=
    flat_map (fun e => match e with Created f => [f] | _ => [] end) lg.

  Definition is_spilled (e : entry) : bool :=
    match e with OnDisk _ => true | InRam _ _ => false end.
End Slot.

Arguments entry : clear implicits.
Arguments state : clear implicits.
Arguments op : clear implicits.
Arguments buffer : clear implicits.
Arguments store : clear implicits.

(* ------------------------------------------------------------------ *)
(** * Correspondence interface

    Payload tokens are publication indices of the slot ([nat]); a file holds the token.
    One case = every buffering slot of one real composition run, each with the op sequence
    recorded at its boundary.  Observation after every op of a slot: which retained entries
    are file names, the counters of the slot's files present in the spill directory, and for
    a pull the publication indices handed to [_unpack] in call order. *)

Definition c10_slot_case : Type := (kind * option Z * list nat) * list (op nat nat).
Definition c10_op_obs : Type := (list bool * list nat) * option (option (list (option nat))).
Definition c10_case : Type := list c10_slot_case.
Definition c10_obs : Type := list (list c10_op_obs).

Definition c10_cfg (sid : nat) (sc : c10_slot_case) : config :=
  let '(k, lim, _) := fst sc in mkc k lim 0%nat sid.

Fixpoint c10_run (c : config) (s : state nat nat) (ops : list (op nat nat)) : list c10_op_obs :=
  match ops with
  | [] => []
  | o :: r =>
      let '(s', x) := step (fun p => p) (fun p => p) c s o in
      ((map (fun te => is_spilled (snd te)) (s_buf s'),
        map (fun x => counter_of (fst x)) (own_part (c_dir c) (c_sid c) (s_fs s'))), x)
      :: c10_run c s' r
  end.

Fixpoint c10_model_from (sid : nat) (cs : c10_case) : c10_obs :=
  match cs with
  | [] => []
  | sc :: r =>
      c10_run (c10_cfg sid sc) (init (snd (fst sc)) []) (snd sc) :: c10_model_from (S sid) r
  end.

Definition c10_model (cs : c10_case) : c10_obs := c10_model_from 0 cs.

Definition c10_op_obs_eqb (a b : c10_op_obs) : bool :=
  list_eqb Bool.eqb (fst (fst a)) (fst (fst b))
  && list_eqb Nat.eqb (snd (fst a)) (snd (fst b))
  && option_eqb (option_eqb (list_eqb (option_eqb Nat.eqb))) (snd a) (snd b).

Definition c10_check (x : c10_case * c10_obs) : bool :=
  list_eqb (list_eqb c10_op_obs_eqb) (c10_model (fst x)) (snd x).
