(** Executable model of finam's mask handling (C18).

    src/finam/data/tools/mask.py : to_compressed 117-148, from_compressed 151-205,
                                   masks_compatible 243-285, masks_equal 288-335, mask_specified 367-381
    src/finam/data/tools/core.py : prepare 64-107 (mask application), _mask_for 116-126,
                                   _check_input_shape 129-165 (flat payloads reshaped in grid order)
    src/finam/data/tools/info.py : Info.accepts 187-192 (mask part)
    src/finam/data/grid_base.py  : StructuredGrid.to_canonical 500-532
    src/finam/sdk/output.py get_info 383-426 / sdk/input.py exchange_info 193-210 (mask part)

    Arrays are FV.Arr arrays of any rank.  No proofs in this file. *)
From Coq Require Import List ZArith Bool Arith.
From FV Require Import Base Arr.
Import ListNotations.

(** * Mask specifications (the [mask] field of an Info / the [mask] argument of the helpers) *)

Inductive mspec :=
| MUnset                    (* None *)
| MFlex                     (* Mask.FLEX: masked or unmasked *)
| MNone                     (* Mask.NONE: plain unmasked arrays *)
| MNomask                   (* np.ma.nomask: masked-array type without masked entries *)
| MBits (m : arr bool).     (* explicit boolean mask, true = masked *)

(** mask.py 367-381: [not any(mask is val for val in list(Mask))]  (so None counts as "specified") *)
Definition mask_specified (m : mspec) : bool :=
  match m with MFlex | MNone => false | _ => true end.

(** np.ma.is_mask: nomask or a boolean ndarray *)
Definition is_mask (m : mspec) : bool :=
  match m with MNomask | MBits _ => true | _ => false end.

Definition is_unset (m : mspec) : bool := match m with MUnset => true | _ => false end.

(** [==] between values none of which is an array *)
Definition plain_eqb (a b : mspec) : bool :=
  match a, b with
  | MUnset, MUnset | MFlex, MFlex | MNone, MNone => true
  | _, _ => false
  end.

Definition any_true (m : arr bool) : bool := existsb (fun b => b) (ravel OC m).

(** * Grid layouts, as far as masks see them *)

Inductive gspec :=
| GPlain                                            (* NoGrid / unstructured: to_canonical = identity *)
| GStruct (reversed : bool) (increase : list bool). (* StructuredGrid: axes_reversed, axes_increase (xyz) *)

(** grid_base.py 526-531: [for i, inc in enumerate(self.axes_increase): if not inc: flip(axis=i)] *)
Fixpoint flip_loop {A : Type} (i : nat) (inc : list bool) (a : arr A) : arr A :=
  match inc with
  | [] => a
  | b :: r => flip_loop (S i) r (if b then a else flip i a)
  end.

(** grid_base.py 500-532 (the shape guard always passes for the mask of a well-formed Info,
    whose shape is the grid's data shape: info.py 91-102) *)
Definition to_canonical {A : Type} (g : gspec) (a : arr A) : arr A :=
  match g with
  | GPlain => a
  | GStruct reversed inc =>
      let a1 := if reversed && (1 <? length (ashape a)) then transpose a else a in
      flip_loop 0 inc a1
  end.

(** grid_base.py 534-566 *)
Definition from_canonical {A : Type} (g : gspec) (a : arr A) : arr A :=
  match g with
  | GPlain => a
  | GStruct reversed inc =>
      let a1 := flip_loop 0 inc a in
      if reversed && (1 <? length (ashape a1)) then transpose a1 else a1
  end.

(** * masks_equal, masks_compatible *)

(** mask.py 288-335 (current code: without both grids the arrays are compared as they are) *)
Definition masks_equal (this other : mspec) (tg og : option gspec) : bool :=
  if is_unset this && is_unset other then true
  else if negb (mask_specified this) && negb (mask_specified other) then plain_eqb this other
  else if negb (is_mask this) || negb (is_mask other) then false
  else match this, other with
       | MNomask, MNomask => true
       | MNomask, MBits o => negb (any_true o)
       | MBits t, MNomask => negb (any_true t)
       | MBits t, MBits o =>
           if negb (length (ashape t) =? length (ashape o)) then false
           else match tg, og with
                | Some g1, Some g2 => barr_eqb (to_canonical g1 t) (to_canonical g2 o)
                | _, _ => barr_eqb t o
                end
       | _, _ => false
       end.

(** mask.py 243-285 *)
Definition masks_compatible (this incoming : mspec) (incoming_downstream : bool)
    (this_grid incoming_grid : option gspec) : bool :=
  let '(upstream, downstream, up_grid, down_grid) :=
    if incoming_downstream then (this, incoming, this_grid, incoming_grid)
    else (incoming, this, incoming_grid, this_grid) in
  if is_unset upstream then false
  else if negb (mask_specified downstream) then
    if negb (mask_specified upstream)
    then plain_eqb downstream MFlex || plain_eqb upstream MNone
    else plain_eqb downstream MFlex
  else if negb (mask_specified upstream) then false
  else masks_equal downstream upstream down_grid up_grid.

(** info.py 187-192: the mask part of [Info.accepts] (true = "mask" not put into fail_info) *)
Definition accepts_mask (self_m : mspec) (self_g : option gspec) (inc_m : mspec) (inc_g : option gspec)
    (incoming_downstream : bool) : bool :=
  is_unset self_m
  || masks_compatible self_m inc_m incoming_downstream self_g inc_g
  || (incoming_downstream && is_unset inc_m).

(** The mask part of a metadata exchange over a direct link  Output >> Input, for grids that are
    compatible (or unset on one side): output.py get_info (accepts with incoming_downstream=True,
    grid filled from the target when unset, refusal when neither side provides a mask),
    input.py exchange_info (accepts, then
    [src_info.copy_with(...)]: the input ends up with the producer's mask).
    [None] = FinamMetaDataError; [Some m] = mask of the input's info after the exchange. *)
Definition exchange (om : mspec) (og : option gspec) (im : mspec) (ig : option gspec) : option mspec :=
  if accepts_mask om og im ig true then
    match (match og with Some g => Some g | None => ig end) with
    | None => None                                   (* "Can't set property grid from target info" *)
    | Some g' =>
        if is_unset om && is_unset im then None      (* "Can't set property mask from target info" *)
        else if accepts_mask im ig om (Some g') false then Some om else None
    end
  else None.

(** * to_compressed / from_compressed *)

(** how the data array itself is given *)
Inductive ownmask :=
| Plain                        (* ndarray (possibly inside a pint Quantity) *)
| OwnNomask                    (* MaskedArray whose mask is nomask *)
| OwnBits (m : arr bool).      (* MaskedArray with a full mask *)

Definition own_is_masked (w : ownmask) : bool := match w with Plain => false | _ => true end.

(** the mask that the helpers finally use: the array's own mask wins over the argument (mask.py 144) *)
Definition effective_mask (w : ownmask) (arg : mspec) : mspec :=
  match w with Plain => arg | OwnNomask => MNomask | OwnBits m => MBits m end.

Section Compress.
  Context {A : Type}.

  (** mask.py 141-148 *)
  Definition to_compressed (x : arr A) (w : ownmask) (o : order) (mask : mspec) : list A :=
    if own_is_masked w || (negb (is_unset mask) && mask_specified mask) then
      let data := ravel o x in
      match effective_mask w mask with
      | MBits m => compress (map negb (ravel o m)) data     (* data.compress(~ravel(mask, order)) *)
      | _ => data                                            (* mask is nomask *)
      end
    else ravel o x.                                          (* np.reshape(xdata, -1, order) *)

  Inductive fc_result :=
  | FcErr                                                    (* FinamDataError *)
  | FcPlain (d : arr (option A))                             (* plain ndarray *)
  | FcMasked (d : arr (option A)) (m : option (arr bool)).   (* MaskedArray; mask None = nomask *)

  (** mask.py 192-205.  Data entries are [Some v]; [None] marks an entry of the [np.empty_like]
      buffer that was never written.  Domain: [length vals] = number of unmasked entries. *)
  Definition from_compressed (vals : list A) (sh : shape) (o : order) (mask : mspec) (kwargs : bool)
      : fc_result :=
    match mask with
    | MBits m =>
        let keep := map negb (ravel o m) in
        FcMasked (of_list o sh (scatter keep (map Some vals) None) None) (Some m)
    | _ =>
        if kwargs && plain_eqb mask MNone then FcErr
        else
          let d := of_list o sh (map Some vals) None in
          if kwargs || is_mask mask then FcMasked d None else FcPlain d
    end.

  (** * prepare (mask part) *)

  Inductive payload_form := Flat | Shaped | Timed.   (* (size,) | data_shape | (1, *data_shape) *)

  (** core.py 64-107 + 116-126 + 129-165 for a Grid with data shape [sh] and memory order [o],
      a payload whose C-order ravel is [vals] (for [Flat]: the vector itself), the payload's own
      mask [w] (C-order ravel, same form) and the info's mask [im].
      Result: C-order ravel of result[0] and of its mask ([None]: the result is no MaskedArray). *)
  Definition prepare_mask (sh : shape) (o : order) (form : payload_form) (vals : list A) (d : A)
      (w : option (option (list bool))) (im : mspec) : list A * option (list bool) :=
    let n := size sh in
    (* step 1: wrap plain data into a masked array when the info is masked *)
    let mask1 : option (list bool) :=
      match w with
      | Some (Some b) => Some b                      (* np.ma.isarray(data): kept as it is *)
      | Some None => Some (repeat false n)
      | None =>
          if mask_specified im then
            Some (match im with
                  | MBits m => match form with
                               | Flat => ravel o m   (* _mask_for: np.ravel(mask, order=grid.order) *)
                               | _ => ravel OC m     (* numpy reshapes the mask to the data shape *)
                               end
                  | _ => repeat false n              (* nomask, shrink=False *)
                  end)
          else None
      end in
    (* step 2: _check_input_shape: flat payloads are reshaped in the grid's order *)
    let to_grid {X : Type} (l : list X) (dx : X) : list X :=
      match form with Flat => ravel OC (of_list o sh l dx) | _ => l end in
    (to_grid vals d, option_map (fun b => to_grid b false) mask1).
End Compress.

Arguments fc_result : clear implicits.

(** * An Info object that is re-used and mutated (history independence)

    info.py: [grid] / [mask] setters 79-102, [copy_with] 125-155, [__copy__] 203-205.  The model
    of an Info consists of its CURRENT fields only; every operation is a function of them. *)

Record info_state := mkinfo {
  i_shape : shape;        (* data shape of the current grid *)
  i_order : order;        (* memory order of the current grid *)
  i_grid  : gspec;        (* layout of the current grid *)
  i_mask  : mspec }.

Inductive info_op :=
| IPrepare (form : payload_form) (vals : list Z)    (* prepare(plain payload, info) *)
| ISetGrid (o : order) (g : gspec)                  (* info.grid = grid of the same data shape *)
| ISetMask (m : mspec)                              (* info.mask = m *)
| ICopyWith (og : option (order * gspec)) (om : option mspec)   (* info = info.copy_with(...) *)
| ICopy                                             (* info = copy.copy(info) *)
| IAccepts (other : mspec) (down : bool)            (* info.accepts(Info(grid=info.grid, mask=other)) *)
| IAcceptsDerived (g : gspec) (down : bool).        (* info.accepts(info.copy_with(grid=other layout)):
                                                       the derived info shares the mask OBJECT; the model
                                                       has no object identity, only the value counts *)

Inductive seq_obs :=
| SPrep (d : list Z) (m : option (list bool))
| SAcc (mask_ok : bool)
| SRefused                 (* FinamMetaDataError: the operation is refused, the info stays as it was *)
| SNothing.

(** info.py 91-102: the mask setter refuses ("Mask in Info not compatible with given grid") an
    explicit mask whose shape is not the data shape of the grid; everything else is stored *)
Definition mask_fits (sh : shape) (m : mspec) : bool :=
  match m with
  | MBits a => nat_list_eqb sh (ashape a)
  | _ => true
  end.

Definition info_step (st : info_state) (op : info_op) : info_state * seq_obs :=
  match op with
  | IPrepare form vals =>
      let r := prepare_mask (i_shape st) (i_order st) form vals 0%Z None (i_mask st) in
      (st, SPrep (fst r) (snd r))
  | ISetGrid o g => (mkinfo (i_shape st) o g (i_mask st), SNothing)
  | ISetMask m =>
      if mask_fits (i_shape st) m
      then (mkinfo (i_shape st) (i_order st) (i_grid st) m, SNothing)
      else (st, SRefused)                             (* raised BEFORE anything is stored *)
  | ICopyWith og om =>
      let '(o, g) := match og with Some p => p | None => (i_order st, i_grid st) end in
      let m' := match om with Some m => m | None => i_mask st end in
      if mask_fits (i_shape st) m'
      then (mkinfo (i_shape st) o g m', SNothing)
      else (st, SRefused)                             (* the half-built copy is dropped *)
  | ICopy => (st, SNothing)
  | IAccepts other down =>
      (st, SAcc (accepts_mask (i_mask st) (Some (i_grid st)) other (Some (i_grid st)) down))
  | IAcceptsDerived g down =>
      (st, SAcc (accepts_mask (i_mask st) (Some (i_grid st)) (i_mask st) (Some g) down))
  end.

Fixpoint info_run (st : info_state) (ops : list info_op) : list seq_obs :=
  match ops with
  | [] => []
  | op :: r => let (st', ob) := info_step st op in ob :: info_run st' r
  end.

Fixpoint info_final (st : info_state) (ops : list info_op) : info_state :=
  match ops with
  | [] => st
  | op :: r => info_final (fst (info_step st op)) r
  end.

(** * Correspondence interface *)

Definition mkbits (sh : shape) (bits : list bool) : mspec := MBits (of_list OC sh bits false).

Definition mk_own (sh : shape) (w : option (option (list bool))) : ownmask :=
  match w with
  | None => Plain
  | Some None => OwnNomask
  | Some (Some b) => OwnBits (of_list OC sh b false)
  end.

Inductive c18_case :=
| KRound (sh : shape) (o : order) (vals : list Z) (w : option (option (list bool))) (arg : mspec) (kw : bool)
| KPrepare (sh : shape) (o : order) (form : payload_form) (vals : list Z)
           (w : option (option (list bool))) (im : mspec)
| KAccept (sm : mspec) (sg : option gspec) (im : mspec) (ig : option gspec) (down : bool)
| KExchange (om : mspec) (og : option gspec) (im : mspec) (ig : option gspec)
| KSeq (st : info_state) (ops : list info_op).

(** observed result of from_compressed: C-order data ([None] at masked entries) and mask *)
Inductive fc_obs :=
| RErr
| RPlain (sh : shape) (d : list (option Z))
| RMasked (sh : shape) (d : list (option Z)) (m : list bool).   (* np.ma.getmaskarray, C order *)

Inductive c18_obs :=
| ORound (comp : list Z) (r : fc_obs)
| OPrepare (d : list Z) (m : option (list bool))
| OAccept (mask_ok : bool) (compatible : bool)
| OExchange (r : option mspec)
| OSeq (l : list seq_obs)
| OOther (n : nat).        (* anything the model cannot produce (unexpected exception class) *)

(** entries under the mask are not observable (uninitialised memory in the implementation) *)
Definition hide_masked (d : list (option Z)) (m : list bool) : list (option Z) :=
  map (fun p : option Z * bool => if snd p then None else fst p) (combine d m).

Definition fc_observe (r : fc_result Z) : fc_obs :=
  match r with
  | FcErr => RErr
  | FcPlain d => RPlain (ashape d) (ravel OC d)
  | FcMasked d None => RMasked (ashape d) (ravel OC d) (repeat false (size (ashape d)))
  | FcMasked d (Some m) => RMasked (ashape d) (hide_masked (ravel OC d) (ravel OC m)) (ravel OC m)
  end.

Definition c18_model (c : c18_case) : c18_obs :=
  match c with
  | KRound sh o vals w arg kw =>
      let x := of_list OC sh vals 0%Z in
      let own := mk_own sh w in
      let comp := to_compressed x own o arg in
      ORound comp (fc_observe (from_compressed comp sh o (effective_mask own arg) kw))
  | KPrepare sh o form vals w im =>
      let r := prepare_mask sh o form vals 0%Z w im in OPrepare (fst r) (snd r)
  | KAccept sm sg im ig down =>
      OAccept (accepts_mask sm sg im ig down) (masks_compatible sm im down sg ig)
  | KExchange om og im ig => OExchange (exchange om og im ig)
  | KSeq st ops => OSeq (info_run st ops)
  end.

Definition optZ_eqb := option_eqb Z.eqb.
Definition obits_eqb := option_eqb bool_list_eqb.

Definition mspec_eqb (a b : mspec) : bool :=
  match a, b with
  | MUnset, MUnset | MFlex, MFlex | MNone, MNone | MNomask, MNomask => true
  | MBits x, MBits y => barr_eqb x y
  | _, _ => false
  end.

Definition fc_obs_eqb (a b : fc_obs) : bool :=
  match a, b with
  | RErr, RErr => true
  | RPlain s1 d1, RPlain s2 d2 => nat_list_eqb s1 s2 && list_eqb optZ_eqb d1 d2
  | RMasked s1 d1 m1, RMasked s2 d2 m2 =>
      nat_list_eqb s1 s2 && list_eqb optZ_eqb d1 d2 && bool_list_eqb m1 m2
  | _, _ => false
  end.

Definition seq_obs_eqb (a b : seq_obs) : bool :=
  match a, b with
  | SPrep d1 m1, SPrep d2 m2 => list_eqb Z.eqb d1 d2 && obits_eqb m1 m2
  | SAcc x, SAcc y => Bool.eqb x y
  | SNothing, SNothing => true
  | SRefused, SRefused => true
  | _, _ => false
  end.

Definition c18_obs_eqb (a b : c18_obs) : bool :=
  match a, b with
  | OSeq l1, OSeq l2 => list_eqb seq_obs_eqb l1 l2
  | ORound c1 r1, ORound c2 r2 => list_eqb Z.eqb c1 c2 && fc_obs_eqb r1 r2
  | OPrepare d1 m1, OPrepare d2 m2 => list_eqb Z.eqb d1 d2 && obits_eqb m1 m2
  | OAccept a1 b1, OAccept a2 b2 => Bool.eqb a1 a2 && Bool.eqb b1 b2
  | OExchange r1, OExchange r2 => option_eqb mspec_eqb r1 r2
  | _, _ => false
  end.

Definition c18_check (x : c18_case * c18_obs) : bool := c18_obs_eqb (c18_model (fst x)) (snd x).

(** printable form of the model's observation (replay files) *)
Inductive mshow := SUnset | SFlex | SNone | SNomask | SBits (sh : shape) (bits : list bool).
Definition show_mspec (m : mspec) : mshow :=
  match m with
  | MUnset => SUnset | MFlex => SFlex | MNone => SNone | MNomask => SNomask
  | MBits a => SBits (ashape a) (ravel OC a)
  end.
Definition c18_model_show (c : c18_case) : c18_obs + option mshow :=
  match c18_model c with
  | OExchange r => inr (option_map show_mspec r)
  | x => inl x
  end.
