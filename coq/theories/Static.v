(** Executable model for C20: static slots and pull-based (on demand) components.

    Mirrors
    - src/finam/sdk/output.py  Output.push_data 152-202 / get_data 234-282 (static branches
      176-181, 266-272), CallbackOutput.get_data 496-544;
    - src/finam/sdk/input.py   Input.pull_data 101-136 (static caching 125-130);
    - src/finam/sdk/adapter.py Adapter.get_data 194-224, TimeDelayAdapter.get_data 380-413,
      src/finam/adapters/time.py DelayFixed.with_delay 73-78, adapters/base.py Scale;
    - src/finam/components/mergers.py WeightedSum._get_data 130-154 (memo _last_update/_out_data).

    Times are integer microseconds ([Z]); data are exact rationals ([Q]) or abstract tokens.
    No proofs in this file. *)
From Coq Require Import List ZArith QArith Qabs Qminmax Bool.
From FV Require Import Base.
From FV Require OutputM.
Import ListNotations.
Open Scope Z_scope.

(** error classes (finam.errors) *)
Inductive err : Type :=
| ETime     (* FinamTimeError *)
| ENoData   (* FinamNoDataError *)
| EStatic   (* FinamStaticDataError *)
| EData     (* FinamDataError *)
| EOther.   (* anything else / model out of fuel: never matches an implementation observation *)

Inductive res (A : Type) : Type :=
| Ok (a : A)
| Err (e : err).
Arguments Ok {A} a.
Arguments Err {A} e.

Definition map_res {A B : Type} (f : A -> B) (r : res A) : res B :=
  match r with Ok a => Ok (f a) | Err e => Err e end.

Definition err_eqb (a b : err) : bool :=
  match a, b with
  | ETime, ETime | ENoData, ENoData | EStatic, EStatic | EData, EData => true
  | _, _ => false   (* EOther equals nothing, not even itself *)
  end.

Definition optZ_eqb (a b : option Z) : bool := option_eqb Z.eqb a b.

(* ------------------------------------------------------------------------- *)
(** * 1. Static output (Output(static=True)) *)

Section SO.
  Context {A : Type}.

  (** [so_exch]: the output info was exchanged with all connected inputs
      ([_out_infos_exchanged >= len(_connected_inputs)]); [so_data]: [self.data] (0 or 1 entry). *)
  Record sout : Type := mkSO { so_exch : bool; so_data : option A }.

  Definition so_init : sout := mkSO false None.

  (** output.py 173-181, 196: refuse before the info exchange; refuse a second publication;
      otherwise store the entry with [time = None]. *)
  Definition so_push (s : sout) (d : A) : sout * res unit :=
    if negb (so_exch s) then (s, Err ENoData)
    else match so_data s with
         | Some _ => (s, Err EStatic)
         | None => (mkSO true (Some d), Ok tt)
         end.

  (** output.py 259-272: the request time (a time or [None]) is not looked at. *)
  Definition so_get (s : sout) (t : option Z) : res A :=
    if negb (so_exch s) then Err ENoData
    else match so_data s with
         | None => Err ENoData
         | Some d => Ok d
         end.

  Inductive sop : Type :=
  | SExch                    (* all connected inputs exchange their info *)
  | SPush (d : A)
  | SGet (t : option Z).

  Inductive sobs : Type :=
  | XNone
  | XPush (r : res unit)
  | XGet (r : res A).

  Definition so_step (s : sout) (o : sop) : sout * sobs :=
    match o with
    | SExch => (mkSO true (so_data s), XNone)
    | SPush d => let '(s', r) := so_push s d in (s', XPush r)
    | SGet t => (s, XGet (so_get s t))
    end.

  Fixpoint so_run (s : sout) (ops : list sop) : list sobs :=
    match ops with
    | [] => []
    | o :: r => let '(s', x) := so_step s o in x :: so_run s' r
    end.

  Fixpoint so_final (s : sout) (ops : list sop) : sout :=
    match ops with
    | [] => s
    | o :: r => so_final (fst (so_step s o)) r
    end.
End SO.
Arguments sout : clear implicits.
Arguments sop : clear implicits.
Arguments sobs : clear implicits.

(* ------------------------------------------------------------------------- *)
(** * 1b. Static output with a memory limit: the single entry lives in RAM or in a spill file
    (output.py _pack 284-310: spill iff limit is set and 0 <= limit < total + size; total = 0 here) *)

Definition spills (limit : option Z) (size : Z) : bool :=
  match limit with
  | Some l => (0 <=? l) && (l <? size)
  | None => false
  end.

Section SOM.
  Context {A : Type}.
  (** [sm_data]: the entry and whether it was spilled to a file *)
  Record soutm : Type := mkSM { sm_exch : bool; sm_data : option (A * bool) }.

  Definition som_init : soutm := mkSM false None.
  Definition som_erase (s : soutm) : sout A :=
    mkSO (sm_exch s) (match sm_data s with Some (d, _) => Some d | None => None end).

  Definition som_push (limit : option Z) (size : Z) (s : soutm) (d : A) : soutm * res unit :=
    if negb (sm_exch s) then (s, Err ENoData)
    else match sm_data s with
         | Some _ => (s, Err EStatic)
         | None => (mkSM true (Some (d, spills limit size)), Ok tt)
         end.

  (** [_unpack]: a spilled entry is read back *)
  Definition som_get (s : soutm) (t : option Z) : res A :=
    if negb (sm_exch s) then Err ENoData
    else match sm_data s with
         | None => Err ENoData
         | Some (d, _) => Ok d
         end.

  Definition som_files (s : soutm) : nat :=
    match sm_data s with Some (_, true) => 1%nat | _ => O end.

  (** observation: result, number of spill files, number of target notifications so far;
      [k] = number of targets, each notified once per accepted publication *)
  Definition som_step (k : nat) (limit : option Z) (size : Z) (sn : soutm * nat) (o : sop A)
    : (soutm * nat) * (sobs A * (nat * nat)) :=
    let '(s, n) := sn in
    match o with
    | SExch => let s' := mkSM true (sm_data s) in ((s', n), (XNone, (som_files s', n)))
    | SPush d => let '(s', r) := som_push limit size s d in
                 let n' := match r with Ok _ => (n + k)%nat | Err _ => n end in
                 ((s', n'), (XPush r, (som_files s', n')))
    | SGet t => ((s, n), (XGet (som_get s t), (som_files s, n)))
    end.

  Fixpoint som_run (k : nat) (limit : option Z) (size : Z) (sn : soutm * nat) (ops : list (sop A))
    : list (sobs A * (nat * nat)) :=
    match ops with
    | [] => []
    | o :: r => let '(sn', x) := som_step k limit size sn o in x :: som_run k limit size sn' r
    end.
End SOM.
Arguments soutm : clear implicits.

(* ------------------------------------------------------------------------- *)
(** * 2. Static input (Input(static=True)) in front of an arbitrary source *)

Section SI.
  Context {A St : Type}.
  (** the source seen by the input: any state machine answering [get_data(time, target)] *)
  Context (src_get : St -> option Z -> St * res A).
  (** [_convert_and_check] (grid transform + unit conversion) *)
  Context (conv : A -> A).

  (** input.py 125-130: fetch only while [_cached_data is None]; cache a successful fetch. *)
  Definition si_pull (c : option A) (s : St) (t : option Z) : option A * St * res A :=
    match c with
    | Some d => (c, s, Ok d)
    | None =>
        let '(s', r) := src_get s t in
        match r with
        | Ok d => (Some (conv d), s', Ok (conv d))
        | Err e => (None, s', Err e)
        end
    end.

  Fixpoint si_run (c : option A) (s : St) (ts : list (option Z)) : list (res A) * St :=
    match ts with
    | [] => ([], s)
    | t :: r =>
        let '(c', s', x) := si_pull c s t in
        let '(xs, s'') := si_run c' s' r in (x :: xs, s'')
    end.
End SI.

(** Correspondence instance: [k] static inputs on one static output; the source state counts the
    calls that reach [Output.get_data]. *)
Inductive iop : Type :=
| IExch
| IPush (d : nat)
| IPull (i : nat) (t : option Z).

Record ist : Type := mkI { i_out : sout nat; i_fetches : nat; i_cache : list (option nat) }.

Definition isrc_get (s : sout nat * nat) (t : option Z) : (sout nat * nat) * res nat :=
  ((fst s, S (snd s)), so_get (fst s) t).

Fixpoint set_nth {A : Type} (n : nat) (x : A) (l : list A) : list A :=
  match l, n with
  | [], _ => []
  | _ :: r, O => x :: r
  | y :: r, S m => y :: set_nth m x r
  end.

(** observation of one op: result and the number of fetches that reached the source so far *)
Definition i_step (s : ist) (o : iop) : ist * (sobs nat * nat) :=
  match o with
  | IExch => (mkI (mkSO true (so_data (i_out s))) (i_fetches s) (i_cache s), (XNone, i_fetches s))
  | IPush d => let '(o', r) := so_push (i_out s) d in
               (mkI o' (i_fetches s) (i_cache s), (XPush r, i_fetches s))
  | IPull i t =>
      let '(c', (o', f'), r) :=
        si_pull isrc_get (fun d => d) (nth i (i_cache s) None) (i_out s, i_fetches s) t in
      (mkI o' f' (set_nth i c' (i_cache s)), (XGet r, f'))
  end.

Fixpoint i_run (s : ist) (ops : list iop) : list (sobs nat * nat) :=
  match ops with
  | [] => []
  | o :: r => let '(s', x) := i_step s o in x :: i_run s' r
  end.

Definition i_init (k : nat) : ist := mkI so_init 0 (repeat None k).

(* ------------------------------------------------------------------------- *)
(** * 3. Links: adapter chains in front of a provider *)

Inductive adapter : Type :=
| AScale (k : Q)           (* adapters.Scale(k): pass-through, multiplies the data *)
| ADelay (d init : Z).     (* adapters.DelayFixed(d) with initial_time = init *)

(** adapters/time.py 73-78 *)
Definition with_delay (a : adapter) (t : Z) : Z :=
  match a with
  | AScale _ => t
  | ADelay d init => if t - d <? init then init else t - d
  end.

Definition ascale (a : adapter) (q : Q) : Q :=
  match a with
  | AScale k => (q * k)%Q
  | ADelay _ _ => q
  end.

(** the time that reaches the provider; the chain is listed from the input towards the source *)
Fixpoint chain_time (c : list (nat * adapter)) (t : Z) : Z :=
  match c with
  | [] => t
  | (_, a) :: r => chain_time r (with_delay a t)
  end.

(** the factor applied to the provider's data on the way back *)
Fixpoint chain_scale (c : list (nat * adapter)) (q : Q) : Q :=
  match c with
  | [] => q
  | (_, a) :: r => ascale a (chain_scale r q)
  end.

Section Chain.
  Context {St : Type}.
  (** the provider at the end of the link (an output, a callback output ...) *)
  Context (src : St -> Z -> St * res Q).
  (** trace hook: adapter [id] was asked for time [t] *)
  Context (note : nat -> Z -> St -> St).

  (** Adapter.get_data / TimeDelayAdapter.get_data: shift the time, pull upstream, transform. *)
  Fixpoint pull_chain (c : list (nat * adapter)) (s : St) (t : Z) : St * res Q :=
    match c with
    | [] => src s t
    | (id, a) :: r =>
        let '(s', x) := pull_chain r (note id t s) (with_delay a t) in
        (s', map_res (ascale a) x)
    end.
End Chain.

(** Links that also carry state-dependent delay adapters: adapters.DelayToPull(steps, additional_delay)
    answers with the time of an earlier pull (adapters/time.py 184-204). *)
Inductive sadapter : Type :=
| SPlain (a : adapter)
| SDelayPull (steps : nat) (extra init : Z).

(** [with_delay]: an empty history is first filled with the initial time; the oldest remembered
    pull time minus the extra delay, clamped at the initial time. *)
Definition dtp_with_delay (extra init : Z) (h : list Z) : list Z * Z :=
  let h' := match h with [] => [init] | _ => h end in
  let t0 := hd init h' in
  (h', if t0 - extra <? init then init else t0 - extra).

(** [_pulled]: remember the original request time, keep the last [steps] entries. *)
Definition dtp_pulled (steps : nat) (h : list Z) (t : Z) : list Z :=
  let h' := h ++ [t] in skipn (length h' - steps) h'.

Section ChainSt.
  Context {St : Type}.
  Context (src : St -> Z -> St * res Q).
  Context (note : nat -> Z -> St -> St).
  (** pull history [_pulls] of the DelayToPull adapter [id] *)
  Context (hist : nat -> St -> list Z).
  Context (set_hist : nat -> list Z -> St -> St).

  (** TimeDelayAdapter.get_data 380-413: new_time = with_delay(time); pull upstream; only after a
      successful pull [_pulled(time)] records the ORIGINAL request time. *)
  Fixpoint pull_chain_st (c : list (nat * sadapter)) (s : St) (t : Z) : St * res Q :=
    match c with
    | [] => src s t
    | (id, SPlain a) :: r =>
        let '(s', x) := pull_chain_st r (note id t s) (with_delay a t) in
        (s', map_res (ascale a) x)
    | (id, SDelayPull steps extra init) :: r =>
        let s0 := note id t s in
        let '(h', t') := dtp_with_delay extra init (hist id s0) in
        let '(s2, x) := pull_chain_st r (set_hist id h' s0) t' in
        match x with
        | Ok q => (set_hist id (dtp_pulled steps (hist id s2) t) s2, Ok q)
        | Err e => (s2, Err e)
        end
    end.
End ChainSt.

Definition plain_chain (c : list (nat * adapter)) : list (nat * sadapter) :=
  map (fun x => (fst x, SPlain (snd x))) c.

(* ------------------------------------------------------------------------- *)
(** * 4. WeightedSum with its memo *)

Fixpoint all_some {A : Type} (l : list (option A)) : option (list A) :=
  match l with
  | [] => Some []
  | None :: _ => None
  | Some a :: r => match all_some r with Some x => Some (a :: x) | None => None end
  end.

(** Sum of value * weight * (SI factor of the value's units); [l] = [v0; w0; v1; w1; ...]. *)
Fixpoint wsum_si (us : list Q) (l : list Q) : Q :=
  match us, l with
  | u :: us', v :: w :: l' => (v * w * u + wsum_si us' l')%Q
  | _, _ => 0%Q
  end.

(** mergers.py 140-149: [result = value0*weight0; result += value_i*weight_i]: pint keeps the
    units of the first value and converts the others into them. *)
Definition wsum (us : list Q) (l : list Q) : Q :=
  match us with
  | u0 :: _ => Qred (wsum_si us l / u0)%Q
  | [] => 0%Q
  end.

(** [ws_fetched]: connector's [in_data] (initial pulls of the connect phase);
    [ws_valid]: [status == VALIDATED]; [ws_last]/[ws_out]: the memo. *)
Record wstate : Type := mkW {
  ws_fetched : list (option Q);
  ws_valid : bool;
  ws_last : option Z;
  ws_out : Q
}.

Definition ws_init (n : nat) : wstate := mkW (repeat None n) false None 0%Q.

Section WS.
  Context {St : Type}.
  (** pull input number [i] (0 = first value, 1 = its weight, 2 = second value ...) at time [t] *)
  Context (pull : St -> nat -> Z -> St * res Q).
  (** SI factors of the units of the value inputs *)
  Context (units : list Q).

  (** [{name: inp.pull_data(time) for name, inp in self.inputs.items()}]: inputs [i .. i+n-1]
      in order; the first failing pull aborts. *)
  Fixpoint pull_all (n i : nat) (s : St) (t : Z) : St * res (list Q) :=
    match n with
    | O => (s, Ok [])
    | S m =>
        let '(s1, r) := pull s i t in
        match r with
        | Err e => (s1, Err e)
        | Ok q =>
            let '(s2, rs) := pull_all m (S i) s1 t in
            (s2, map_res (cons q) rs)
        end
    end.

  (** mergers.py 130-154 *)
  Definition ws_get (w : wstate) (s : St) (t : Z) : wstate * St * res Q :=
    match all_some (ws_fetched w) with
    | None => (w, s, Err ENoData)                       (* _in_data is None -> callback returns None *)
    | Some ind =>
        if optZ_eqb (ws_last w) (Some t) then (w, s, Ok (ws_out w))     (* memo hit *)
        else if ws_valid w then
          let '(s', r) := pull_all (length (ws_fetched w)) 0 s t in
          match r with
          | Err e => (w, s', Err e)
          | Ok l => let q := wsum units l in
                    (mkW (map Some l) true (Some t) q, s', Ok q)
          end
        else
          (* connect phase: answered from the connector's start-time data; that answer is NOT
             remembered under [t] - only data pulled for a time may be served again for it *)
          let q := wsum units ind in
          (mkW (ws_fetched w) (ws_valid w) None q, s, Ok q)
    end.

  (** the same component without the memo (always recomputes) *)
  Definition ws_get_nomemo (w : wstate) (s : St) (t : Z) : wstate * St * res Q :=
    ws_get (mkW (ws_fetched w) (ws_valid w) None (ws_out w)) s t.

  Fixpoint ws_run (w : wstate) (s : St) (ts : list Z) : list (res Q) * St :=
    match ts with
    | [] => ([], s)
    | t :: r =>
        let '(w', s', x) := ws_get w s t in
        let '(xs, s'') := ws_run w' s' r in (x :: xs, s'')
    end.

  Fixpoint ws_run_nomemo (w : wstate) (s : St) (ts : list Z) : list (res Q) * St :=
    match ts with
    | [] => ([], s)
    | t :: r =>
        let '(w', s', x) := ws_get_nomemo w s t in
        let '(xs, s'') := ws_run_nomemo w' s' r in (x :: xs, s'')
    end.
End WS.

(** Gridded data with missing cells (masked arrays): a cell of the sum is missing iff it is missing
    in one of the terms value_i * weight_i, whatever the order of the terms (numpy: masked + plain
    is masked); elsewhere it is the sum.  [None] = masked cell. *)
Definition cell_term (u : Q) (v w : option Q) : option Q :=
  match v, w with
  | Some a, Some b => Some (a * b * u)%Q
  | _, _ => None
  end.

Fixpoint cell_sum (l : list (option Q)) : option Q :=
  match l with
  | [] => Some 0%Q
  | None :: _ => None
  | Some x :: r => match cell_sum r with Some y => Some (x + y)%Q | None => None end
  end.

(** the terms of cell [k]: [ins] = [v0; w0; v1; w1; ...] (arrays), [us] the units of the values *)
Fixpoint cell_terms (us : list Q) (ins : list (list (option Q))) (k : nat) : list (option Q) :=
  match us, ins with
  | u :: us', v :: w :: ins' => cell_term u (nth k v None) (nth k w None) :: cell_terms us' ins' k
  | _, _ => []
  end.

(** the delivered array: in the units of the first value, converted to the output's units *)
Definition ws_cells (us : list Q) (uout : Q) (ncell : nat) (ins : list (list (option Q))) : list (option Q) :=
  map (fun k => match cell_sum (cell_terms us ins k) with
                | Some x => Some (Qred (x / uout))%Q
                | None => None
                end) (seq 0 ncell).

(* ------------------------------------------------------------------------- *)
(** * 5. Networks: time-stepped producers, pull-based components, consumers *)

(** an input of a component: registered at its source output under [e_key]; the adapter chain
    is listed from the input towards the source node [e_src] *)
Record edge : Type := mkE { e_key : nat; e_chain : list (nat * sadapter); e_src : nat }.

Inductive node : Type :=
| NOut (u : Q) (keys : list nat)            (* push-based output of a time component, units factor u *)
| NStat (u : Q) (nkeys : nat)               (* static output *)
| NWS (uout : Q) (nkeys : nat) (ins : list edge)   (* WeightedSum: inputs A, A_weight, B, B_weight ... *)
| NCb (nkeys : nat) (bias : Q) (ins : list edge).  (* harness pull-based component: bias + sum of inputs *)

Definition node_unit (n : node) : Q :=
  match n with
  | NOut u _ => u
  | NStat u _ => u
  | NWS u _ _ => u
  | NCb _ _ _ => 1%Q
  end.

Inductive nodest : Type :=
| SOut (s : OutputM.state Q)
| SStat (d : option Q)
| SWS (w : wstate)
| SCb (ready : bool).  (* harness component: answers once its own connect phase is through *)

(** trace entries: kind 0 = get_data arrives at node [id]; 1 = provider callback of node [id]
    invoked; 2 = get_data arrives at adapter [id] *)
Definition lentry : Type := (nat * nat * Z)%type.

Record nst : Type := mkN {
  n_nodes : list nodest;
  n_exch : list nat;               (* per node: successful get_info calls *)
  n_cache : list (option Q);       (* per consumer edge: static input cache *)
  n_log : list lentry;             (* newest first *)
  n_adp : list (nat * list Z)      (* DelayToPull adapters: id -> _pulls *)
}.

Definition add_log (x : lentry) (st : nst) : nst :=
  mkN (n_nodes st) (n_exch st) (n_cache st) (x :: n_log st) (n_adp st).
Definition set_node (st : nst) (n : nat) (x : nodest) : nst :=
  mkN (set_nth n x (n_nodes st)) (n_exch st) (n_cache st) (n_log st) (n_adp st).
Definition set_cache (st : nst) (c : list (option Q)) : nst :=
  mkN (n_nodes st) (n_exch st) c (n_log st) (n_adp st).
Definition clear_log (st : nst) : nst :=
  mkN (n_nodes st) (n_exch st) (n_cache st) [] (n_adp st).
Definition exch_of (st : nst) (n : nat) : nat := nth n (n_exch st) O.

Fixpoint adp_get (id : nat) (l : list (nat * list Z)) : list Z :=
  match l with
  | [] => []
  | (k, h) :: r => if Nat.eqb k id then h else adp_get id r
  end.
Fixpoint adp_set (id : nat) (h : list Z) (l : list (nat * list Z)) : list (nat * list Z) :=
  match l with
  | [] => [(id, h)]
  | (k, h') :: r => if Nat.eqb k id then (k, h) :: r else (k, h') :: adp_set id h r
  end.
Definition hist_of (id : nat) (st : nst) : list Z := adp_get id (n_adp st).
Definition set_hist_of (id : nat) (h : list Z) (st : nst) : nst :=
  mkN (n_nodes st) (n_exch st) (n_cache st) (n_log st) (adp_set id h (n_adp st)).

Definition conv_res (r : OutputM.res Q) : res Q :=
  match r with
  | OutputM.Ok q => Ok q
  | OutputM.ErrTime => Err ETime
  | OutputM.ErrNoData => Err ENoData
  end.

Definition dummy_edge : edge := mkE 0 [] 0.

Fixpoint qsum (l : list Q) : Q :=
  match l with [] => 0%Q | x :: r => (x + qsum r)%Q end.

(** units of the value inputs (positions 0, 2, 4 ...) of a WeightedSum *)
Fixpoint value_units (net : list node) (ins : list edge) : list Q :=
  match ins with
  | v :: _ :: r => match nth_error net (e_src v) with
                   | Some n => node_unit n
                   | None => 1%Q
                   end :: value_units net r
  | _ => []
  end.

Definition pull_edge (ev : nst -> nat -> nat -> Z -> nst * res Q) (st : nst) (e : edge) (t : Z)
  : nst * res Q :=
  pull_chain_st (fun s t' => ev s (e_src e) (e_key e) t')
                (fun id t' s => add_log (2%nat, id, t') s)
                hist_of set_hist_of
                (e_chain e) st t.

(** [eval fuel net st n key t]: [get_data(t, key)] arrives at the output of node [n]. *)
Fixpoint eval (fuel : nat) (net : list node) (st : nst) (n key : nat) (t : Z) : nst * res Q :=
  match fuel with
  | O => (st, Err EOther)
  | S f =>
      let st := add_log (0%nat, n, t) st in
      match nth_error net n, nth_error (n_nodes st) n with
      | Some (NOut u keys), Some (SOut s) =>
          if Nat.ltb (exch_of st n) (length keys) then (st, Err ENoData)
          else let '(s', r) := OutputM.get_data s key t in
               (set_node st n (SOut s'), conv_res r)
      | Some (NStat u nk), Some (SStat d) =>
          if Nat.ltb (exch_of st n) nk then (st, Err ENoData)
          else match d with
               | None => (st, Err ENoData)
               | Some q => (st, Ok q)
               end
      | Some (NWS uout nk ins), Some (SWS w) =>
          if Nat.ltb (exch_of st n) nk then (st, Err ENoData)
          else
            let st := add_log (1%nat, n, t) st in
            let us := value_units net ins in
            let '(w', st', r) :=
              ws_get (fun s i t' => pull_edge (eval f net) s (nth i ins dummy_edge) t') us w st t in
            (* CallbackOutput.get_data 532: prepare() converts into the output's units *)
            (set_node st' n (SWS w'),
             map_res (fun q => Qred (q * (match us with u0 :: _ => u0 | [] => 1 end) / uout)%Q) r)
      | Some (NCb nk bias ins), Some (SCb ready) =>
          if Nat.ltb (exch_of st n) nk then (st, Err ENoData)
          else
            let st := add_log (1%nat, n, t) st in
            if negb ready then (st, Err ENoData) else
            let '(st', r) :=
              pull_all (fun s i t' => pull_edge (eval f net) s (nth i ins dummy_edge) t')
                       (length ins) 0 st t in
            (st', map_res (fun l => Qred (bias + qsum l)%Q) r)
      | _, _ => (st, Err EOther)
      end
  end.

Inductive nop : Type :=
| OInfo (n : nat)                   (* a successful get_info on the output of node n *)
| OPub (n : nat) (t : Z) (v : Q)    (* push_data(v, t) on the output of node n *)
| OFetch (n i : nat) (t : Z)        (* connect phase: the connector of WeightedSum n pulls input i *)
| OValid (n : nat)                  (* node n's component was validated *)
| OPull (c : nat) (t : Z).          (* consumer input c pulls at time t *)

Definition nobs : Type := (res Q * list lentry)%type.

Definition fuel_of (net : list node) : nat := S (S (length net)).

Definition inc_nth (n : nat) (l : list nat) : list nat := set_nth n (S (nth n l O)) l.

Definition nstep (net : list node) (cedges : list (edge * bool)) (st : nst) (o : nop) : nst * nobs :=
  let st := clear_log st in
  match o with
  | OInfo n => (mkN (n_nodes st) (inc_nth n (n_exch st)) (n_cache st) [] (n_adp st), (Ok 0%Q, []))
  | OPub n t v =>
      match nth_error net n, nth_error (n_nodes st) n with
      | Some (NOut u keys), Some (SOut s) =>
          if Nat.ltb (exch_of st n) (length keys) then (st, (Err ENoData, []))
          else (set_node st n (SOut (OutputM.push s t v)), (Ok 0%Q, []))
      | Some (NStat u nk), Some (SStat d) =>
          let '(s', r) := so_push (mkSO (negb (Nat.ltb (exch_of st n) nk)) d) v in
          (set_node st n (SStat (so_data s')), (map_res (fun _ => 0%Q) r, []))
      | _, _ => (st, (Err EOther, []))
      end
  | OFetch n i t =>
      match nth_error net n, nth_error (n_nodes st) n with
      | Some (NWS uout nk ins), Some (SWS w) =>
          let '(st', r) := pull_edge (eval (fuel_of net) net) st (nth i ins dummy_edge) t in
          let w' := match r with
                    | Ok q => mkW (set_nth i (Some q) (ws_fetched w)) (ws_valid w) (ws_last w) (ws_out w)
                    | Err _ => w
                    end in
          (clear_log (set_node st' n (SWS w')), (r, rev (n_log st')))
      | _, _ => (st, (Err EOther, []))
      end
  | OValid n =>
      match nth_error (n_nodes st) n with
      | Some (SWS w) => (set_node st n (SWS (mkW (ws_fetched w) true (ws_last w) (ws_out w))), (Ok 0%Q, []))
      | Some (SCb _) => (set_node st n (SCb true), (Ok 0%Q, []))
      | _ => (st, (Ok 0%Q, []))
      end
  | OPull c t =>
      match nth_error cedges c with
      | Some (e, static) =>
          if static then
            let '(c', st', r) :=
              si_pull (fun s (ot : option Z) => pull_edge (eval (fuel_of net) net) s e
                                                (match ot with Some x => x | None => 0 end))
                      (fun q => q) (nth c (n_cache st) None) st (Some t) in
            (clear_log (set_cache st' (set_nth c c' (n_cache st'))), (r, rev (n_log st')))
          else
            let '(st', r) := pull_edge (eval (fuel_of net) net) st e t in
            (clear_log st', (r, rev (n_log st')))
      | None => (st, (Err EOther, []))
      end
  end.

Fixpoint nrun (net : list node) (cedges : list (edge * bool)) (st : nst) (ops : list nop) : list nobs :=
  match ops with
  | [] => []
  | o :: r => let '(st', x) := nstep net cedges st o in x :: nrun net cedges st' r
  end.

Definition node_init (n : node) : nodest :=
  match n with
  | NOut _ keys => SOut (OutputM.init keys)
  | NStat _ _ => SStat None
  | NWS _ _ ins => SWS (ws_init (length ins))
  | NCb _ _ _ => SCb false
  end.

Definition net_init (net : list node) (cedges : list (edge * bool)) : nst :=
  mkN (map node_init net) (repeat O (length net)) (repeat None (length cedges)) [] [].

(* ------------------------------------------------------------------------- *)
(** * Correspondence interface *)

(** |m - o| <= 2^-30 * max(1, |m|): the implementation computes in IEEE doubles *)
Definition qclose (m o : Q) : bool :=
  Qle_bool (Qabs (m - o)%Q) ((1 # 1073741824) * Qmax 1 (Qabs m))%Q.

Definition res_eqb {A : Type} (eqb : A -> A -> bool) (a b : res A) : bool :=
  match a, b with
  | Ok x, Ok y => eqb x y
  | Err e, Err e' => err_eqb e e'
  | _, _ => false
  end.

Definition sobs_eqb (a b : sobs nat) : bool :=
  match a, b with
  | XNone, XNone => true
  | XPush r, XPush r' => res_eqb (fun _ _ => true) r r'
  | XGet r, XGet r' => res_eqb Nat.eqb r r'
  | _, _ => false
  end.

Definition lentry_eqb (a b : lentry) : bool :=
  Nat.eqb (fst (fst a)) (fst (fst b)) && Nat.eqb (snd (fst a)) (snd (fst b)) && Z.eqb (snd a) (snd b).

Definition nobs_eqb (a b : nobs) : bool :=
  res_eqb qclose (fst a) (fst b) && list_eqb lentry_eqb (snd a) (snd b).

Inductive c20_case : Type :=
| CaseSO (ops : list (sop nat))                                  (* one static output *)
| CaseSOM (k : nat) (limit : option Z) (size : Z) (ops : list (sop nat))  (* ... with k targets and a memory limit *)
| CaseSI (k : nat) (ops : list iop)                              (* k static inputs on a static output *)
| CaseNet (net : list node) (cedges : list (edge * bool)) (ops : list nop)
(* gridded WeightedSum: per request the arrays its inputs delivered *)
| CaseCells (us : list Q) (uout : Q) (ncell : nat) (reqs : list (list (list (option Q)))).

Inductive c20_obs : Type :=
| ObsSO (l : list (sobs nat))
| ObsSOM (l : list (sobs nat * (nat * nat)))
| ObsSI (l : list (sobs nat * nat))
| ObsNet (l : list nobs)
| ObsCells (l : list (list (option Q))).

Definition c20_model (c : c20_case) : c20_obs :=
  match c with
  | CaseSO ops => ObsSO (so_run so_init ops)
  | CaseSOM k limit size ops => ObsSOM (som_run k limit size (som_init, O) ops)
  | CaseSI k ops => ObsSI (i_run (i_init k) ops)
  | CaseNet net ce ops => ObsNet (nrun net ce (net_init net ce) ops)
  | CaseCells us uout ncell reqs => ObsCells (map (ws_cells us uout ncell) reqs)
  end.

Definition c20_obs_eqb (a b : c20_obs) : bool :=
  match a, b with
  | ObsSO x, ObsSO y => list_eqb sobs_eqb x y
  | ObsSOM x, ObsSOM y => list_eqb (pair_eqb sobs_eqb (pair_eqb Nat.eqb Nat.eqb)) x y
  | ObsSI x, ObsSI y => list_eqb (pair_eqb sobs_eqb Nat.eqb) x y
  | ObsNet x, ObsNet y => list_eqb nobs_eqb x y
  | ObsCells x, ObsCells y => list_eqb (list_eqb (option_eqb qclose)) x y
  | _, _ => false
  end.

Definition c20_check (x : c20_case * c20_obs) : bool := c20_obs_eqb (c20_model (fst x)) (snd x).
