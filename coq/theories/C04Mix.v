(** C04 correspondence cases of two kinds: the connect + run cases of FV.Sched ([c04_check]) and compositions with
    push-based components that have outputs, compared through the composition in which they are pull-based
    (FV.SchedSparse.push_check: update sequence, outcome, final times).  No proofs here. *)
From Coq Require Import List ZArith Bool.
From FV Require Import Base Sched SchedSparse.
Import ListNotations.

Inductive c04_case2 : Type := C4Std (c : c04_case) | C4Push (c : sched_case).

Definition c04_check2 (x : c04_case2 * c04_obs) : bool :=
  match fst x with
  | C4Std c => c04_check (c, snd x)
  | C4Push c => match fst (snd x) with
                | [] => push_check (c, snd (snd x))
                | _ => false            (* such a composition always connects *)
                end
  end.
