(** Shared helpers for the executable models and for the correspondence check.
    No proofs here: the models must still run when a proof breaks. *)
From Coq Require Import List ZArith Bool.
Import ListNotations.

(** [mismatches chk cases] = indices of the cases on which the model's
    observation differs from the observation recorded on the implementation.
    Evaluated with [vm_compute] in generated case files. *)
Fixpoint mismatches_from {A : Type} (chk : A -> bool) (n : nat) (l : list A) : list nat :=
  match l with
  | [] => []
  | x :: r => if chk x then mismatches_from chk (S n) r
              else n :: mismatches_from chk (S n) r
  end.
Definition mismatches {A : Type} (chk : A -> bool) (l : list A) : list nat :=
  mismatches_from chk 0 l.

Fixpoint list_eqb {A : Type} (eqb : A -> A -> bool) (l1 l2 : list A) : bool :=
  match l1, l2 with
  | [], [] => true
  | x :: r1, y :: r2 => eqb x y && list_eqb eqb r1 r2
  | _, _ => false
  end.

Definition option_eqb {A : Type} (eqb : A -> A -> bool) (o1 o2 : option A) : bool :=
  match o1, o2 with
  | None, None => true
  | Some a, Some b => eqb a b
  | _, _ => false
  end.

Definition pair_eqb {A B : Type} (ea : A -> A -> bool) (eb : B -> B -> bool)
  (p q : A * B) : bool := ea (fst p) (fst q) && eb (snd p) (snd q).
