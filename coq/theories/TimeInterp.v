(** Executable model of the time-interpolation adapters of finam
    (src/finam/adapters/time.py: TimeCachingAdapter 223-285, NextTime 288-314,
     PreviousTime 317-346, LinearTime 377-422, StepTime 425-484,
     interpolate 487-504, interpolate_step 507-531, check_time 534-569).

    Times are integer microseconds ([Z]); a payload is one exact rational ([Q]).
    Gridded payloads are handled component-wise (see [c11_check] at the end): numpy
    applies [old + dt * (new - old)] and the selection of a buffered array point-wise.

    No proofs in this file. *)
From Coq Require Import List ZArith QArith Qabs Bool.
From FV Require Import Base.
Import ListNotations.
Open Scope Z_scope.

(** which adapter; [KStep s] is [StepTime(step=s)] *)
Inductive kind : Type := KNext | KPrev | KLinear | KStep (s : Q).

Inductive res : Type :=
| Ok (v : Q)
| ErrTime        (* FinamTimeError *)
| ErrNoData.     (* FinamNoDataError *)

Definition buf := list (Z * Q).          (* TimeCachingAdapter.data, oldest first *)

Definition last_time (t0 : Z) (l : buf) : Z := fold_left (fun _ e => fst e) l t0.

(** [dt = (time - t_prev) / (t - t_prev)]  (timedelta / timedelta, exact here) *)
Definition rel_pos (time tp t : Z) : Q := (inject_Z (time - tp) / inject_Z (t - tp))%Q.

(** [dt > step] *)
Definition Qgt_bool (a b : Q) : bool := negb (Qle_bool a b).

(** what the loop body returns once it reached the first entry [c] with [time < c.t];
    [p] is [self.data[i - 1]]:
      NextTime      309        data
      PreviousTime  340-341    data_prev
      LinearTime    411-417    interpolate(data_prev, data, dt) = old + dt * (new - old)
      StepTime      473-479    interpolate_step: new if dt > step else old *)
Definition combine (k : kind) (time : Z) (p c : Z * Q) : Q :=
  match k with
  | KNext => snd c
  | KPrev => snd p
  | KLinear => (snd p + rel_pos time (fst p) (fst c) * (snd c - snd p))%Q
  | KStep s => if Qgt_bool (rel_pos time (fst p) (fst c)) s then snd c else snd p
  end.

(** [for i, (t, data) in enumerate(self.data): if time > t: continue;
     if time == t: return data; ... return f(self.data[i-1], (t, data))]
    and the [raise FinamTimeError] after the loop.  (NextTime has no [==] test but
    returns [data] in both cases.)  [prev] is [self.data[i-1]]. *)
Fixpoint interp_loop (k : kind) (time : Z) (prev : Z * Q) (l : buf) : res :=
  match l with
  | [] => ErrTime
  | (t, d) :: r =>
      if t <? time then interp_loop k time (t, d) r
      else if time =? t then Ok d
      else Ok (combine k time prev (t, d))
  end.

(** [_interpolate]: single-entry shortcut (302-303, 331-332, 402-403, 464-465), then the loop;
    for [i = 0] Python's [self.data[i - 1]] is the last entry. *)
Definition interpolate (k : kind) (b : buf) (time : Z) : res :=
  match b with
  | [] => ErrNoData
  | [e] => Ok (snd e)
  | e :: _ => interp_loop k time (last b e) b
  end.

(** [_clear_cached_data] 269-275:
    [while len(self.data) > 1 and self.data[1][0] <= time: self.data.pop(0)] *)
Fixpoint clear_cached (time : Z) (l : buf) : buf :=
  match l with
  | e0 :: r =>
      match r with
      | (t1, _) :: _ => if t1 <=? time then clear_cached time r else l
      | [] => l
      end
  | [] => l
  end.

(** [_get_data] 247-267; [ev = false] is the same adapter without eviction
    (used only as the reference of the refinement theorem). *)
Definition get_data (ev : bool) (k : kind) (b : buf) (time : Z) : buf * res :=
  match b with
  | [] => (b, ErrNoData)
  | (t0, _) :: r =>
      if (last_time t0 r <? time) || (time <? t0) then (b, ErrTime)   (* check_time 559-569 *)
      else match interpolate k b time with
           | Ok v => (if ev then clear_cached time b else b, Ok v)
           | e => (b, e)
           end
  end.

(** [_source_updated] 234-245: the value pulled from the source at the notification time
    is appended. *)
Definition source_updated (b : buf) (t : Z) (v : Q) : buf := b ++ [(t, v)].

Inductive op : Type :=
| Push (t : Z) (v : Q)      (* the source publishes [v] at [t] and notifies the adapter *)
| Pull (t : Z).             (* the consumer behind the adapter requests time [t] *)

(** results of the pulls, in order *)
Fixpoint run (ev : bool) (k : kind) (b : buf) (ops : list op) : list res :=
  match ops with
  | [] => []
  | Push t v :: r => run ev k (source_updated b t v) r
  | Pull t :: r => let '(b', x) := get_data ev k b t in x :: run ev k b' r
  end.

Fixpoint final (ev : bool) (k : kind) (b : buf) (ops : list op) : buf :=
  match ops with
  | [] => b
  | Push t v :: r => final ev k (source_updated b t v) r
  | Pull t :: r => final ev k (fst (get_data ev k b t)) r
  end.

(* ------------------------------------------------------------------------ *)
(** * Mathematical definitions, as plain functions of the FULL publication history [H] *)

(** the last publication at or before [t] *)
Definition lo_entry (H : buf) (t : Z) : option (Z * Q) :=
  fold_left (fun acc e => if fst e <=? t then Some e else acc) H None.

(** the first publication at or after [t] *)
Definition hi_entry (H : buf) (t : Z) : option (Z * Q) :=
  find (fun e => t <=? fst e) H.

Definition next_spec (H : buf) (t : Z) : option Q := option_map snd (hi_entry H t).
Definition prev_spec (H : buf) (t : Z) : option Q := option_map snd (lo_entry H t).

(** linear interpolant: the published value at a publication time, else
    [v0 + (t - t0)/(t1 - t0) * (v1 - v0)] on the bracketing publications *)
Definition lin_spec (H : buf) (t : Z) : option Q :=
  match lo_entry H t, hi_entry H t with
  | Some (t0, v0), Some (t1, v1) =>
      Some (if t0 =? t1 then v0
            else (v0 + (inject_Z (t - t0) / inject_Z (t1 - t0)) * (v1 - v0))%Q)
  | _, _ => None
  end.

(** step interpolant with relative step position [s]: the published value at a publication
    time, else the newer bracketing value iff [(t - t0)/(t1 - t0) > s] *)
Definition step_spec (s : Q) (H : buf) (t : Z) : option Q :=
  match lo_entry H t, hi_entry H t with
  | Some (t0, v0), Some (t1, v1) =>
      Some (if t0 =? t1 then v0
            else if Qle_bool (inject_Z (t - t0) / inject_Z (t1 - t0))%Q s then v0 else v1)
  | _, _ => None
  end.

Definition spec (k : kind) : buf -> Z -> option Q :=
  match k with
  | KNext => next_spec
  | KPrev => prev_spec
  | KLinear => lin_spec
  | KStep s => step_spec s
  end.

(** [t] lies within the published range *)
Definition in_range (H : buf) (t : Z) : bool :=
  match H with
  | [] => false
  | (t0, _) :: r => (t0 <=? t) && (t <=? last_time t0 r)
  end.

(** what a consumer must observe according to the property, given the history so far *)
Definition spec_pull (k : kind) (H : buf) (t : Z) : res :=
  match H with
  | [] => ErrNoData
  | _ => if in_range H t
         then match spec k H t with Some v => Ok v | None => ErrTime end
         else ErrTime
  end.

Fixpoint spec_run (k : kind) (H : buf) (ops : list op) : list res :=
  match ops with
  | [] => []
  | Push t v :: r => spec_run k (H ++ [(t, v)]) r
  | Pull t :: r => spec_pull k H t :: spec_run k H r
  end.

(** the publication history after [ops] *)
Fixpoint pubs (H : buf) (ops : list op) : buf :=
  match ops with
  | [] => H
  | Push t v :: r => pubs (H ++ [(t, v)]) r
  | Pull _ :: r => pubs H r
  end.

(* ------------------------------------------------------------------------ *)
(** * Correspondence interface

    A case is the adapter kind, the number [n] of payload components (1 = scalar, >1 = flattened
    grid), a flag saying whether the float arithmetic of the case is exact, and the scripted
    pushes / pulls.  The observation is the list of pull results of the real adapter. *)
(** compact literal for a double: [fq m e] = m / 2^e (parsing [Qmake] literals dominated the run time) *)
Definition fq (m : Z) (e : N) : Q := Qmake m (Pos.shiftl 1 e).

Inductive vop : Type :=
| VPush (t : Z) (vs : list Q)
| VPushM (t : Z) (vs : list Q) (ms : list bool)   (* masked array: [ms] = missing cells *)
| VPull (t : Z).

Inductive vres : Type :=
| VOk (vs : list Q)
| VOkM (vs : list Q) (ms : list bool)              (* delivered masked array *)
| VErrTime
| VErrNoData
| VOther.          (* anything the model cannot produce: always a mismatch *)

Definition proj_op (j : nat) (o : vop) : op :=
  match o with
  | VPush t vs => Push t (nth j vs 0%Q)
  | VPushM t vs _ => Push t (nth j vs 0%Q)
  | VPull t => Pull t
  end.

(** Missing cells (numpy masked arrays) are point-wise too: a selection adapter delivers the cell
    of the selected publication, masked or not; [old + dt * (new - old)] is masked where either
    operand is.  So cell [j] of a result is missing iff the SAME adapter run on the 0/1 stream
    "cell j of the publication is missing" gives a non-zero value (for the linear adapter strictly
    inside an interval: m0 + dt (m1 - m0) with 0 < dt < 1 is non-zero iff m0 or m1 is 1). *)
Definition proj_mask (j : nat) (o : vop) : op :=
  match o with
  | VPush t _ => Push t 0%Q
  | VPushM t _ ms => Push t (if nth j ms false then 1%Q else 0%Q)
  | VPull t => Pull t
  end.

Definition vop_ok (n : nat) (o : vop) : bool :=
  match o with
  | VPush _ vs => Nat.eqb (length vs) n
  | VPushM _ vs ms => Nat.eqb (length vs) n && Nat.eqb (length ms) n
  | VPull _ => true
  end.

Definition vres_ok (n : nat) (r : vres) : bool :=
  match r with
  | VOk vs => Nat.eqb (length vs) n
  | VOkM vs ms => Nat.eqb (length vs) n && Nat.eqb (length ms) n
  | VOther => false
  | _ => true
  end.

(** magnitude scale of one component's publications: 1 + max |v| *)
Fixpoint scale_of (ops : list op) : Q :=
  match ops with
  | [] => 1%Q
  | Push _ v :: r => let s := scale_of r in
                     if Qle_bool s (1 + Qabs v)%Q then (1 + Qabs v)%Q else s
  | Pull _ :: r => scale_of r
  end.

(** 2^-40: covers the few IEEE roundings of [old + dt * (new - old)] *)
Definition c11_tol : Q := 1 # 1099511627776.

Definition res_close (exact : bool) (sc : Q) (m : res) (o : vres) (j : nat) : bool :=
  match m, o with
  | Ok a, VOk vs =>
      let b := nth j vs 0%Q in
      if exact then Qeq_bool a b else Qle_bool (Qabs (a - b)) (c11_tol * sc)%Q
  | ErrTime, VErrTime => true
  | ErrNoData, VErrNoData => true
  | _, _ => false
  end.

Fixpoint all_close (exact : bool) (sc : Q) (ms : list res) (os : list vres) (j : nat) : bool :=
  match ms, os with
  | [], [] => true
  | m :: mr, o :: or => res_close exact sc m o j && all_close exact sc mr or j
  | _, _ => false
  end.

(** value and missing-cell flag of component [j]: [mv] = value run, [mm] = run on the mask stream *)
Definition res_close_m (exact : bool) (sc : Q) (mv mm : res) (o : vres) (j : nat) : bool :=
  match mv, mm, o with
  | Ok a, Ok k, VOk _ => Qeq_bool k 0 && res_close exact sc mv o j
  | Ok a, Ok k, VOkM vs ms =>
      let missing := negb (Qeq_bool k 0) in
      Bool.eqb missing (nth j ms false) && (missing || res_close exact sc mv (VOk vs) j)
  | ErrTime, ErrTime, VErrTime => true
  | ErrNoData, ErrNoData, VErrNoData => true
  | _, _, _ => false
  end.

Fixpoint all_close_m (exact : bool) (sc : Q) (mvs mms : list res) (os : list vres) (j : nat) : bool :=
  match mvs, mms, os with
  | [], [], [] => true
  | mv :: vr, mm :: mr, o :: or => res_close_m exact sc mv mm o j && all_close_m exact sc vr mr or j
  | _, _, _ => false
  end.

Record c11_case : Type := mk_case {
  cs_kind : kind; cs_n : nat; cs_exact : bool; cs_ops : list vop }.
(** observation: the pull results, and (when recorded) the publication times held in the adapter's buffer
    ([TimeCachingAdapter.data]) after the script *)
Definition c11_obs : Type := list vres * option (list Z).

(** per payload component: the pull results and the results on the missing-cell stream *)
Definition c11_model (c : c11_case) : list (list res * list res) :=
  map (fun j => (run true (cs_kind c) [] (map (proj_op j) (cs_ops c)),
                 run true (cs_kind c) [] (map (proj_mask j) (cs_ops c)))) (seq 0 (cs_n c)).

Definition is_linear (k : kind) : bool := match k with KLinear => true | _ => false end.

Definition c11_check (x : c11_case * c11_obs) : bool :=
  let c := fst x in
  let o := fst (snd x) in
  (* selection adapters involve no arithmetic: always compared exactly *)
  let exact := cs_exact c || negb (is_linear (cs_kind c)) in
  Nat.ltb 0 (cs_n c) && forallb (vop_ok (cs_n c)) (cs_ops c) && forallb (vres_ok (cs_n c)) o &&
  forallb (fun j =>
             let ops := map (proj_op j) (cs_ops c) in
             all_close_m exact (scale_of ops) (run true (cs_kind c) [] ops)
                         (run true (cs_kind c) [] (map (proj_mask j) (cs_ops c))) o j)
          (seq 0 (cs_n c)) &&
  match snd (snd x) with
  | None => true
  | Some ts => list_eqb Z.eqb ts (map fst (final true (cs_kind c) [] (map (proj_op 0) (cs_ops c))))
  end.
