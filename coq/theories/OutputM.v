(** Executable model of [finam.sdk.output.Output]'s data history
    (src/finam/sdk/output.py: push_data 152-202, get_data 234-282,
     _clear_data 315-326, _interpolate 335-358).

    Times are integer microseconds ([Z]); a payload is an abstract token of type [A].
    A "key" is whatever [Adapter.pinged] registered in [_connected_inputs]:
    a final input (possibly behind pass-through adapters) or a push-based adapter. *)
From Coq Require Import List ZArith Bool.
From FV Require Import Base.
Import ListNotations.
Open Scope Z_scope.

Section Out.
  Context {A : Type}.

  Inductive res : Type :=
  | Ok (a : A)
  | ErrTime        (* FinamTimeError *)
  | ErrNoData.     (* FinamNoDataError *)

  Definition hist := list (Z * A).          (* oldest first, as Output.data *)
  Definition conn := list (nat * option Z). (* _connected_inputs: key -> last request *)

  Record state := mk { st_hist : hist; st_conn : conn }.

  (** The [for i, (t, data) in enumerate(self.data)] loop of [_interpolate];
      [prev] is [self.data[i-1]].  (Repaired code: compares the two distances.) *)
  Fixpoint interp_loop (prev : option (Z * A)) (l : hist) (time : Z) : res :=
    match l with
    | [] => ErrTime
    | (t, d) :: r =>
        if t <? time then interp_loop (Some (t, d)) r time
        else if time =? t then Ok d
        else match prev with
             | None => ErrTime (* i = 0 and time < t: excluded by the range check *)
             | Some (tp, dp) => if time - tp <? t - time then Ok dp else Ok d
             end
    end.

  Definition last_time (t0 : Z) (l : hist) : Z := fold_left (fun _ e => fst e) l t0.

  Definition interpolate (l : hist) (time : Z) : res :=
    match l with
    | [] => ErrNoData
    | (t0, _) :: r =>
        if (time <? t0) || (last_time t0 r <? time) then ErrTime
        else interp_loop None l time
    end.

  Fixpoint set_conn (k : nat) (t : Z) (c : conn) : conn :=
    match c with
    | [] => [(k, Some t)]
    | (k', v) :: r => if Nat.eqb k k' then (k', Some t) :: r else (k', v) :: set_conn k t r
    end.

  (** [None] as soon as one key has not pulled yet ([any(t is None ...)]). *)
  Fixpoint conn_times (c : conn) : option (list Z) :=
    match c with
    | [] => Some []
    | (_, None) :: _ => None
    | (_, Some t) :: r => match conn_times r with Some l => Some (t :: l) | None => None end
    end.

  Definition list_min (l : list Z) : option Z :=
    match l with [] => None | x :: r => Some (fold_left Z.min r x) end.

  Definition conn_min (c : conn) : option Z :=
    match conn_times c with Some l => list_min l | None => None end.

  (** [while len(self.data) > 1 and self.data[1][0] <= t_min: self.data.pop(0)] *)
  Fixpoint evict (tmin : Z) (l : hist) : hist :=
    match l with
    | e0 :: r =>
        match r with
        | (t1, _) :: _ => if t1 <=? tmin then evict tmin r else l
        | [] => l
        end
    | [] => l
    end.

  Definition clear_data (s : state) (k : nat) (time : Z) : state :=
    let c := set_conn k time (st_conn s) in
    match conn_min c with
    | Some m => mk (evict m (st_hist s)) c
    | None => mk (st_hist s) c
    end.

  (** [Output.get_data] of a non-static output whose info is exchanged. *)
  Definition get_data (s : state) (k : nat) (time : Z) : state * res :=
    match interpolate (st_hist s) time with
    | Ok d => (clear_data s k time, Ok d)
    | e => (s, e)
    end.

  (** The same output without eviction (unlimited history). *)
  Definition get_data_unb (s : state) (k : nat) (time : Z) : state * res :=
    match interpolate (st_hist s) time with
    | Ok d => (mk (st_hist s) (set_conn k time (st_conn s)), Ok d)
    | e => (s, e)
    end.

  Definition push (s : state) (t : Z) (d : A) : state :=
    mk (st_hist s ++ [(t, d)]) (st_conn s).

  Inductive op : Type :=
  | Push (t : Z) (d : A)
  | Pull (k : nat) (t : Z).

  (** observation of one op: pull result (if a pull) and len(output.data) afterwards *)
  Definition step (s : state) (o : op) : state * (option res * nat) :=
    match o with
    | Push t d => let s' := push s t d in (s', (None, length (st_hist s')))
    | Pull k t => let '(s', r) := get_data s k t in (s', (Some r, length (st_hist s')))
    end.

  Definition step_unb (s : state) (o : op) : state * option res :=
    match o with
    | Push t d => (push s t d, None)
    | Pull k t => let '(s', r) := get_data_unb s k t in (s', Some r)
    end.

  Fixpoint run (s : state) (ops : list op) : list (option res * nat) :=
    match ops with
    | [] => []
    | o :: r => let '(s', x) := step s o in x :: run s' r
    end.

  Fixpoint run_unb (s : state) (ops : list op) : list (option res) :=
    match ops with
    | [] => []
    | o :: r => let '(s', x) := step_unb s o in x :: run_unb s' r
    end.

  Fixpoint final (s : state) (ops : list op) : state :=
    match ops with
    | [] => s
    | o :: r => final (fst (step s o)) r
    end.

  (** the publication times retained after every op (what [Output.data] holds, oldest first) *)
  Fixpoint run_times (s : state) (ops : list op) : list (list Z) :=
    match ops with
    | [] => []
    | o :: r => let s' := fst (step s o) in map fst (st_hist s') :: run_times s' r
    end.

  Definition init (keys : list nat) : state :=
    mk [] (map (fun k => (k, None)) keys).
End Out.

Arguments res : clear implicits.
Arguments state : clear implicits.
Arguments op : clear implicits.
Arguments hist : clear implicits.

(** Correspondence interface: payload tokens are publication indices ([nat]). *)
Definition res_eqb (a b : res nat) : bool :=
  match a, b with
  | Ok x, Ok y => Nat.eqb x y
  | ErrTime, ErrTime => true
  | ErrNoData, ErrNoData => true
  | _, _ => false
  end.

Definition obs_eqb (a b : option (res nat) * nat) : bool :=
  option_eqb res_eqb (fst a) (fst b) && Nat.eqb (snd a) (snd b).

Definition c09_case : Type := list nat * list (op nat).
(** observation: per op (pull result, len(output.data)); per op the retained publication times *)
Definition c09_obs : Type := list (option (res nat) * nat) * list (list Z).
Definition c09_model (c : c09_case) : c09_obs :=
  (run (init (fst c)) (snd c), run_times (init (fst c)) (snd c)).
Definition c09_check (x : c09_case * c09_obs) : bool :=
  list_eqb obs_eqb (fst (c09_model (fst x))) (fst (snd x))
  && list_eqb (list_eqb Z.eqb) (snd (c09_model (fst x))) (snd (snd x)).
