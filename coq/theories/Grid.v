(** Executable model of finam's structured grids
    (src/finam/data/grid_tools.py: point_order 9-27, order_map 30-51, gen_node_centers 54-75,
       gen_axes 78-107, gen_points 110-149, gen_cells 152-215, check_axes_monotonicity 218-251;
     src/finam/data/grid_base.py: StructuredGrid 287-400 (point_count, cell_count, cell_axes,
       points, cells, cell_centers, mesh_dim, cell_types, data_axes, data_shape), Grid.data_points
       161-171;
     src/finam/data/grid_spec.py: RectilinearGrid 93-235 (incl. the memo _data_shape/_data_size
       and the data_location setter), UniformGrid 238-298, EsriGrid 369-426, to_unstructured
       145-163, UnstructuredGrid 476-604).

    Coordinates are exact rationals [Q]; indices, sizes and node ids are [nat].
    An n-d index is a [list nat]; flattening is mixed radix, C (last index fastest) or
    F (first index fastest).  [true] stands for order "C" / data location POINTS. *)
From Coq Require Import List ZArith QArith Bool Arith.
From FV Require Import Base.
Import ListNotations.
Open Scope nat_scope.

(** * Index helpers (numpy reshape(-1, order=...) / np.unravel_index) *)
Fixpoint prod (l : list nat) : nat :=
  match l with [] => 1 | x :: r => x * prod r end.

Fixpoint flatC (sh idx : list nat) : nat :=
  match sh, idx with
  | _ :: sh', i :: idx' => i * prod sh' + flatC sh' idx'
  | _, _ => 0
  end.

Fixpoint flatF (sh idx : list nat) : nat :=
  match sh, idx with
  | n :: sh', i :: idx' => i + n * flatF sh' idx'
  | _, _ => 0
  end.

Fixpoint unflatC (sh : list nat) (n : nat) : list nat :=
  match sh with
  | [] => []
  | _ :: sh' => (n / prod sh') :: unflatC sh' (n mod prod sh')
  end.

Fixpoint unflatF (sh : list nat) (n : nat) : list nat :=
  match sh with
  | [] => []
  | d :: sh' => (n mod d) :: unflatF sh' (n / d)
  end.

Definition flat (c : bool) := if c then flatC else flatF.
Definition unflat (c : bool) := if c then unflatC else unflatF.

(** [idx] is a valid multi-index of an array of shape [sh] (specification only) *)
Definition inb (sh idx : list nat) : Prop := Forall2 lt idx sh.

(** pointwise sum of two indices *)
Fixpoint addi (a b : list nat) : list nat :=
  match a, b with
  | x :: r, y :: s => (x + y) :: addi r s
  | _, _ => []
  end.

(** * Axes *)
(** coordinate tuple read from a list of axes at a multi-index *)
Fixpoint coords (axes : list (list Q)) (idx : list nat) : list Q :=
  match axes, idx with
  | ax :: r, i :: s => nth i ax 0%Q :: coords r s
  | _, _ => []
  end.

(** [(ax[:-1] + ax[1:]) / 2] *)
Fixpoint mids (ax : list Q) : list Q :=
  match ax with
  | a :: (b :: _) as t => ((a + b) / 2)%Q :: mids t
  | _ => []
  end.

(** grid_base.py 329-333 *)
Definition cell_axis (ax : list Q) : list Q := if 1 <? length ax then mids ax else ax.

(** [axes[i] if axes_increase[i] else axes[i][::-1]] (grid_tools.py 131-134, grid_base.py 382-385) *)
Fixpoint dir_axes (inc : list bool) (axes : list (list Q)) : list (list Q) :=
  match inc, axes with
  | b :: r, ax :: s => (if b then ax else rev ax) :: dir_axes r s
  | _, _ => axes
  end.

(** grid_tools.py 110-149.  The code pads the axes to three with length-1 axes and drops the
    padded columns again; trailing length-1 axes change neither the C nor the F flattening, so the
    model works at the rank of [axes].  [points[n] = (axes[0][x_id[n]], axes[1][y_id[n]], ...)] where
    [x_id.reshape(-1, order)] lists the first component of [unravel(n, order)]. *)
Definition gen_points (axes : list (list Q)) (c : bool) (inc : list bool) : list (list Q) :=
  let ax := dir_axes inc axes in
  let sh := map (@length Q) ax in
  map (fun n => coords ax (unflat c sh n)) (seq 0 (prod sh)).

(** * Cells (grid_tools.py 152-215) *)
Definition nondeg (d : nat) : bool := 1 <? d.
Definition cdim_of (dims : list nat) : list nat := map pred (filter nondeg dims).

Definition cells_F (c_dim : list nat) : list (list nat) :=
  let cnt := prod c_dim in
  match c_dim with
  | [] => [[0]]
  | [_] => map (fun c => [c; c + 1]) (seq 0 cnt)
  | [cx; _] =>
      map (fun c => let c3 := c + c / cx in
                    let c1 := c3 + 2 + cx in
                    [c1 - 1; c1; c3 + 1; c3]) (seq 0 cnt)
  | cx :: cy :: _ =>
      map (fun c => let c7 := c + (cx + cy + 1) * (c / (cx * cy)) + (c mod (cx * cy)) / cx in
                    let c5 := c7 + 2 + cx in
                    let c3 := c7 + (1 + cx) * (1 + cy) in
                    let c1 := c3 + 2 + cx in
                    [c1 - 1; c1; c3 + 1; c3; c5 - 1; c5; c7 + 1; c7]) (seq 0 cnt)
  end.

Definition gen_cells (dims : list nat) (c : bool) : list (list nat) :=
  let c_dim := cdim_of dims in
  let cf := cells_F c_dim in
  if c && (1 <? length c_dim) then
    (* c = order_map(dims, of="C", to="F")[c] *)
    let cells1 := map (map (fun p => flatC dims (unflatF dims p))) cf in
    (* c = c[order_map(c_dim, of="F", to="C")] *)
    map (fun n => nth (flatF c_dim (unflatC c_dim n)) cells1 []) (seq 0 (prod c_dim))
  else cf.

(** corner offsets of the nodes of a cell, in the order of the cell definition *)
Definition corners (m : nat) : list (list nat) :=
  match m with
  | 0 => [[]]
  | 1 => [[0]; [1]]
  | 2 => [[0; 1]; [1; 1]; [1; 0]; [0; 0]]
  | _ => [[0; 1; 1]; [1; 1; 1]; [1; 0; 1]; [0; 0; 1]; [0; 1; 0]; [1; 1; 0]; [1; 0; 0]; [0; 0; 0]]
  end.

(** an index over the non-degenerate axes put back into all axes (0 on length-1 axes) *)
Fixpoint embed (dims x : list nat) : list nat :=
  match dims with
  | [] => []
  | d :: r => if nondeg d
              then match x with i :: s => i :: embed r s | [] => 0 :: embed r [] end
              else 0 :: embed r x
  end.

(** * Node centres (grid_tools.py 54-75) *)
Definition qsum (l : list Q) : Q := fold_right Qplus 0%Q l.
Definition qmean (l : list Q) : Q := (qsum l / inject_Z (Z.of_nat (length l)))%Q.
Definition col (a : nat) (ps : list (list Q)) : list Q := map (fun p => nth a p 0%Q) ps.
Definition node_center (dim : nat) (ps : list (list Q)) : list Q :=
  map (fun a => qmean (col a ps)) (seq 0 dim).
Definition gen_node_centers (dim : nat) (pts : list (list Q)) (cells : list (list nat)) : list (list Q) :=
  map (fun cell => node_center dim (map (fun p => nth p pts []) cell)) cells.

(** * Structured grid (RectilinearGrid and subclasses) *)
Record grid := mkgrid {
  g_axes : list (list Q);   (* xyz order, all increasing *)
  g_inc : list bool;        (* axes_increase *)
  g_c : bool;               (* order == "C" *)
  g_rev : bool;             (* axes_reversed *)
  g_pts : bool;             (* data_location == Location.POINTS *)
  g_crs : nat;              (* crs tag *)
  g_esri : bool             (* class EsriGrid: valid_locations = (CELLS,) *)
}.

(** well-formed: one direction flag per axis, no empty axis (specification only) *)
Definition wf_grid (g : grid) : Prop :=
  length (g_inc g) = length (g_axes g) /\ Forall (fun ax => 1 <= length ax) (g_axes g).

Definition dims (g : grid) : list nat := map (@length Q) (g_axes g).
Definition gdim (g : grid) : nat := length (g_axes g).
Definition point_order (g : grid) : bool := if g_rev g then negb (g_c g) else g_c g.
Definition cshape_of (dims : list nat) : list nat := map (fun d => Nat.max (d - 1) 1) dims.
Definition point_count (g : grid) : nat := prod (dims g).
Definition cell_count (g : grid) : nat := prod (cshape_of (dims g)).
Definition cell_axes (g : grid) : list (list Q) := map cell_axis (g_axes g).
Definition points (g : grid) : list (list Q) := gen_points (g_axes g) (point_order g) (g_inc g).
Definition cells (g : grid) : list (list nat) := gen_cells (dims g) (point_order g).
Definition cell_centers (g : grid) : list (list Q) := gen_points (cell_axes g) (point_order g) (g_inc g).
Definition mesh_dim (g : grid) : nat := length (filter nondeg (dims g)).
(** CellType: VERTEX 0, LINE 1, QUAD 3, HEX 5 *)
Definition cell_type_of (m : nat) : nat := match m with 0 => 0 | 1 => 1 | 2 => 3 | _ => 5 end.
Definition cell_types (g : grid) : list nat := repeat (cell_type_of (mesh_dim g)) (cell_count g).
Definition loc_axes (g : grid) : list (list Q) := if g_pts g then g_axes g else cell_axes g.
Definition mrev {A : Type} (b : bool) (l : list A) : list A := if b then rev l else l.
Definition data_axes (g : grid) : list (list Q) := mrev (g_rev g) (dir_axes (g_inc g) (loc_axes g)).
Definition data_shape (g : grid) : list nat :=
  let d := mrev (g_rev g) (dims g) in if g_pts g then d else cshape_of d.
Definition data_size (g : grid) : nat := prod (data_shape g).
Definition data_points (g : grid) : list (list Q) := if g_pts g then points g else cell_centers g.
(** Grid.cell_centers of the base class, i.e. gen_node_centers(grid) *)
Definition node_centers (g : grid) : list (list Q) := gen_node_centers (gdim g) (points g) (cells g).
Definition flatten_cells (cs : list (list nat)) : list nat := concat cs.

(** the coordinate (xyz order) of the element at data multi-index [i], read from data_axes *)
Definition coord_at (g : grid) (i : list nat) : list Q := mrev (g_rev g) (coords (data_axes g) i).

(** * Cast to an unstructured grid (grid_spec.py 145-163, 476-604) *)
Record ugrid := mkugrid {
  u_dim : nat; u_points : list (list Q); u_cells : list (list nat); u_types : list nat;
  u_pts : bool; u_c : bool
}.
Definition to_unstructured (g : grid) : ugrid :=
  mkugrid (gdim g) (points g) (cells g) (cell_types g) (g_pts g) (g_c g).
Definition u_data_shape (u : ugrid) : list nat :=
  [if u_pts u then length (u_points u) else length (u_cells u)].
Definition u_cell_centers (u : ugrid) : list (list Q) := gen_node_centers (u_dim u) (u_points u) (u_cells u).
Definition u_data_points (u : ugrid) : list (list Q) := if u_pts u then u_points u else u_cell_centers u.

(** * Constructors *)
Fixpoint all_adj (r : Q -> Q -> bool) (l : list Q) : bool :=
  match l with
  | a :: (b :: _) as t => r a b && all_adj r t
  | _ => true
  end.
Definition Qltb (a b : Q) : bool := negb (Qle_bool b a).

(** check_axes_monotonicity for one axis: (increasing version, axes_increase flag) *)
Definition norm_axis (ax : list Q) : option (list Q * bool) :=
  if length ax =? 1 then Some (ax, true)
  else if all_adj Qltb ax then Some (ax, true)
  else if all_adj (fun a b => Qltb b a) ax then Some (rev ax, false)
  else None.

Fixpoint norm_axes (axes : list (list Q)) : option (list (list Q) * list bool) :=
  match axes with
  | [] => Some ([], [])
  | ax :: r =>
      match norm_axis ax, norm_axes r with
      | Some (a, b), Some (l, bs) => Some (a :: l, b :: bs)
      | _, _ => None
      end
  end.

(** RectilinearGrid.__init__ (None = ValueError) *)
Definition mk_rect (axes : list (list Q)) (c rev pts : bool) (crs : nat) (esri : bool) : option grid :=
  match norm_axes (firstn 3 axes) with
  | Some (l, bs) => if pts && esri then None else Some (mkgrid l bs c rev pts crs esri)
  | None => None
  end.

(** gen_axes (grid_tools.py 78-107) *)
Fixpoint gen_axes (dims : list nat) (spacing origin : list Q) (inc : list bool) : list (list Q) :=
  match dims, spacing, origin, inc with
  | d :: r, s :: ss, o :: os, b :: bs =>
      let ax := map (fun i => (inject_Z (Z.of_nat i) * s + o)%Q) (seq 0 d) in
      (if b then ax else rev ax) :: gen_axes r ss os bs
  | _, _, _, _ => []
  end.

(** UniformGrid.__init__ *)
Definition mk_uniform (dims : list nat) (spacing origin : list Q) (inc : option (list bool))
  (c rev pts : bool) (crs : nat) (esri : bool) : option grid :=
  let dims := firstn 3 dims in
  let n := length dims in
  let spacing := firstn n spacing in
  let origin := firstn n origin in
  if (length spacing <? n) || (length origin <? n) then None else
  let inc := match inc with Some l => l | None => repeat true n end in
  if negb (length inc =? n) then None else
  mk_rect (gen_axes dims spacing origin inc) c rev pts crs esri.

(** EsriGrid.__init__ *)
Definition mk_esri (ncols nrows : nat) (cs xll yll : Q) (c : bool) (crs : nat) : option grid :=
  mk_uniform [ncols + 1; nrows + 1] [cs; cs] [xll; yll] (Some [true; false]) c true false crs true.

Inductive gspec : Type :=
| SUniform (dims : list nat) (spacing origin : list Q) (inc : option (list bool))
| SRect (axes : list (list Q))
| SEsri (ncols nrows : nat) (cs xll yll : Q).

(** layout: (order C, axes_reversed, location POINTS, crs) *)
Definition layout : Type := (bool * bool * bool * nat)%type.

Definition build (s : gspec) (l : layout) : option grid :=
  let '(c, rev, pts, crs) := l in
  match s with
  | SUniform d sp o inc => mk_uniform d sp o inc c rev pts crs false
  | SRect axes => mk_rect axes c rev pts crs false
  | SEsri nc nr cs x y => mk_esri nc nr cs x y c crs
  end.

(** * The memo state machine of RectilinearGrid (grid_spec.py 142-143, 170-182, 225-235) *)
Record rgrid := mkr { r_g : grid; r_shape : option (list nat); r_size : option nat }.
Definition fresh (g : grid) : rgrid := mkr g None None.

Inductive mop : Type :=
| MShape (k : nat)              (* read obj_k.data_shape *)
| MSize (k : nat)               (* read obj_k.data_size *)
| MPoints (k : nat)             (* read obj_k.data_points *)
| MProp (p : nat) (k : nat)     (* read another public property of obj_k, see [prop_q] / [prop_n] *)
| MSet (k : nat) (pts : bool)   (* obj_k.data_location = ... *)
| MCopy (k : nat).              (* objs.append(obj_k.copy()) *)

Inductive mres : Type :=
| RShape (s : list nat)
| RSize (n : nat)
| RPoints (p : list (list Q))
| RQ (p : nat) (m : list (list Q))
| RN (p : nat) (m : list (list nat))
| RSet (ok : bool)              (* false = ValueError, nothing changed *)
| RCopied
| RBad.                         (* no such object *)

(** further public properties read on a living object (all are recomputed on every access):
    0 data_axes, 1 points, 2 cell_centers, 3 data_points of to_unstructured(), 4 cell_axes;
    5 cells, 6 [data_shape] of to_unstructured() *)
Definition prop_q (p : nat) (g : grid) : list (list Q) :=
  match p with
  | 0 => data_axes g
  | 1 => points g
  | 2 => cell_centers g
  | 3 => u_data_points (to_unstructured g)
  | _ => cell_axes g
  end.
Definition prop_n (p : nat) (g : grid) : list (list nat) :=
  match p with
  | 5 => cells g
  | _ => [u_data_shape (to_unstructured g)]
  end.

Definition set_loc (g : grid) (pts : bool) : grid :=
  mkgrid (g_axes g) (g_inc g) (g_c g) (g_rev g) pts (g_crs g) (g_esri g).

Fixpoint upd {A : Type} (k : nat) (x : A) (l : list A) : list A :=
  match l, k with
  | [], _ => []
  | _ :: r, 0 => x :: r
  | y :: r, S k' => y :: upd k' x r
  end.

(** [reset = true] is the code as it is (setter forgets the memo); [reset = false] is the code
    before the repair of finding F6, kept for the refutation example. *)
Definition mstep (reset : bool) (st : list rgrid) (o : mop) : list rgrid * mres :=
  let k := match o with MShape k | MSize k | MPoints k | MProp _ k | MSet k _ | MCopy k => k end in
  match nth_error st k with
  | None => (st, RBad)
  | Some r =>
      match o with
      | MShape _ =>
          let s := match r_shape r with Some s => s | None => data_shape (r_g r) end in
          (upd k (mkr (r_g r) (Some s) (r_size r)) st, RShape s)
      | MSize _ =>
          (* super().data_size = np.prod(self.data_shape): reads (and fills) the shape memo too *)
          match r_size r with
          | Some n => (st, RSize n)
          | None =>
              let s := match r_shape r with Some s => s | None => data_shape (r_g r) end in
              (upd k (mkr (r_g r) (Some s) (Some (prod s))) st, RSize (prod s))
          end
      | MPoints _ => (st, RPoints (data_points (r_g r)))
      | MProp p _ => (st, if p <? 5 then RQ p (prop_q p (r_g r)) else RN p (prop_n p (r_g r)))
      | MSet _ pts =>
          if pts && g_esri (r_g r) then (st, RSet false)
          else if reset then (upd k (mkr (set_loc (r_g r) pts) None None) st, RSet true)
          else (upd k (mkr (set_loc (r_g r) pts) (r_shape r) (r_size r)) st, RSet true)
      | MCopy _ => (st ++ [r], RCopied)
      end
  end.

(** every result is paired with the grid record of the object it was read from (after the op) *)
Fixpoint mrun (reset : bool) (st : list rgrid) (ops : list mop) : list (mres * option grid) :=
  match ops with
  | [] => []
  | o :: r =>
      let '(st', x) := mstep reset st o in
      let k := match o with MShape k | MSize k | MPoints k | MProp _ k | MSet k _ | MCopy k => k end in
      (x, option_map r_g (nth_error st' k)) :: mrun reset st' r
  end.

(** * Correspondence interface *)
Definition qmat_eqb (a b : list (list Q)) : bool := list_eqb (list_eqb Qeq_bool) a b.
Definition nmat_eqb (a b : list (list nat)) : bool := list_eqb (list_eqb Nat.eqb) a b.
Definition b2n (b : bool) : nat := if b then 1 else 0.

Definition gobs : Type := (list (list (list nat)) * list (list (list Q)))%type.

Definition observe (g : grid) : gobs :=
  let u := to_unstructured g in
  ([ [dims g]; [data_shape g];
     [[data_size g; point_count g; cell_count g; mesh_dim g; gdim g]];
     [map b2n (g_inc g)];
     cells g; [cell_types g]; [flatten_cells (cells g)];
     u_cells u; [u_types u]; [u_data_shape u ++ [length (u_points u); length (u_cells u); u_dim u]] ],
   [ g_axes g; cell_axes g; data_axes g; points g; cell_centers g; data_points g; node_centers g;
     u_points u; u_data_points u; u_cell_centers u ]).

Definition gobs_eqb (a b : gobs) : bool :=
  list_eqb nmat_eqb (fst a) (fst b) && list_eqb qmat_eqb (snd a) (snd b).

Definition mres_eqb (a b : mres) : bool :=
  match a, b with
  | RShape s, RShape t => list_eqb Nat.eqb s t
  | RSize n, RSize m => Nat.eqb n m
  | RPoints p, RPoints q => qmat_eqb p q
  | RQ p m, RQ q n => Nat.eqb p q && qmat_eqb m n
  | RN p m, RN q n => Nat.eqb p q && nmat_eqb m n
  | RSet x, RSet y => Bool.eqb x y
  | RCopied, RCopied => true
  | RBad, RBad => true
  | _, _ => false
  end.

Inductive c14_case : Type :=
| GridCase (s : gspec) (l : layout)
| MemoCase (s : gspec) (l : layout) (ops : list mop).

Inductive c14_obs : Type :=
| OGrid (o : option gobs)                (* None = ValueError at construction *)
| OMemo (o : option (list mres)).

Definition c14_model (c : c14_case) : c14_obs :=
  match c with
  | GridCase s l => OGrid (option_map observe (build s l))
  | MemoCase s l ops =>
      OMemo (option_map (fun g => map fst (mrun true [fresh g] ops)) (build s l))
  end.

Definition c14_check (x : c14_case * c14_obs) : bool :=
  match c14_model (fst x), snd x with
  | OGrid a, OGrid b => option_eqb gobs_eqb a b
  | OMemo a, OMemo b => option_eqb (list_eqb mres_eqb) a b
  | _, _ => false
  end.
