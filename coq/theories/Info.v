(** Executable model of finam's metadata exchange over a link
    (C07: after connect both ends of every link agree on metadata; conflicts are rejected).

    Modelled code (line numbers of /repo at the time of writing):
      src/finam/data/tools/info.py   Info.__init__/mask setter 49-102, copy_with 125-155, accepts 157-201
      src/finam/data/tools/mask.py   masks_compatible 243-285, masks_equal 288-335, mask_specified 367-381
      src/finam/data/grid_base.py    Grid.compatible_with 193-230, StructuredGrid.compatible_with 402-438,
                                     __eq__ 440-447, to_canonical 500-531;  grid_spec.py NoGrid 71-90
      src/finam/sdk/output.py        Output.get_info 363-429, push_data gate 173-174, get_data gate 259-262
      src/finam/sdk/input.py         Input.exchange_info 165-217
      src/finam/sdk/adapter.py       Adapter.get_info/_get_info/exchange_info 247-315
      src/finam/adapters/regrid.py   ARegridding._get_info 48-93, _check_and_set_out_mask 100-118
      src/finam/adapters/time_integration.py  SumOverTime._get_info 292-307

    Abstractions (this file is self-contained; it does not use Grid.v / Mask.v / Units.v):
    - a grid is [gridspec]: kind, geometry id (what set of located cells/points it describes:
      dim + crs + increasing axes for structured grids, data_shape for NoGrid, points/cells/order for
      unstructured grids), data location, layout (axes_reversed, axes_increase) and the data shape in
      the grid's own layout.  [compatible] = same kind, geometry id and location; [grid_eqb] = compatible
      and same layout (StructuredGrid.__eq__).
    - units are (dimension exponent vector, factor to base units); compatibility = equal dimensions.
    - explicit masks are 1-d or 2-d bit arrays in the layout of the grid they were declared with;
      [to_canonical] is the transpose/flip of StructuredGrid.to_canonical on them.
    - times are integer microseconds; extra meta values are integers; CRS is not modelled (always None).
    No proofs in this file. *)
From Coq Require Import List ZArith QArith Bool.
From FV Require Import Base.
Import ListNotations.
Open Scope Z_scope.

(** * Results: value or exception class *)
Inductive xres (A : Type) : Type :=
| XOk (a : A)
| XMeta        (* FinamMetaDataError *)
| XNoData      (* FinamNoDataError *)
| XOther.      (* any other exception (ValueError from to_canonical, ...) *)
Arguments XOk {A} a.
Arguments XMeta {A}.
Arguments XNoData {A}.
Arguments XOther {A}.

Definition xbind {A B : Type} (r : xres A) (f : A -> xres B) : xres B :=
  match r with XOk a => f a | XMeta => XMeta | XNoData => XNoData | XOther => XOther end.
Notation "'do' x <- r ; k" := (xbind r (fun x => k)) (at level 200, x name, r at level 100, k at level 200).

Definition orelse {A : Type} (a b : option A) : option A := match a with Some _ => a | None => b end.
Definition is_some {A : Type} (a : option A) : bool := match a with Some _ => true | None => false end.

(** * Grids *)
Inductive gkind : Type := KNoGrid | KStruct | KUnstr.
Definition gkind_eqb (a b : gkind) : bool :=
  match a, b with KNoGrid, KNoGrid | KStruct, KStruct | KUnstr, KUnstr => true | _, _ => false end.

Record gridspec : Type := mkG {
  g_kind : gkind;
  g_geom : Z;            (* geometry id *)
  g_loc : Z;             (* data location (0 cells, 1 points; 0 for NoGrid) *)
  g_dim : nat;
  g_rev : bool;          (* axes_reversed *)
  g_inc : list bool;     (* axes_increase *)
  g_shape : list nat     (* data_shape, in the grid's own layout *)
}.

(** compatible_with: grid_base.py 193-230 / 402-438, grid_spec.py 71-87 *)
Definition compatible (g h : gridspec) : bool :=
  gkind_eqb (g_kind g) (g_kind h) && (g_geom g =? g_geom h) && (g_loc g =? g_loc h).
Definition layout_eqb (g h : gridspec) : bool :=
  Bool.eqb (g_rev g) (g_rev h) && list_eqb Bool.eqb (g_inc g) (g_inc h).
(** __eq__: grid_base.py 232-233, 440-447 *)
Definition grid_eqb (g h : gridspec) : bool := compatible g h && layout_eqb g h.

(** * Masks *)
Inductive bits : Type := B1 (l : list bool) | B2 (rows : list (list bool)).
Definition bits_ndim (b : bits) : nat := match b with B1 _ => 1%nat | B2 _ => 2%nat end.
Definition bits_shape (b : bits) : list nat :=
  match b with
  | B1 l => [length l]
  | B2 rows => [length rows; match rows with [] => 0%nat | r :: _ => length r end]
  end.
Definition bits_any (b : bits) : bool :=
  match b with B1 l => existsb (fun x => x) l | B2 rows => existsb (existsb (fun x => x)) rows end.
Definition bits_eqb (a b : bits) : bool :=
  match a, b with
  | B1 x, B1 y => list_eqb Bool.eqb x y
  | B2 x, B2 y => list_eqb (list_eqb Bool.eqb) x y
  | _, _ => false
  end.
Definition transpose (rows : list (list bool)) : list (list bool) :=
  match rows with
  | [] => []
  | r :: _ => map (fun j => map (fun row => nth j row false) rows) (seq 0 (length r))
  end.
Definition shape_eqb (a b : list nat) : bool := list_eqb Nat.eqb a b.

(** np.flip(data, axis) *)
Definition flip_axis (b : bits) (axis : nat) : option bits :=
  match b, axis with
  | B1 l, O => Some (B1 (rev l))
  | B2 rows, O => Some (B2 (rev rows))
  | B2 rows, S O => Some (B2 (map (@rev bool) rows))
  | _, _ => None
  end.
Fixpoint flips (b : bits) (axis : nat) (inc : list bool) : option bits :=
  match inc with
  | [] => Some b
  | true :: r => flips b (S axis) r
  | false :: r => match flip_axis b axis with Some b' => flips b' (S axis) r | None => None end
  end.

(** StructuredGrid.to_canonical (grid_base.py 500-531) on a mask; [None] = ValueError.
    NoGrid and unstructured grids: GridBase.to_canonical = identity. *)
Definition to_canonical (g : gridspec) (b : bits) : option bits :=
  match g_kind g with
  | KStruct =>
      let d := g_shape g in
      let s := bits_shape b in
      let n := length d in
      let ok := if g_rev g then shape_eqb (rev d) (firstn n (rev s)) else shape_eqb d (firstn n s) in
      if negb ok then None
      else
        let b1 := match b with
                  | B2 rows => if g_rev g then B2 (transpose rows) else b
                  | B1 _ => b
                  end in
        flips b1 0 (g_inc g)
  | _ => Some b
  end.

Inductive mask : Type := MFlex | MNone | MNoMask | MBits (b : bits).
(** [option mask]: [None] is Info(mask=None), the unset state. *)
Definition is_enum (m : option mask) : bool :=      (* not mask_specified(m) *)
  match m with Some MFlex | Some MNone => true | _ => false end.
Definition is_npmask (m : option mask) : bool :=    (* np.ma.is_mask(m) *)
  match m with Some MNoMask | Some (MBits _) => true | _ => false end.
Definition mask_eqb (a b : mask) : bool :=
  match a, b with
  | MFlex, MFlex | MNone, MNone | MNoMask, MNoMask => true
  | MBits x, MBits y => bits_eqb x y
  | _, _ => false
  end.

(** masks_equal (mask.py 288-332); [None] = ValueError raised by to_canonical *)
Definition masks_equal (this other : option mask) (tg og : option gridspec) : option bool :=
  match this, other with
  | None, None => Some true
  | _, _ =>
    if is_enum this && is_enum other then Some (option_eqb mask_eqb this other)
    else if negb (is_npmask this) || negb (is_npmask other) then Some false
    else match this, other with
         | Some MNoMask, Some MNoMask => Some true
         | Some MNoMask, Some (MBits b) => Some (negb (bits_any b))
         | Some (MBits a), Some MNoMask => Some (negb (bits_any a))
         | Some (MBits a), Some (MBits b) =>
             if negb (Nat.eqb (bits_ndim a) (bits_ndim b)) then Some false
             else match tg, og with
                  | Some g, Some h =>
                      match to_canonical g a with
                      | None => None
                      | Some ca => match to_canonical h b with
                                   | None => None
                                   | Some cb => Some (shape_eqb (bits_shape ca) (bits_shape cb) && bits_eqb ca cb)
                                   end
                      end
                  | _, _ =>                    (* mask.py 326-330 (repaired): no layout to refer to *)
                      Some (shape_eqb (bits_shape a) (bits_shape b) && bits_eqb a b)
                  end
         | _, _ => Some false
         end
  end.

(** masks_compatible (mask.py 243-285) *)
Definition masks_compatible (this incoming : option mask) (downstream : bool)
           (this_grid incoming_grid : option gridspec) : option bool :=
  let '(up, down, ug, dg) :=
    if downstream then (this, incoming, this_grid, incoming_grid)
    else (incoming, this, incoming_grid, this_grid) in
  match up with
  | None => Some false
  | Some _ =>
      if is_enum down then
        if is_enum up then Some (option_eqb mask_eqb down (Some MFlex) || option_eqb mask_eqb up (Some MNone))
        else Some (option_eqb mask_eqb down (Some MFlex))
      else if is_enum up then Some false
      else masks_equal down up dg ug
  end.

(** * Units *)
Record unit_t : Type := mkU { u_dims : list Z; u_factor : Q }.
Definition dims_eqb (a b : list Z) : bool := list_eqb Z.eqb a b.
Definition compatible_units (u v : unit_t) : bool := dims_eqb (u_dims u) (u_dims v).
Definition unit_eqb (u v : unit_t) : bool := dims_eqb (u_dims u) (u_dims v) && Qeq_bool (u_factor u) (u_factor v).

(** * Info *)
Definition meta_t := list (Z * option Z).     (* extra meta entries, key -> value or None *)
Record info : Type := mkI {
  i_time : option Z;
  i_grid : option gridspec;
  i_mask : option mask;
  i_units : option unit_t;                    (* meta["units"]; the key always exists *)
  i_meta : meta_t
}.

Fixpoint mget (k : Z) (m : meta_t) : option (option Z) :=
  match m with
  | [] => None
  | (k', v) :: r => if k =? k' then Some v else mget k r
  end.
Fixpoint mset (k : Z) (v : Z) (m : meta_t) : meta_t :=
  match m with
  | [] => [(k, Some v)]
  | (k', v') :: r => if k =? k' then (k', Some v) :: r else (k', v') :: mset k v r
  end.

(** The check of the mask setter run by Info.__init__ (info.py 91-102): an explicit bit mask must have
    the data shape of the grid, if there is one. *)
Definition info_consistent (i : info) : bool :=
  match i_mask i, i_grid i with
  | Some (MBits b), Some g => shape_eqb (g_shape g) (bits_shape b)
  | _, _ => true
  end.

Definition bits_size (b : bits) : nat :=
  match b with B1 l => length l | B2 rows => fold_right (fun r n => (length r + n)%nat) 0%nat rows end.
Definition mask_fits_size (m : option mask) (g : gridspec) : bool :=
  match m with
  | Some (MBits b) => Nat.eqb (bits_size b) (fold_right Nat.mul 1%nat (g_shape g))
  | _ => true
  end.

(** Info.accepts (info.py 157-201).  [XOther] when to_canonical raises. *)
Definition grid_ok (self inc : info) (downstream : bool) : bool :=
  match i_grid self with
  | None => true
  | Some g => match i_grid inc with
              | Some h => compatible g h
              | None => downstream
              end
  end.
Definition mask_ok (self inc : info) (downstream : bool) : option bool :=
  match i_mask self with
  | None => Some true
  | Some _ =>
      if downstream && negb (is_some (i_mask inc)) then Some true
      else masks_compatible (i_mask self) (i_mask inc) downstream (i_grid self) (i_grid inc)
  end.
Definition units_ok (self inc : info) (downstream : bool) : bool :=
  match i_units self with
  | None => true
  | Some u1 => match i_units inc with
               | Some u2 => compatible_units u1 u2
               | None => downstream
               end
  end.
Definition accepts (self inc : info) (downstream : bool) : xres bool :=
  match mask_ok self inc downstream with
  | None => XOther
  | Some mk => XOk (grid_ok self inc downstream && mk && units_ok self inc downstream)
  end.

(** * Output (output.py) *)
Record ostate : Type := mkO {
  o_info : option info;     (* _output_info *)
  o_static : bool;
  o_conn : nat;             (* len(_connected_inputs) *)
  o_exch : nat              (* _out_infos_exchanged *)
}.

(** the loop output.py 418-425 over the extra meta entries *)
Fixpoint fill_meta (m req : meta_t) : option meta_t :=
  match m with
  | [] => Some []
  | (k, Some v) :: r => option_map (cons (k, Some v)) (fill_meta r req)
  | (k, None) :: r =>
      match mget k req with
      | Some (Some v) => option_map (cons (k, Some v)) (fill_meta r req)
      | _ => None
      end
  end.

(** the fill part of Output.get_info, output.py 401-425 *)
Definition fill_info (static : bool) (oi req : info) : xres info :=
  match orelse (i_grid oi) (i_grid req) with
  | None => XMeta
  | Some g =>
    if negb (is_some (i_mask oi)) && negb (is_some (i_mask req)) then XMeta     (* output.py 410-413 *)
    else if negb (is_some (i_time oi)) && negb static && negb (is_some (i_time req)) then XMeta
    else
      (* output.py 418-425 (repaired): a static output keeps its time, set or not *)
      let t := if static then i_time oi else orelse (i_time oi) (i_time req) in
      match orelse (i_units oi) (i_units req) with
      | None => XMeta
      | Some u =>
          match fill_meta (i_meta oi) (i_meta req) with
          | None => XMeta
          | Some m => XOk (mkI t (Some g) (i_mask oi) (Some u) m)
          end
      end
  end.

(** Output.get_info, output.py 363-429 *)
Definition out_get_info (o : ostate) (req : info) : xres (ostate * info) :=
  match o_info o with
  | None => XNoData
  | Some oi =>
      do ok <- accepts oi req true;
      if negb ok then XMeta
      else do oi' <- fill_info (o_static o) oi req;
           XOk (mkO (Some oi') (o_static o) (o_conn o) (S (o_exch o)), oi')
  end.

(** the gate in push_data (173-174) and get_data (259-262): no data moves before every
    registered consumer has exchanged its info *)
Definition data_gate_open (o : ostate) : bool := is_some (o_info o) && (o_conn o <=? o_exch o)%nat.

(** * copy_with (info.py 125-155) *)
Fixpoint merge_meta (m : meta_t) (kw : meta_t) : meta_t :=
  match kw with
  | [] => m
  | (k, Some v) :: r => merge_meta (mset k v m) r
  | (k, None) :: r => merge_meta m r
  end.

(** src_info.copy_with(use_none=False, time=info.time, grid=info.grid, **info.meta), input.py 208-210;
    the constructor call inside copy_with re-runs the mask/grid shape check on [src]. *)
Definition merge (src req : info) : xres info :=
  if negb (info_consistent src) then XMeta
  else XOk (mkI (orelse (i_time req) (i_time src))
                (orelse (i_grid req) (i_grid src))
                (i_mask src)
                (orelse (i_units req) (i_units src))
                (merge_meta (i_meta src) (i_meta req))).

(** * Adapters *)
Inductive adapter : Type :=
| APlain                                             (* Adapter._get_info default: Scale, AvgOverTime, ... *)
| ASum (per_time : bool) (tbl : list (unit_t * unit_t))
      (* SumOverTime; [tbl] is pint's (units * s).to_reduced_units() as a finite table (oracle) *)
| ARegrid (in_grid out_grid : option gridspec) (out_mask : option mask).   (* ARegridding *)

Fixpoint lookup_unit (u : unit_t) (tbl : list (unit_t * unit_t)) : option unit_t :=
  match tbl with
  | [] => None
  | (a, b) :: r => if unit_eqb u a then Some b else lookup_unit u r
  end.
Definition add_time_dim (d : list Z) : list Z :=    (* convention: index 1 is [time] *)
  match d with
  | a :: b :: r => a :: (b + 1) :: r
  | _ => d
  end.
Definition sum_units (tbl : list (unit_t * unit_t)) (u : unit_t) : unit_t :=
  match lookup_unit u tbl with
  | Some v => v
  | None => mkU (add_time_dim (u_dims u)) (u_factor u)
  end.

(** the request an adapter sends upstream *)
Definition a_req (a : adapter) (req : info) : xres info :=
  match a with
  | APlain => XOk req
  | ASum per_time _ =>
      if negb (info_consistent req) then XMeta
      else if per_time then XOk (mkI (i_time req) (i_grid req) (i_mask req) None (i_meta req))
      else XOk req
  | ARegrid ig _ _ =>
      (* info.copy_with(grid=self.input_grid, mask=None), regrid.py 49 *)
      if negb (info_consistent req) then XMeta
      else XOk (mkI (i_time req) ig None (i_units req) (i_meta req))
  end.

(** what the adapter delivers downstream, given the downstream request and the info from upstream *)
Definition a_resp (a : adapter) (req ini : info) : xres info :=
  match a with
  | APlain => XOk ini
  | ASum per_time tbl =>
      if negb (info_consistent ini) then XMeta
      else if per_time then
             match i_units ini with
             | None => XOther      (* None * Unit("s"): TypeError *)
             | Some u => XOk (mkI (i_time ini) (i_grid ini) (i_mask ini) (Some (sum_units tbl u)) (i_meta ini))
             end
           else XOk ini
  | ARegrid ig og om =>
      (* regrid.py 52-93; the CRS checks are not modelled (no CRS in the domain) *)
      if negb (is_some og) && negb (is_some (i_grid req)) then XMeta
      else if negb (is_some ig) && negb (is_some (i_grid ini)) then XMeta
      else if negb (is_some om) && negb (is_some (i_mask req)) then XMeta
      else if negb (is_some (i_mask ini)) then XMeta
      else if match og, i_grid req with
              | Some g, Some h => negb (grid_eqb g h)
              | _, _ => false
              end then XMeta
      else
        match orelse ig (i_grid ini), orelse og (i_grid req) with
        | Some gi, Some go =>
            if negb (Nat.eqb (g_dim gi) (g_dim go)) then XMeta      (* regrid.py 199-201 *)
            else
              (* _check_and_set_out_mask, regrid.py 100-118 *)
              let conflict :=
                match om, i_mask req with
                | Some _, Some _ =>
                    match masks_compatible om (i_mask req) true None None with
                    | Some true => false
                    | _ => true
                    end
                | _, _ => false
                end in
              if conflict then XMeta
              else
                let omask := orelse om (i_mask req) in
                (* _get_in_coords / _get_out_coords (regrid.py 123-143) index the data points with the
                   raveled mask: IndexError when the sizes differ *)
                if negb (mask_fits_size (i_mask ini) gi) || negb (mask_fits_size omask go) then XOther
                else
                (* in_info.copy_with(grid=output_grid, mask=output_mask), regrid.py 93 *)
                if negb (info_consistent ini) then XMeta
                else if negb (info_consistent (mkI None (Some go) omask None [])) then XMeta
                else XOk (mkI (i_time ini) (Some go) omask (i_units ini) (i_meta ini))
        | _, _ => XMeta
        end
  end.

(** error of one type re-typed *)
Definition xerr {A B : Type} (r : xres A) : xres B :=
  match r with XOk _ => XOther | XMeta => XMeta | XNoData => XNoData | XOther => XOther end.

(** Adapter.get_info -> _get_info -> exchange_info -> source.get_info, for a chain of adapters listed
    from the input towards the output.  The output state is returned in every case: when an adapter
    refuses the delivered info, the output has already counted the exchange. *)
Fixpoint chain_get_info (chain : list adapter) (o : ostate) (req : info) : ostate * xres info :=
  match chain with
  | [] => match out_get_info o req with
          | XOk (o', d) => (o', XOk d)
          | e => (o, xerr e)
          end
  | a :: rest =>
      match a_req a req with
      | XOk up => let '(o', r) := chain_get_info rest o up in
                  (o', do ini <- r; a_resp a req ini)
      | e => (o, xerr e)
      end
  end.

(** Input.exchange_info, input.py 165-217: the input's own acceptance check and the merge come after
    the source has answered (and counted the exchange). *)
Definition input_accept (req d : info) : xres info :=
  do ok <- accepts req d false;
  if negb ok then XMeta else merge d req.
Definition input_exchange (chain : list adapter) (o : ostate) (req : info) : ostate * xres info :=
  let '(o', r) := chain_get_info chain o req in
  (o', do d <- r; input_accept req d).

Record consumer : Type := mkC { c_chain : list adapter; c_info : info }.

(** All consumers of one output exchange in list order; the first failure aborts (connect() raises).
    Returns the output state reached and either all input infos or the error class. *)
Fixpoint run_all (o : ostate) (cs : list consumer) : ostate * xres (list info) :=
  match cs with
  | [] => (o, XOk [])
  | c :: r =>
      let '(o', res) := input_exchange (c_chain c) o (c_info c) in
      match res with
      | XOk ii => let '(o'', rr) := run_all o' r in (o'', do l <- rr; XOk (ii :: l))
      | e => (o', xerr e)
      end
  end.

Definition init_out (oi : option info) (static : bool) (n : nat) : ostate := mkO oi static n 0.

(** * Correspondence interface *)
Definition gkind_code (k : gkind) : Z := match k with KNoGrid => 0 | KStruct => 1 | KUnstr => 2 end.
Definition grid_obs_eqb (g h : gridspec) : bool :=
  grid_eqb g h && shape_eqb (g_shape g) (g_shape h) && Nat.eqb (g_dim g) (g_dim h).
Definition meta_sub (a b : meta_t) : bool :=
  forallb (fun kv => match mget (fst kv) b with
                     | Some v => option_eqb Z.eqb (snd kv) v
                     | None => false
                     end) a.
Definition meta_eqb (a b : meta_t) : bool := meta_sub a b && meta_sub b a && Nat.eqb (length a) (length b).
Definition info_eqb (a b : info) : bool :=
  option_eqb Z.eqb (i_time a) (i_time b)
  && option_eqb grid_obs_eqb (i_grid a) (i_grid b)
  && option_eqb mask_eqb (i_mask a) (i_mask b)
  && option_eqb unit_eqb (i_units a) (i_units b)
  && meta_eqb (i_meta a) (i_meta b).

(** case: either an exchange (producer info, static flag, consumers in the order in which they
    exchanged) or a direct call of the public Info.accepts *)
Inductive c07_case : Type :=
| CExchange (oi : option info) (static : bool) (cs : list consumer)
| CAccepts (self inc : info) (downstream : bool)
| CRelay (fwd : bool) (oi : info) (cs1 cs2 : list consumer) (rchain : list adapter) (rinfo : info)
         (ovu : option unit_t) (ovm : meta_t) (far : list consumer).
(** [CRelay]: a component between two links whose ConnectHelper composes one slot's info from the other
    slot's exchanged info by a complete transfer rule followed by FromValue overrides
    (tools/connect_helper.py _apply_rules 192-213, _transfer_fields 553-567).
    [fwd = true]: out_info_rules = [FromInput(in); FromValue...]: the relay's input (declared info [rinfo],
    behind [rchain]) is one of the producer's consumers (after [cs1], before [cs2]); the relay's output info
    is composed from the input's exchanged info and then exchanged with [far].
    [fwd = false]: in_info_rules = [FromOutput(out); FromValue...]: the relay's output (declared info [rinfo])
    exchanges with [far] first; the relay's input request is composed from the output's exchanged info. *)
(** observation: outcome (0 ok, 1 MetaDataError, 2 NoDataError, 3 other; for CAccepts 10 True, 11 False,
    3 exception), input infos (on success), output info afterwards (on success), number of exchanges the
    output answered, data gate open afterwards *)
Record c07_obs : Type := mkObs {
  ob_outcome : Z;
  ob_inputs : list info;
  ob_out : option info;
  ob_exchanged : nat;
  ob_gate : bool
}.
(** Info(time=None, grid=None), complete transfer (time, grid, copy of meta incl. units; the mask is not
    transferred: default FLEX), then the FromValue rules *)
Definition apply_rules (src : info) (ovu : option unit_t) (ovm : meta_t) : info :=
  mkI (i_time src) (i_grid src) (Some MFlex) (orelse ovu (i_units src)) (merge_meta (i_meta src) ovm).

Definition outcome_code {A : Type} (r : xres A) : Z :=
  match r with XOk _ => 0 | XMeta => 1 | XNoData => 2 | XOther => 3 end.
Definition fail_obs (code : Z) : c07_obs := mkObs code [] None 0 false.

Definition relay_model (fwd : bool) (oi : info) (cs1 cs2 : list consumer) (rchain : list adapter) (rinfo : info)
           (ovu : option unit_t) (ovm : meta_t) (far : list consumer) : c07_obs :=
  let n1 := S (length cs1 + length cs2) in
  if fwd then
    let '(o1, r1) := run_all (init_out (Some oi) false n1) (cs1 ++ mkC rchain rinfo :: cs2) in
    match r1 with
    | XOk l1 =>
        match nth_error l1 (length cs1) with
        | Some ii =>
            let '(o2, r2) := run_all (init_out (Some (apply_rules ii ovu ovm)) false (length far)) far in
            match r2, o_info o2 with
            | XOk l2, Some ro => mkObs 0 (l1 ++ l2 ++ [ro]) (o_info o1) (o_exch o1) (data_gate_open o1)
            | _, _ => fail_obs (outcome_code r2)
            end
        | None => fail_obs 3
        end
    | _ => fail_obs (outcome_code r1)
    end
  else
    let '(o2, r2) := run_all (init_out (Some rinfo) false (length far)) far in
    match r2, o_info o2 with
    | XOk l2, Some ro =>
        let '(o1, r1) := run_all (init_out (Some oi) false n1) (cs1 ++ mkC rchain (apply_rules ro ovu ovm) :: cs2) in
        match r1 with
        | XOk l1 => mkObs 0 (l1 ++ l2 ++ [ro]) (o_info o1) (o_exch o1) (data_gate_open o1)
        | _ => fail_obs (outcome_code r1)
        end
    | _, _ => fail_obs (outcome_code r2)
    end.

Definition c07_model (c : c07_case) : c07_obs :=
  match c with
  | CExchange oi st cs =>
      let '(o', r) := run_all (init_out oi st (length cs)) cs in
      match r with
      | XOk l => mkObs 0 l (o_info o') (o_exch o') (data_gate_open o')
      | XMeta => mkObs 1 [] None (o_exch o') (data_gate_open o')
      | XNoData => mkObs 2 [] None (o_exch o') (data_gate_open o')
      | XOther => mkObs 3 [] None (o_exch o') (data_gate_open o')
      end
  | CAccepts self inc ds =>
      match accepts self inc ds with
      | XOk true => mkObs 10 [] None 0 false
      | XOk false => mkObs 11 [] None 0 false
      | _ => mkObs 3 [] None 0 false
      end
  | CRelay fwd oi cs1 cs2 rchain rinfo ovu ovm far => relay_model fwd oi cs1 cs2 rchain rinfo ovu ovm far
  end.
Definition c07_obs_eqb (a b : c07_obs) : bool :=
  (ob_outcome a =? ob_outcome b)
  && list_eqb info_eqb (ob_inputs a) (ob_inputs b)
  && option_eqb info_eqb (ob_out a) (ob_out b)
  && Nat.eqb (ob_exchanged a) (ob_exchanged b)
  && Bool.eqb (ob_gate a) (ob_gate b).
Definition c07_check (x : c07_case * c07_obs) : bool := c07_obs_eqb (c07_model (fst x)) (snd x).
