(** Executable model of the data path of one link  Output >> Input  (property C08).

    Anchors (finam as in /repo):
      src/finam/sdk/output.py   push_data 152-202 (prepare, memory-sharing check, append),
                                get_data 234-282, _interpolate 340-361  (reused from FV.OutputM)
      src/finam/sdk/input.py    pull_data 101-136, _convert_and_check 138-156
      src/finam/data/tools/core.py   prepare 26-113, _check_input_shape 116-152,
                                _check_input_shape_no_grid 155-175, _no_grid_shape_valid 178-184,
                                has_time_axis 187-219, check 310-338, _check_shape 341-351
      src/finam/data/tools/units.py  to_units 73-112, compatible_units/equivalent_units 186-244

    Times: integer microseconds.  Values: exact rationals.  A numpy array is a shape plus the
    list of its elements in C order (what [ravel()] returns) plus an optional mask in the same
    layout.  A unit is (dimension exponents, factor, offset) w.r.t. base units (pint is the
    oracle; the table of units lives in the harness).  A buffer token is (allocation id, first
    byte, one-past-last byte): [np.may_share_memory] only compares memory bounds.
    No proofs in this file. *)
From Coq Require Import List ZArith QArith Qabs Bool Arith.
From FV Require Import Base OutputM.
Import ListNotations.

(* ------------------------------------------------------------------ *)
(** * Units *)

Record uspec := mkU { u_dims : list Z; u_fac : Q; u_off : Q }.

(** [compatible_units]: the conversion does not raise DimensionalityError *)
Definition compatible (u v : uspec) : bool := list_eqb Z.eqb (u_dims u) (u_dims v).

(** the affine map of dimensional analysis: value in [u] -> value in [v] *)
Definition convert (u v : uspec) (x : Q) : Q := ((x * u_fac u + u_off u - u_off v) / u_fac v)%Q.

(** [equivalent_units]: compatible and [1 u] converts to [1 v]  ([np.isclose]: the harness
    uses no nearly-equal units) *)
Definition equivalent (u v : uspec) : bool := compatible u v && Qeq_bool (convert u v 1) 1.

(* ------------------------------------------------------------------ *)
(** * Arrays *)

Record arr := mkA { a_shape : list nat; a_data : list Q; a_mask : option (list bool) }.

Definition prod (l : list nat) : nat := fold_right Nat.mul 1%nat l.

(** position of a multi-index in C order / Fortran order *)
Fixpoint flatC (sh idx : list nat) : nat :=
  match sh, idx with
  | _ :: r, i :: ir => (i * prod r + flatC r ir)%nat
  | _, _ => 0%nat
  end.
Fixpoint flatF (sh idx : list nat) : nat :=
  match sh, idx with
  | d :: r, i :: ir => (i + d * flatF r ir)%nat
  | _, _ => 0%nat
  end.
(** multi-index of a C-order position *)
Fixpoint unflatC (sh : list nat) (p : nat) : list nat :=
  match sh with
  | [] => []
  | _ :: r => (p / prod r)%nat :: unflatC r (p mod prod r)%nat
  end.

(** element / mask bit at a multi-index (the accessors the theorems are stated with) *)
Definition aget (a : arr) (idx : list nat) : Q := nth (flatC (a_shape a) idx) (a_data a) 0%Q.
Definition mget (a : arr) (idx : list nat) : option bool :=
  option_map (fun m => nth (flatC (a_shape a) idx) m false) (a_mask a).

Definition amap (f : Q -> Q) (a : arr) : arr := mkA (a_shape a) (map f (a_data a)) (a_mask a).

(** [flat.reshape(sh, order="F")] of a 1-d array, result listed in C order *)
Definition permF {X : Type} (sh : list nat) (l : list X) (d : X) : list X :=
  map (fun p => nth (flatF sh (unflatC sh p)) l d) (seq 0 (prod sh)).

(* ------------------------------------------------------------------ *)
(** * Metadata of the link *)

Inductive gridspec :=
| GNo (dsh : list (option nat))            (* NoGrid; [None] is a flexible axis (-1) *)
| GStruct (ds : list nat) (orderF : bool). (* any Grid: data_shape and flattening order *)

Inductive maskspec :=
| MFlex | MNone                            (* Mask.FLEX / Mask.NONE: no mask demanded *)
| MBits (bits : list bool).                (* explicit mask of the grid's data shape, C order *)

Record info := mkI { i_grid : gridspec; i_units : uspec; i_mask : maskspec }.

Definition buf := option (nat * Z * Z).    (* None: memory allocated during [prepare] *)

Record payload := mkP { p_arr : arr; p_units : option uspec (* Some: a pint Quantity *); p_buf : buf }.
Record entry := mkE { e_arr : arr; e_units : uspec; e_buf : buf }.

Inductive ecls := EData (* FinamDataError *) | EMask (* numpy.ma.MaskError *).
Inductive pres := POk (e : entry) | PErr (c : ecls).

(* ------------------------------------------------------------------ *)
(** * tools.prepare *)

Fixpoint shape_valid (sh : list nat) (dsh : list (option nat)) : bool :=   (* core.py 178-184 *)
  match sh, dsh with
  | [], [] => true
  | d :: r, o :: r' => (match o with None => true | Some n => Nat.eqb d n end) && shape_valid r r'
  | _, _ => false
  end.

Inductive layout := LKeep | LExpand (* np.expand_dims(data, 0) *) | LReshape (te : nat).

(** [_check_input_shape] (116-152) and [_check_input_shape_no_grid] (155-175) with
    [time_entries = 1]; [None] is FinamDataError. *)
Definition check_shape (g : gridspec) (sh : list nat) : option layout :=
  match g with
  | GStruct ds _ =>
      let nd := length sh in
      let te := if Nat.eqb nd (S (length ds)) then hd 1%nat sh else 1%nat in
      let sz := prod sh in
      if negb (Nat.eqb (sz mod te) 0 && Nat.eqb (sz / te) (prod ds)) then None
      else if negb (Nat.eqb nd 1) then
        if list_eqb Nat.eqb (tl sh) ds then Some LKeep
        else if list_eqb Nat.eqb sh ds then Some LExpand
        else None
      else Some (LReshape (if Nat.leb te 1 then 1%nat else te))
  | GNo dsh =>
      if negb (Nat.eqb (length sh) (S (length dsh))) then
        if shape_valid sh dsh then Some LExpand else None
      else if negb (shape_valid (tl sh) dsh) then None
      else if negb (Nat.eqb (hd 0%nat sh) 1) then None
      else Some LKeep
  end.

Definition grid_ds (g : gridspec) : list nat := match g with GStruct ds _ => ds | GNo _ => [] end.
Definition grid_orderF (g : gridspec) : bool := match g with GStruct _ o => o | GNo _ => false end.

(** shape and C-order element list after the layout step; [LReshape] is
    [data.reshape([te] + data_shape, order=grid.order)] (141-149) of a 1-d array *)
Definition lay_shape (g : gridspec) (lay : layout) (sh : list nat) : list nat :=
  match lay with
  | LKeep => sh
  | LExpand => 1%nat :: sh
  | LReshape te => te :: grid_ds g
  end.
Definition lay_list {X : Type} (g : gridspec) (lay : layout) (l : list X) (d : X) : list X :=
  match lay with
  | LReshape te => if grid_orderF g then permF (te :: grid_ds g) l d else l
  | _ => l
  end.
Definition apply_layout (g : gridspec) (lay : layout) (a : arr) : arr :=
  mkA (lay_shape g lay (a_shape a)) (lay_list g lay (a_data a) 0%Q)
      (option_map (fun m => lay_list g lay m false) (a_mask a)).

(** [np.ma.array(data=..., mask=info.mask)] (72-81, 88-98) accepts a mask of one element or of
    the data's size, otherwise raises MaskError *)
Definition mask_ok (m : maskspec) (a : arr) : bool :=
  match m, a_mask a with
  | MBits bits, None => Nat.eqb (length bits) 1 || Nat.eqb (length bits) (prod (a_shape a))
  | _, _ => true
  end.

(** The mask of the prepared array: a masked payload keeps its own mask (it travels with the
    data through the reshape); a plain payload gets the mask of the info, located at the
    cells of the grid's data shape.
    (The code wraps before [_check_input_shape] and, for flat data, flattens the mask in the
    grid's order ([_mask_for], fix F10), so that the later reshape puts every bit back on its
    cell; the model attaches the mask after the reshape, which is observably the same.) *)
Definition attach_mask (m : maskspec) (own : option (list bool)) (a : arr) : arr :=
  match m, own with
  | MBits bits, None =>
      mkA (a_shape a) (a_data a)
          (Some (if Nat.eqb (length bits) 1 then repeat (hd false bits) (prod (a_shape a)) else bits))
  | _, _ => a
  end.

Definition shape_phase (inf : info) (a : arr) (u : uspec) (b : buf) : pres :=
  if negb (mask_ok (i_mask inf) a) then PErr EMask
  else match check_shape (i_grid inf) (a_shape a) with
       | None => PErr EData
       | Some lay => POk (mkE (attach_mask (i_mask inf) (a_mask a) (apply_layout (i_grid inf) lay a)) u b)
       end.

Definition prepare (inf : info) (p : payload) : pres :=
  match p_units p with
  | Some u =>
      if negb (compatible u (i_units inf)) then PErr EData               (* 67-71 *)
      else if negb (mask_ok (i_mask inf) (p_arr p)) then PErr EMask       (* 72-81 *)
      else if equivalent u (i_units inf)
           then shape_phase inf (p_arr p) u (p_buf p)                    (* units label kept *)
           else shape_phase inf (amap (convert u (i_units inf)) (p_arr p)) (i_units inf) None (* data.to(units): new memory *)
  | None => shape_phase inf (p_arr p) (i_units inf) (p_buf p)            (* 88-107 *)
  end.

(* ------------------------------------------------------------------ *)
(** * Output.push_data: prepare, memory-sharing check, append *)

Definition shares (b1 b2 : buf) : bool :=       (* np.may_share_memory: same allocation, overlapping bounds *)
  match b1, b2 with
  | Some (i, lo, hi), Some (j, lo', hi') => Nat.eqb i j && (lo <? hi')%Z && (lo' <? hi)%Z
  | _, _ => false
  end.

Definition lstate := OutputM.state entry.

Fixpoint last_entry (h : OutputM.hist entry) : option entry :=     (* self.data[-1][1] *)
  match h with
  | [] => None
  | (_, e) :: r => match r with [] => Some e | _ :: _ => last_entry r end
  end.

Definition lpush (inf : info) (s : lstate) (t : Z) (p : payload) : lstate * option ecls :=
  match prepare inf p with
  | PErr c => (s, Some c)
  | POk e =>
      match last_entry (st_hist s) with
      | Some e0 => if shares (e_buf e0) (e_buf e) then (s, Some EData) else (OutputM.push s t e, None)
      | None => (OutputM.push s t e, None)
      end
  end.

(* ------------------------------------------------------------------ *)
(** * Input.pull_data / _convert_and_check (same grid on both ends: no transform) *)

Inductive pull_res :=
| RArr (a : arr) (u : uspec)
| RTime | RNoData | RData.

(** [check] 310-338: time axis present, shape matches the grid, units compatible *)
Definition check_delivered (g : gridspec) (sh : list nat) : bool :=
  match g with
  | GStruct ds _ => Nat.eqb (length sh) (S (length ds)) && list_eqb Nat.eqb (tl sh) ds
  | GNo dsh => Nat.eqb (length sh) (S (length dsh))
  end.

Definition deliver (g : gridspec) (in_u : uspec) (e : entry) : pull_res :=
  if negb (compatible (e_units e) in_u) then RData
  else let a := if equivalent (e_units e) in_u then e_arr e            (* same or relabelled *)
                else amap (convert (e_units e) in_u) (e_arr e) in        (* xdata.to(units) *)
       if check_delivered g (a_shape a) then RArr a in_u else RData.

(** ** Transform between two layouts of the same structured grid
    ([StructuredGrid.get_transform_to], grid_base.py 568-600: [other.from_canonical(self.to_canonical(data))]
    with the time axis moved out of the way; [to_canonical]/[from_canonical] 500-566).
    A layout is [axes_reversed] and [axes_increase] (xyz order); [r_dims] is the number of data
    entries per axis in xyz order.  Array axis [pos] is coordinate axis [pos] (or [dim-1-pos] when
    reversed); index [i] along a decreasing axis of length [n] is the canonical index [n-1-i]. *)
Record glayout := mkL { l_rev : bool; l_inc : list bool }.
Record relay := mkR { r_dims : list nat; r_src : glayout; r_dst : glayout }.

Fixpoint flip_idx (dims : list nat) (inc : list bool) (idx : list nat) : list nat :=
  match dims, inc, idx with
  | n :: dr, b :: br, i :: ir => (if b then i else n - 1 - i)%nat :: flip_idx dr br ir
  | _, _, _ => []
  end.
(** canonical (xyz, increasing) multi-index of an index in layout [l], and back *)
Definition can_of (dims : list nat) (l : glayout) (idx : list nat) : list nat :=
  flip_idx dims (l_inc l) (if l_rev l then rev idx else idx).
Definition idx_of (dims : list nat) (l : glayout) (can : list nat) : list nat :=
  let f := flip_idx dims (l_inc l) can in if l_rev l then rev f else f.
Definition lshape (dims : list nat) (l : glayout) : list nat := if l_rev l then rev dims else dims.

Definition relay_list {X : Type} (r : relay) (k : nat) (l : list X) (d : X) : list X :=
  let shs := k :: lshape (r_dims r) (r_src r) in
  let shd := k :: lshape (r_dims r) (r_dst r) in
  map (fun p => match unflatC shd p with
                | j :: ic => nth (flatC shs (j :: idx_of (r_dims r) (r_src r) (can_of (r_dims r) (r_dst r) ic))) l d
                | [] => d
                end) (seq 0 (prod shd)).

Definition relayout (tr : option relay) (a : arr) : arr :=
  match tr, a_shape a with
  | Some r, k :: _ =>
      mkA (k :: lshape (r_dims r) (r_dst r)) (relay_list r k (a_data a) 0%Q)
          (option_map (fun m => relay_list r k m false) (a_mask a))
  | _, _ => a                                        (* equal layouts: no transform *)
  end.
Definition relaid (tr : option relay) (e : entry) : entry := mkE (relayout tr (e_arr e)) (e_units e) (e_buf e).

(** [g] is the consumer's grid, [tr] the transform from the producer's layout (if the layouts differ) *)
Definition lpull (g : gridspec) (tr : option relay) (in_u : uspec) (s : lstate) (k : nat) (t : Z) : lstate * pull_res :=
  match OutputM.get_data s k t with
  | (s', Ok e) => (s', deliver g in_u (relaid tr e))
  | (s', ErrTime) => (s', RTime)
  | (s', ErrNoData) => (s', RNoData)
  end.

(* ------------------------------------------------------------------ *)
(** * Op sequences on one link *)

Inductive lop := LPush (t : Z) (p : payload) | LPull (k : nat) (t : Z).   (* k: the pulling consumer *)
Inductive lobs := OPush (r : option ecls) | OPull (r : pull_res)
  | OExchErr.   (* FinamMetaDataError during the info exchange: the link is not established, no data crosses *)

(** one output, consumers 0..n-1 (final inputs, directly linked or behind pass-through adapters), each with its units *)
(** [co_nogrid]: the consumer declares its own [NoGrid] data shape (otherwise it uses the producer's grid object) *)
Record cons := mkCo { co_units : uspec; co_relay : option relay; co_nogrid : option (list (option nat)) }.

(** [NoGrid.compatible_with] (grid_spec.py 71-87): [isinstance(other, NoGrid) and self.data_shape == other.data_shape] -
    plain equality, a flexible axis (-1) only matches a flexible axis.  [Info.accepts] uses it on both ends. *)
Definition nogrid_compatible (a b : list (option nat)) : bool := list_eqb (option_eqb Nat.eqb) a b.
Definition cons_accepted (g : gridspec) (c : cons) : bool :=
  match co_nogrid c with
  | None => true
  | Some dsh' => match g with GNo dsh => nogrid_compatible dsh dsh' | GStruct _ _ => false end
  end.
Record lcfg := mkC { c_out : info; c_cons : list cons }.
Definition cons_of (c : lcfg) (k : nat) : cons := nth k (c_cons c) (mkCo (i_units (c_out c)) None None).
Definition cons_grid (c : lcfg) (k : nat) : gridspec :=
  match co_nogrid (cons_of c k), co_relay (cons_of c k) with
  | Some dsh', _ => GNo dsh'
  | None, Some r => GStruct (lshape (r_dims r) (r_dst r)) (grid_orderF (i_grid (c_out c)))
  | None, None => i_grid (c_out c)
  end.

Definition lstep (c : lcfg) (s : lstate) (o : lop) : lstate * lobs :=
  match o with
  | LPush t p => let '(s', r) := lpush (c_out c) s t p in (s', OPush r)
  | LPull k t => let '(s', r) := lpull (cons_grid c k) (co_relay (cons_of c k)) (co_units (cons_of c k)) s k t in (s', OPull r)
  end.

Fixpoint lrun (c : lcfg) (s : lstate) (ops : list lop) : list lobs :=
  match ops with
  | [] => []
  | o :: r => let '(s', x) := lstep c s o in x :: lrun c s' r
  end.

Definition linit (c : lcfg) : lstate := OutputM.init (seq 0 (length (c_cons c))).

(* ------------------------------------------------------------------ *)
(** * Correspondence interface *)

Definition c08_case : Type := lcfg * list lop.
Definition c08_obs : Type := list lobs.
Definition c08_model (c : c08_case) : c08_obs :=
  if forallb (cons_accepted (i_grid (c_out (fst c)))) (c_cons (fst c))
  then lrun (fst c) (linit (fst c)) (snd c)
  else [OExchErr].

(** floats of the implementation against exact rationals of the model:
    |m - o| <= 2^-40 * max(1, |m|) *)
Definition q_close (m o : Q) : bool :=
  Qle_bool (Qabs (m - o)) ((1 # 1099511627776) * (if Qle_bool 1 (Qabs m) then Qabs m else 1)).

Fixpoint data_close (m o : list Q) (mask : list bool) : bool :=
  match m, o with
  | [], [] => true
  | x :: rm, y :: ro =>
      let '(b, rmask) := match mask with [] => (false, []) | b :: r => (b, r) end in
      (b || q_close x y) && data_close rm ro rmask        (* masked positions carry no value *)
  | _, _ => false
  end.

Definition uspec_eqb (u v : uspec) : bool :=
  list_eqb Z.eqb (u_dims u) (u_dims v) && Qeq_bool (u_fac u) (u_fac v) && Qeq_bool (u_off u) (u_off v).

(** a mask without a set bit and no mask at all denote the same set of masked cells (numpy turns
    0-d masked arrays with nothing masked into plain scalars during arithmetic) *)
Definition mask_norm (m : option (list bool)) : option (list bool) :=
  match m with Some b => if existsb (fun x => x) b then Some b else None | None => None end.

Definition arr_close (m o : arr) : bool :=
  list_eqb Nat.eqb (a_shape m) (a_shape o)
  && option_eqb (list_eqb Bool.eqb) (mask_norm (a_mask m)) (mask_norm (a_mask o))
  && data_close (a_data m) (a_data o) (match a_mask m with Some b => b | None => [] end).

Definition ecls_eqb (a b : ecls) : bool :=
  match a, b with EData, EData => true | EMask, EMask => true | _, _ => false end.

Definition lobs_eqb (m o : lobs) : bool :=
  match m, o with
  | OPush a, OPush b => option_eqb ecls_eqb a b
  | OPull (RArr a u), OPull (RArr b v) => arr_close a b && uspec_eqb u v
  | OPull RTime, OPull RTime => true
  | OPull RNoData, OPull RNoData => true
  | OPull RData, OPull RData => true
  | OExchErr, OExchErr => true
  | _, _ => false
  end.

Definition c08_check (x : c08_case * c08_obs) : bool :=
  list_eqb lobs_eqb (c08_model (fst x)) (snd x).
