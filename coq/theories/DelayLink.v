(** Executable model of one link  Output >> [adapters] >> Input  carrying delay adapters
    (src/finam/adapters/time.py DelayFixed / DelayToPush / DelayToPull; src/finam/sdk/adapter.py
    TimeDelayAdapter.get_data 396-410), on top of the adapter part of FV.Sched and the output history of
    FV.OutputM.  Scripted operations: the source publishes, the consumer pulls.  No proofs here. *)
From Coq Require Import List ZArith Bool.
From FV Require Import Base OutputM Sched.
Import ListNotations.
Open Scope Z_scope.

Record lstate : Type := mkL {
  l_hist : hist nat;            (* publications of the source: (time, index), oldest first, never evicted here *)
  l_ss : list (list Z);         (* adapter states (DelayToPull request histories) *)
  l_ptime : option Z            (* DelayToPush.push_time: time of the newest notification *)
}.

Inductive lop : Type :=
| LPush (t : Z)                 (* the source publishes its next data set at time t *)
| LPull (t : Z).                (* the consumer pulls for time t *)

(** observation of a pull: the time argument that reached the source output, and what it delivered *)
Definition lobs : Type := option (Z * res nat).

Definition lstep (ch : list adapter) (init : Z) (s : lstate) (o : lop) : lstate * lobs :=
  match o with
  | LPush t => (mkL (l_hist s ++ [(t, length (l_hist s))]) (l_ss s) (Some t), None)
  | LPull t =>
      let '(r, _, ss') := pull_chain ch (l_ss s) init (l_ptime s) t in
      match interpolate (l_hist s) r with
      | Ok d => (mkL (l_hist s) ss' (l_ptime s), Some (r, Ok d))
      | e => (s, Some (r, e))       (* the exception leaves [_pulled] uncalled *)
      end
  end.

Fixpoint lrun (ch : list adapter) (init : Z) (s : lstate) (ops : list lop) : list lobs :=
  match ops with
  | [] => []
  | o :: r => let '(s', x) := lstep ch init s o in x :: lrun ch init s' r
  end.

Definition linit (ch : list adapter) : lstate := mkL [] (map (fun _ => []) ch) None.

(** correspondence interface *)
Definition c13_case : Type := list adapter * Z * list lop.
Definition c13_obs : Type := list lobs.
Definition c13_model (c : c13_case) : c13_obs :=
  let '(ch, init, ops) := c in lrun ch init (linit ch) ops.

Definition lobs_eqb (a b : lobs) : bool :=
  option_eqb (pair_eqb Z.eqb res_eqb) a b.
Definition c13_check (x : c13_case * c13_obs) : bool := list_eqb lobs_eqb (c13_model (fst x)) (snd x).

(** C13 also speaks about the driver: compositions run by the scheduler model (FV.Sched) are a second kind of case *)
(** A TREE of links: one output, a shared trunk of adapters WITHOUT per-request state (pass-through, DelayFixed,
    DelayToPush) that branches to several consumers, each behind its own sub-chain.  Its model is: every consumer sees
    exactly the link  sub-chain ++ trunk  driven by all publications and by ITS OWN pulls (the consumers do not
    influence each other).  A tree case is given as the list of these per-consumer links. *)
Definition c13_tree_check (cs : list c13_case) (os : list c13_obs) : bool :=
  Nat.eqb (length cs) (length os) && forallb c13_check (combine cs os).

Inductive c13_case2 : Type := CLink (c : c13_case) | CSched (c : sched_case) | CTree (cs : list c13_case).
Inductive c13_obs2 : Type := OLink (o : c13_obs) | OSched (o : sched_obs) | OTree (os : list c13_obs).
Definition c13_check2 (x : c13_case2 * c13_obs2) : bool :=
  match x with
  | (CLink c, OLink o) => c13_check (c, o)
  | (CSched c, OSched o) => sched_check (c, o)
  | (CTree cs, OTree os) => c13_tree_check cs os
  | _ => false
  end.
