(** Executable model of the canonical form of structured-grid data and of the conversion between
    compatible grids
    (src/finam/data/grid_base.py: StructuredGrid.compatible_with 402-438, __eq__ 440-447,
       to_canonical 500-532, from_canonical 534-566, get_transform_to 568-598;
     src/finam/sdk/input.py: exchange_info 163-213 (accepts + choice of the transform),
       _convert_and_check 138-156 (transform, then tools.check of the shape)).

    An n-d array is a shape and an index function (numpy views: transpose / flip / moveaxis only
    re-index).  Values are of an arbitrary type [A] (the correspondence uses [option Z], [None] =
    masked element).  np.allclose is modelled as exact equality of rationals. *)
From Coq Require Import List ZArith QArith Bool Arith.
From FV Require Import Base Grid.
Import ListNotations.
Open Scope nat_scope.

Record arr (A : Type) : Type := mkarr { a_shape : list nat; a_get : list nat -> A }.
Arguments mkarr {A}. Arguments a_shape {A}. Arguments a_get {A}.

Section Ops.
  Context {A : Type}.

  (** np.transpose(data) : all axes reversed *)
  Definition transpose (a : arr A) : arr A :=
    mkarr (rev (a_shape a)) (fun idx => a_get a (rev idx)).

  (** [for i, inc in enumerate(axes_increase): if not inc: data = np.flip(data, axis=i)]:
      flips on distinct axes act independently on the index; axes beyond [incs] are untouched *)
  Fixpoint flipidx (incs : list bool) (sh idx : list nat) : list nat :=
    match incs, sh, idx with
    | b :: incs', n :: sh', i :: idx' => (if b then i else n - 1 - i) :: flipidx incs' sh' idx'
    | _, _, _ => idx
    end.
  Definition flips (incs : list bool) (a : arr A) : arr A :=
    mkarr (a_shape a) (fun idx => a_get a (flipidx incs (a_shape a) idx)).

  (** np.moveaxis(data, 0, -1) *)
  Definition move_first_last (a : arr A) : arr A :=
    mkarr (tl (a_shape a) ++ [hd 0 (a_shape a)]) (fun idx => a_get a (last idx 0 :: removelast idx)).
  (** np.moveaxis(data, -1, 0) *)
  Definition move_last_first (a : arr A) : arr A :=
    mkarr (last (a_shape a) 0 :: removelast (a_shape a)) (fun idx => a_get a (tl idx ++ [hd 0 idx])).

  Definition shape_eqb (s t : list nat) : bool := list_eqb Nat.eqb s t.
  Definition ndim (a : arr A) : nat := length (a_shape a).

  (** grid_base.py 500-532; [None] = ValueError *)
  Definition to_canonical (g : grid) (a : arr A) : option (arr A) :=
    let d := data_shape g in
    if negb (shape_eqb (mrev (g_rev g) d) (firstn (length d) (mrev (g_rev g) (a_shape a)))) then None
    else
      let a1 := if g_rev g && (1 <? ndim a) then transpose a else a in
      Some (flips (g_inc g) a1).

  (** grid_base.py 534-566 *)
  Definition from_canonical (g : grid) (a : arr A) : option (arr A) :=
    let d := data_shape g in
    if negb (shape_eqb (mrev (g_rev g) d) (firstn (length d) (a_shape a))) then None
    else
      let a1 := flips (g_inc g) a in
      Some (if g_rev g && (1 <? ndim a1) then transpose a1 else a1).
End Ops.

(** np.allclose(a, b) for two axes, with numpy broadcasting of a length-1 axis; exact comparison *)
Definition axis_close (a b : list Q) : bool :=
  if length a =? length b then list_eqb Qeq_bool a b
  else match a, b with
       | [x], _ => forallb (Qeq_bool x) b
       | _, [y] => forallb (fun x => Qeq_bool x y) a
       | _, _ => false
       end.

Fixpoint all2 {X Y : Type} (f : X -> Y -> bool) (l : list X) (m : list Y) : bool :=   (* all(f(a,b) for a,b in zip) *)
  match l, m with
  | x :: r, y :: s => f x y && all2 f r s
  | _, _ => true
  end.

(** StructuredGrid.compatible_with(other) with check_location=True, other a StructuredGrid *)
Definition compatible (g h : grid) : bool :=
  (gdim g =? gdim h) && (g_crs g =? g_crs h) && Bool.eqb (g_pts g) (g_pts h)
  && shape_eqb (data_shape g)
       (if Bool.eqb (g_rev g) (g_rev h) then data_shape h else rev (data_shape h))
  && all2 axis_close (g_axes g) (g_axes h).

(** StructuredGrid.__eq__ *)
Definition grid_eq (g h : grid) : bool :=
  compatible g h && all2 Bool.eqb (g_inc g) (g_inc h) && Bool.eqb (g_rev g) (g_rev h).

Section Trans.
  Context {A : Type}.

  (** the closure [trans] of get_transform_to (grid_base.py 585-595) *)
  Definition trans (g h : grid) (d : arr A) : option (arr A) :=
    let time_axis := ndim d =? length (data_shape g) + 1 in
    let d1 := if time_axis && negb (g_rev g) then move_first_last d else d in
    match to_canonical g d1 with
    | None => None
    | Some d2 =>
        match from_canonical h d2 with
        | None => None
        | Some d3 => Some (if time_axis && negb (g_rev h) then move_last_first d3 else d3)
        end
    end.

  Inductive tres : Type :=
  | TErr                      (* ValueError: grids are not compatible *)
  | TNone                     (* no transformation needed *)
  | TFun.                     (* the closure trans *)
  Definition get_transform_to (g h : grid) : tres :=
    if negb (compatible g h) then TErr else if grid_eq g h then TNone else TFun.

  Inductive lres : Type :=
  | LOk (a : arr A)
  | LErrMeta                  (* FinamMetaDataError at the info exchange *)
  | LErrValue                 (* ValueError *)
  | LErrData.                 (* FinamDataError from tools.check *)

  (** Output(grid g) >> Input(grid h): info exchange, then one data set [d] (with its leading time
      axis) pulled through Input._convert_and_check *)
  Definition link_deliver (g h : grid) (d : arr A) : lres :=
    if negb (compatible h g) then LErrMeta          (* info.accepts(src_info) *)
    else match get_transform_to g h with
         | TErr => LErrValue
         | TNone =>
             if shape_eqb (tl (a_shape d)) (data_shape h) then LOk d else LErrData
         | TFun =>
             match trans g h d with
             | None => LErrValue
             | Some r => if shape_eqb (tl (a_shape r)) (data_shape h) then LOk r else LErrData
             end
         end.

  (** Input.pull_data (sdk/input.py 95-137): a static input converts the data of its source once
      and answers every later pull from [_cached_data] (the cache stays empty when the conversion
      raised); a non-static input converts every data set it fetches exactly once. *)
  Definition pull_input (static : bool) (g h : grid) (cache : option (arr A)) (d : arr A)
    : option (arr A) * lres :=
    if static then
      match cache with
      | Some r => (cache, LOk r)
      | None => let res := link_deliver g h d in
                (match res with LOk r => Some r | _ => None end, res)
      end
    else (cache, link_deliver g h d).

  (** [n] successive reads of a static input whose source holds [d] *)
  Fixpoint static_reads (g h : grid) (cache : option (arr A)) (d : arr A) (n : nat) : list lres :=
    match n with
    | 0 => []
    | S n' => let '(cache', res) := pull_input true g h cache d in
              res :: static_reads g h cache' d n'
    end.
End Trans.

(** * Specification vocabulary *)
(** shape of the located axes in xyz order = shape of canonical data *)
Definition canon_shape (g : grid) : list nat := if g_pts g then dims g else cshape_of (dims g).
(** the data index (layout of [g]) of the element with canonical index [c] *)
Definition layout_idx (g : grid) (c : list nat) : list nat :=
  mrev (g_rev g) (flipidx (g_inc g) (canon_shape g) c).
(** the canonical index of the element with data index [i] *)
Definition canon_idx (g : grid) (i : list nat) : list nat :=
  flipidx (g_inc g) (canon_shape g) (mrev (g_rev g) i).

(** strictly increasing axis *)
Definition strict_inc (ax : list Q) : Prop := all_adj Qltb ax = true.
Definition wf_axes (g : grid) : Prop := wf_grid g /\ Forall strict_inc (g_axes g).

(** * Correspondence interface *)
Definition arr_of_list {A : Type} (d : A) (sh : list nat) (l : list A) : arr A :=
  mkarr sh (fun idx => nth (flatC sh idx) l d).
Definition list_of_arr {A : Type} (a : arr A) : list A :=
  map (fun n => a_get a (unflatC (a_shape a) n)) (seq 0 (prod (a_shape a))).

Definition val : Type := option Z.
Definition val_eqb (x y : val) : bool := option_eqb Z.eqb x y.

(** * Comparisons on living grid objects
    Scripts on a list of grid objects: compatible_with / == / get_transform_to between two of them,
    data_location changes (rejected for an EsriGrid asked for POINTS) and copies.  Every answer is
    computed from the current records of the two objects; nothing is remembered between calls. *)
Inductive gop : Type :=
| GCompat (i j : nat)           (* obj_i.compatible_with(obj_j) *)
| GEq (i j : nat)               (* obj_i == obj_j *)
| GTrans (i j : nat)            (* obj_i.get_transform_to(obj_j): error / None / function *)
| GSet (i : nat) (pts : bool)   (* obj_i.data_location = ... *)
| GCopy (i : nat).              (* objs.append(obj_i.copy()) *)

Inductive gres : Type :=
| GB (b : bool) | GT (t : tres) | GSetR (ok : bool) | GCopied | GBad.

Definition gstep (st : list grid) (o : gop) : list grid * gres :=
  match o with
  | GCompat i j => match nth_error st i, nth_error st j with
                   | Some g, Some h => (st, GB (compatible g h)) | _, _ => (st, GBad) end
  | GEq i j => match nth_error st i, nth_error st j with
               | Some g, Some h => (st, GB (grid_eq g h)) | _, _ => (st, GBad) end
  | GTrans i j => match nth_error st i, nth_error st j with
                  | Some g, Some h => (st, GT (get_transform_to g h)) | _, _ => (st, GBad) end
  | GSet i pts => match nth_error st i with
                  | Some g => if pts && g_esri g then (st, GSetR false)
                              else (upd i (set_loc g pts) st, GSetR true)
                  | None => (st, GBad) end
  | GCopy i => match nth_error st i with
               | Some g => (st ++ [g], GCopied) | None => (st, GBad) end
  end.

(** trace: every op with the state in which its answer was given and the answer *)
Fixpoint gtrace (st : list grid) (ops : list gop) : list (gop * list grid * gres) :=
  match ops with
  | [] => []
  | o :: r => let '(st', x) := gstep st o in (o, st, x) :: gtrace st' r
  end.

Inductive ares : Type :=
| ACode (n : nat)               (* scalar answers of grid-object scripts, see [gres_code] *)
| AOk (sh : list nat) (vals : list val)
| AErr (cls : nat)            (* 1 ValueError, 2 FinamMetaDataError, 3 FinamDataError *)
| ANone.                      (* get_transform_to returned None *)

Definition ares_eqb (a b : ares) : bool :=
  match a, b with
  | AOk s v, AOk t w => shape_eqb s t && list_eqb val_eqb v w
  | AErr m, AErr n => Nat.eqb m n
  | ACode m, ACode n => Nat.eqb m n
  | ANone, ANone => true
  | _, _ => false
  end.

Definition ares_of (o : option (arr val)) : ares :=
  match o with Some a => AOk (a_shape a) (list_of_arr a) | None => AErr 1 end.
Definition obind {X Y : Type} (o : option X) (f : X -> option Y) : option Y :=
  match o with Some x => f x | None => None end.

Definition lres_ares (r : @lres val) : ares :=
  match r with
  | LOk a => AOk (a_shape a) (list_of_arr a)
  | LErrValue => AErr 1
  | LErrMeta => AErr 2
  | LErrData => AErr 3
  end.

(** flat (1-D) data of [data_size] entries pushed by the source component: tools.prepare reshapes it
    to [1 :: data_shape g] in the grid's order (data/tools/core.py _check_input_shape:
    [data.reshape([1] + list(grid.data_shape), order=grid.order)]) *)
Definition flat_arr {A : Type} (d : A) (g : grid) (vals : list A) : arr A :=
  mkarr (1 :: data_shape g) (fun idx => nth (flat (g_c g) (data_shape g) (tl idx)) vals d).

(** a script on one link: the source publishes a data set ([SPush]: as it reaches the input, i.e.
    with time axis; [SPushFlat]: flat data in the grid's order), or the input pulls (the most
    recent data set) *)
Inductive seq_op : Type :=
| SPush (shp : list nat) (vals : list val)
| SPushFlat (vals : list val)
| SPull.

Fixpoint run_seq (static : bool) (g h : grid) (cur : option (arr val)) (cache : option (arr val))
  (ops : list seq_op) : list ares :=
  match ops with
  | [] => []
  | SPush shp vals :: r => run_seq static g h (Some (arr_of_list None shp vals)) cache r
  | SPushFlat vals :: r => run_seq static g h (Some (flat_arr None g vals)) cache r
  | SPull :: r =>
      match cur with
      | None => AErr 4 :: run_seq static g h cur cache r
      | Some d => let '(cache', res) := pull_input static g h cache d in
                  lres_ares res :: run_seq static g h cur cache' r
      end
  end.

(** a relaying component between source (grid [g]) and consumer (grid [h]): its input declares grid
    [m]; it describes the data it pushes on with the info its input's exchange came back with
    (connector.in_infos, rule FromInput -- e.g. components.TimeTrigger), i.e. with grid [m]
    (sdk/input.py exchange_info returns the input's merged info), so the chain is the link g -> m
    followed by the link m -> h.  Conflicting grids stop the connect phase (FinamMetaDataError). *)
Definition relay_deliver {A : Type} (g m h : grid) (d : arr A) : @lres A :=
  match link_deliver g m d with
  | LOk a => link_deliver m h a
  | e => e
  end.
Definition relay_run (g m h : grid) (ds : list (list nat * list val)) : list ares :=
  if negb (compatible m g) || negb (compatible h m) then [AErr 2]
  else map (fun d => lres_ares (relay_deliver g m h (arr_of_list None (fst d) (snd d)))) ds.

Definition gres_code (r : gres) : ares :=
  ACode (match r with
         | GB false => 0 | GB true => 1
         | GT TErr => 10 | GT TNone => 11 | GT TFun => 12
         | GSetR false => 20 | GSetR true => 21
         | GCopied => 30 | GBad => 31
         end).

Fixpoint build_all (l : list (gspec * layout)) : option (list grid) :=
  match l with
  | [] => Some []
  | (s, y) :: r => match build s y, build_all r with
                   | Some g, Some gs => Some (g :: gs) | _, _ => None end
  end.

Inductive c15_case : Type :=
| CMethods (sg : gspec) (lg : layout) (sh : gspec) (lh : layout) (shape : list nat) (vals : list val)
| CLink (sg : gspec) (lg : layout) (sh : gspec) (lh : layout) (shape : list nat) (vals : list val)
| CLinkSeq (sg : gspec) (lg : layout) (sh : gspec) (lh : layout) (static : bool) (ops : list seq_op)
| CGridSeq (grids : list (gspec * layout)) (ops : list gop)
| CRelay (sg : gspec) (lg : layout) (sm : gspec) (lm : layout) (sh : gspec) (lh : layout)
    (ds : list (list nat * list val)).

Definition c15_obs : Type := (list ares * list bool)%type.

Definition c15_model (c : c15_case) : option c15_obs :=
  match c with
  | CMethods sg lg sh lh shape vals =>
      match build sg lg, build sh lh with
      | Some g, Some h =>
          let a := arr_of_list None shape vals in
          Some ([ ares_of (to_canonical g a);
                  ares_of (from_canonical g a);
                  ares_of (obind (to_canonical g a) (from_canonical g));
                  ares_of (obind (from_canonical g a) (to_canonical g));
                  match get_transform_to g h with
                  | TErr => AErr 1
                  | TNone => ANone
                  | TFun => ares_of (trans g h a)
                  end ],
                [ compatible g h; compatible h g; grid_eq g h; grid_eq h g ])
      | _, _ => None
      end
  | CLink sg lg sh lh shape vals =>
      match build sg lg, build sh lh with
      | Some g, Some h =>
          Some ([ lres_ares (link_deliver g h (arr_of_list None shape vals)) ], [])
      | _, _ => None
      end
  | CLinkSeq sg lg sh lh static ops =>
      match build sg lg, build sh lh with
      | Some g, Some h => Some (run_seq static g h None None ops, [])
      | _, _ => None
      end
  | CRelay sg lg sm lm sh lh ds =>
      match build sg lg, build sm lm, build sh lh with
      | Some g, Some m, Some h => Some (relay_run g m h ds, [])
      | _, _, _ => None
      end
  | CGridSeq grids ops =>
      match build_all grids with
      | Some st => Some (map (fun x => gres_code (snd x)) (gtrace st ops), [])
      | None => None
      end
  end.

Definition c15_check (x : c15_case * c15_obs) : bool :=
  match c15_model (fst x) with
  | Some o => list_eqb ares_eqb (fst o) (fst (snd x)) && list_eqb Bool.eqb (snd o) (snd (snd x))
  | None => false
  end.
