(** Executable model of finam's unit handling
    (src/finam/data/tools/units.py: to_units 73-112, compatible_units 186-207,
     equivalent_units 210-231, _cache_units 234-244, clear_units_cache 247-249;
     src/finam/data/tools/core.py: prepare 64-87 (units branches), check 333-338;
     src/finam/data/tools/info.py: accepts 194-199;
     src/finam/sdk/output.py: get_info 388-399, push_data 183-196;
     src/finam/sdk/input.py: exchange_info 195-207, _convert_and_check 146-155).

    A physical unit is (dimension exponents, factor > 0, offset): one unit of it is
    [factor] base units, and the value [x] denotes the base quantity [x*factor + offset].
    pint itself (parser, registry, float arithmetic) is an oracle; its model is the
    hand-written [catalogue] below.  A [uent] is a pint.Unit object: [cid] is its identity
    (what [==]/[hash] of pint.Unit see, i.e. the canonical units container the name parses
    to) and [uu] its physical meaning.  No proofs in this file. *)
From Coq Require Import List ZArith QArith Qabs Bool.
From FV Require Import Base.
Import ListNotations.
Open Scope Q_scope.

Record unit := mkU { dims : list Z; factor : Q; offset : Q }.
Record uent := mkE { cid : nat; uu : unit }.

(** ** Dimensional analysis (what pint computes) *)

(** no DimensionalityError <-> equal dimension *)
Definition compatible (u v : unit) : bool := list_eqb Z.eqb (dims u) (dims v).

(** [Quantity(x, u).to(v).magnitude] *)
Definition convert (u v : unit) (x : Q) : Q := (x * factor u + offset u - offset v) / factor v.

(** _cache_units: [equiv = isclose((1.0 * unit1).to(unit2).magnitude, 1.0)] inside the
    [try]; [False] when pint raises DimensionalityError.  (The tolerance of np.isclose is not
    modelled: the catalogue contains no nearly-equal units.) *)
Definition equivalent (u v : unit) : bool := compatible u v && Qeq_bool (convert u v 1) 1.

Definition pure_pair (a b : uent) : bool * bool :=
  (compatible (uu a) (uu b), equivalent (uu a) (uu b)).

(** ** The memo [_UNIT_PAIRS_CACHE]: dict keyed by the ordered pair (unit1, unit2) *)
Definition key := (nat * nat)%type.
Definition cache := list (key * (bool * bool)).

Definition key_eqb (k1 k2 : key) : bool := Nat.eqb (fst k1) (fst k2) && Nat.eqb (snd k1) (snd k2).

Fixpoint lookup (k : key) (c : cache) : option (bool * bool) :=
  match c with
  | [] => None
  | (k', r) :: t => if key_eqb k k' then Some r else lookup k t
  end.

(** [comp_equiv = _UNIT_PAIRS_CACHE.get((unit1, unit2)); if None: comp_equiv = _cache_units(..)] *)
Definition query (c : cache) (a b : uent) : (bool * bool) * cache :=
  match lookup (cid a, cid b) c with
  | Some r => (r, c)
  | None => let r := pure_pair a b in (r, ((cid a, cid b), r) :: c)
  end.

(** ** Results *)
Inductive err := ErrData | ErrMeta | ErrDim | ErrOther.
  (* FinamDataError | FinamMetaDataError | pint.DimensionalityError | anything else *)

(** a number with its unit label; [true] = it went through a numeric conversion *)
Definition val := (uent * bool * Q)%type.

Inductive res :=
| RUnit
| RBool (b : bool)
| RVal (u : nat) (conv : bool) (x : Q)                       (* label, conversion reported, number *)
| RLink (us : nat) (cs : bool) (xs : Q) (u : nat) (cv : bool) (x : Q)
      (* held by the output: label, converted?, number; received by the input: same *)
| RErr (e : err).

Definition res_of (r : val + err) : res :=
  match r with
  | inl (e, cv, x) => RVal (cid e) cv x
  | inr e => RErr e
  end.

(** pint: [xdata.to(units)] *)
Definition pint_to (a b : uent) (x : Q) : val + err :=
  if compatible (uu a) (uu b) then inl (b, true, convert (uu a) (uu b) x) else inr ErrDim.

(** ** to_units(Quantity(x, a), b, check_equivalent=chk)  — memoised and pure *)
Definition m_to_units (c : cache) (a b : uent) (chk : bool) (x : Q) : (val + err) * cache :=
  if Nat.eqb (cid b) (cid a) then (inl (a, false, x), c)          (* units != units2 is False *)
  else if chk then
    let '(r, c1) := query c b a in                                 (* equivalent_units(units, units2) *)
    if snd r then (inl (b, false, x), c1)                          (* UNITS.Quantity(xdata.magnitude, units) *)
    else (pint_to a b x, c1)
  else (pint_to a b x, c).

Definition p_to_units (a b : uent) (chk : bool) (x : Q) : val + err :=
  if Nat.eqb (cid b) (cid a) then inl (a, false, x)
  else if chk && equivalent (uu b) (uu a) then inl (b, false, x)
  else pint_to a b x.

(** ** prepare(Quantity(x, a), Info(units=b)) *)
Definition m_prepare (c : cache) (a b : uent) (x : Q) : (val + err) * cache :=
  let '(r1, c1) := query c a b in                                  (* compatible_units(data.units, units) *)
  if negb (fst r1) then (inr ErrData, c1)
  else
    let '(r2, c2) := query c1 a b in                               (* equivalent_units(data.units, units) *)
    if negb (snd r2) then (pint_to a b x, c2)                      (* data.to(units) *)
    else (inl (a, false, x), c2).                                  (* passed on with its own label *)

Definition p_prepare (a b : uent) (x : Q) : val + err :=
  if negb (compatible (uu a) (uu b)) then inr ErrData
  else if negb (equivalent (uu a) (uu b)) then pint_to a b x
  else inl (a, false, x).

(** ** Info(units=a).accepts(Info(units=b)):  compatible_units(u1, u2) *)
Definition m_accepts (c : cache) (a b : uent) : bool * cache :=
  let '(r, c1) := query c a b in (fst r, c1).

(** ** A link: output info units [a]; data published as Quantity(x, k) (or bare when [k = None]);
       consumer info units [b].  Output.get_info and Input.exchange_info check [accepts] in both
       directions (FinamMetaDataError), push_data runs [prepare], pull_data runs
       [to_units(.., check_equivalent=True)] and then [check] (compatible_units(info.units, data)). *)
Definition m_link (c : cache) (k : option uent) (a b : uent) (x : Q) : res * cache :=
  let '(ok1, c1) := m_accepts c a b in
  if negb ok1 then (RErr ErrMeta, c1) else
  let '(ok2, c2) := m_accepts c1 b a in
  if negb ok2 then (RErr ErrMeta, c2) else
  let '(st, c3) := match k with
                   | None => (inl (a, false, x), c2)
                   | Some k => m_prepare c2 k a x
                   end in
  match st with
  | inr e => (RErr e, c3)
  | inl (se, cs, xs) =>
      let '(g, c4) := m_to_units c3 se b true xs in
      match g with
      | inr e => (RErr e, c4)
      | inl (ge, cv, xg) =>
          let '(r5, c5) := query c4 b ge in
          if negb (fst r5) then (RErr ErrData, c5)
          else (RLink (cid se) cs xs (cid ge) (cs || cv) xg, c5)
      end
  end.

Definition p_link (k : option uent) (a b : uent) (x : Q) : res :=
  if negb (compatible (uu a) (uu b)) then RErr ErrMeta else
  if negb (compatible (uu b) (uu a)) then RErr ErrMeta else
  match (match k with None => inl (a, false, x) | Some k => p_prepare k a x end) with
  | inr e => RErr e
  | inl (se, cs, xs) =>
      match p_to_units se b true xs with
      | inr e => RErr e
      | inl (ge, cv, xg) =>
          if negb (compatible (uu b) (uu ge)) then RErr ErrData
          else RLink (cid se) cs xs (cid ge) (cs || cv) xg
      end
  end.

(** ** A link through an adapter that changes the units (SDK adapter overriding [_get_info]):
       output declared in [a] (data published as Quantity(x, k) or bare), the adapter asks upstream with
       units=None (Output.get_info then makes no unit check) and delivers the same numbers labelled [d];
       the consumer declares [b].  The ONLY unit check of the connect phase is the input's own
       [info.accepts(src_info)] = compatible_units(b, d) (input.py exchange_info, FinamMetaDataError).
       Pull: Output data -> adapter relabels -> Adapter.get_data runs prepare(data, output_info)
       (adapter.py 219-227) -> Input: to_units(.., check_equivalent=True), check. *)
Definition m_alink (c : cache) (k : option uent) (a d b : uent) (x : Q) : res * cache :=
  let '(ok, c1) := m_accepts c b d in
  if negb ok then (RErr ErrMeta, c1) else
  let '(st, c2) := match k with
                   | None => (inl (a, false, x), c1)
                   | Some k => m_prepare c1 k a x
                   end in
  match st with
  | inr e => (RErr e, c2)
  | inl (se, cs, xs) =>
      let '(ad, c3) := m_prepare c2 d d xs in
      match ad with
      | inr e => (RErr e, c3)
      | inl (de, cd, xd) =>
          let '(g, c4) := m_to_units c3 de b true xd in
          match g with
          | inr e => (RErr e, c4)
          | inl (ge, cv, xg) =>
              let '(r5, c5) := query c4 b ge in
              if negb (fst r5) then (RErr ErrData, c5)
              else (RLink (cid se) cs xs (cid ge) (cs || cd || cv) xg, c5)
          end
      end
  end.

Definition p_alink (k : option uent) (a d b : uent) (x : Q) : res :=
  if negb (compatible (uu b) (uu d)) then RErr ErrMeta else
  match (match k with None => inl (a, false, x) | Some k => p_prepare k a x end) with
  | inr e => RErr e
  | inl (se, cs, xs) =>
      match p_prepare d d xs with
      | inr e => RErr e
      | inl (de, cd, xd) =>
          match p_to_units de b true xd with
          | inr e => RErr e
          | inl (ge, cv, xg) =>
              if negb (compatible (uu b) (uu ge)) then RErr ErrData
              else RLink (cid se) cs xs (cid ge) (cs || cd || cv) xg
          end
      end
  end.

(** ** A component resets a state declared in [a] with [full_like(template, Quantity(x, f))]
       (core.py full_like: np.full_like on a quantity goes through pint, then
       [UNITS.Quantity(data, xdata.units)] converts f -> a, pint.DimensionalityError when incompatible)
       and publishes it on its output (declared in [a]) to a consumer declared in [b]. *)
Definition mark_conv (r : res) : res :=
  match r with
  | RLink us _ xs u _ y => RLink us true xs u true y   (* the numbers went through pint's conversion *)
  | r => r
  end.

Definition m_fill (c : cache) (f a b : uent) (x : Q) : res * cache :=
  if compatible (uu f) (uu a)
  then let '(r, c1) := m_link c (Some a) a b (convert (uu f) (uu a) x) in (mark_conv r, c1)
  else (RErr ErrDim, c).

Definition p_fill (f a b : uent) (x : Q) : res :=
  if compatible (uu f) (uu a) then mark_conv (p_link (Some a) a b (convert (uu f) (uu a) x))
  else RErr ErrDim.

(** ** A chain  generator [s] --> (input declared in [m]) component (output info derived from
       connector.in_infos / FromInput, i.e. from the input's OWN info: units [m]) --> consumer [d].
       The component doubles the pulled magnitudes and pushes plain numbers (meant in [m]).
       Two links: bare data on an [s] output to an [m] input, bare data on an [m] output to a [d] input.
       Held by the middle output: 2*y; received by the consumer: its conversion m -> d. *)
Definition m_chain (c : cache) (s m d : uent) (x : Q) : res * cache :=
  let '(r1, c1) := m_link c None s m x in
  match r1 with
  | RLink _ _ _ _ cv1 y =>
      let '(r2, c2) := m_link c1 None m d (2 * y) in
      (match r2 with
       | RLink us _ xs u cv2 z => RLink us cv1 xs u (cv1 || cv2) z
       | r => r
       end, c2)
  | r => (r, c1)
  end.

Definition p_chain (s m d : uent) (x : Q) : res :=
  match p_link None s m x with
  | RLink _ _ _ _ cv1 y =>
      match p_link None m d (2 * y) with
      | RLink us _ xs u cv2 z => RLink us cv1 xs u (cv1 || cv2) z
      | r => r
      end
  | r => r
  end.

(** ** A relaying component between two links with its own units on both sides:
       generator [s] --> (In declared in [m])  component  (Out declared in [o]) --> consumer [d].
       The component multiplies the pulled magnitudes by [g] and publishes them either as a quantity
       labelled [m] ([bare = false]: finam's TimeTrigger with in_info and out_info, g = 1; a component
       whose output info is [FromInput("In"), FromValue("units", o)]) or as plain numbers meant in its
       output units [o] ([bare = true]).  Link 1: bare data on an [s] output to an [m] input;
       link 2: Quantity(g*y, m) resp. bare g*y on an [o] output to a [d] input. *)
Definition m_relay (c : cache) (s m o d : uent) (bare : bool) (g x : Q) : res * cache :=
  let '(r1, c1) := m_link c None s m x in
  match r1 with
  | RLink _ _ _ _ cv1 y =>
      let '(r2, c2) := m_link c1 (if bare then None else Some m) o d (g * y) in
      (match r2 with
       | RLink us cs xs u cv2 z => RLink us (cv1 || cs) xs u (cv1 || cv2) z
       | r => r
       end, c2)
  | r => (r, c1)
  end.

Definition p_relay (s m o d : uent) (bare : bool) (g x : Q) : res :=
  match p_link None s m x with
  | RLink _ _ _ _ cv1 y =>
      match p_link (if bare then None else Some m) o d (g * y) with
      | RLink us cs xs u cv2 z => RLink us (cv1 || cs) xs u (cv1 || cv2) z
      | r => r
      end
  | r => r
  end.

(** ** Masked arrays: a mask hides cells, it does not change numbers.  (prepare wraps the payload
       with the Info's mask, core.py 73-82; the harness judges every unmasked cell with the scalar ops.) *)
Fixpoint mask_with (m : list bool) (l : list Q) : list (option Q) :=
  match m, l with
  | b :: mt, x :: lt => (if b then None else Some x) :: mask_with mt lt
  | _, _ => []
  end.

(** ** Sessions *)
Inductive op :=
| Clear                                               (* clear_units_cache() *)
| Compat (a b : uent)                                 (* compatible_units(a, b) *)
| Equiv (a b : uent)                                  (* equivalent_units(a, b) *)
| Same (a b : uent)                                   (* UNITS.Unit(a) == UNITS.Unit(b) *)
| Accepts (a b : uent)
| ToUnits (a b : uent) (chk : bool) (x : Q)
| Prepare (a b : uent) (x : Q)
| Link (k : option uent) (a b : uent) (x : Q)
| ALink (k : option uent) (a d b : uent) (x : Q)    (* link through a unit-changing adapter *)
| Fill (f a b : uent) (x : Q)                       (* full_like with a foreign-unit fill value, published *)
| Chain (s m d : uent) (x : Q)                      (* component computing in its input's own units *)
| Relay (s m o d : uent) (bare : bool) (g x : Q).   (* component with own units on both sides *)

Definition step (c : cache) (o : op) : res * cache :=
  match o with
  | Clear => (RUnit, [])
  | Compat a b => let '(r, c1) := query c a b in (RBool (fst r), c1)
  | Equiv a b => let '(r, c1) := query c a b in (RBool (snd r), c1)
  | Same a b => (RBool (Nat.eqb (cid a) (cid b)), c)
  | Accepts a b => let '(r, c1) := m_accepts c a b in (RBool r, c1)
  | ToUnits a b chk x => let '(r, c1) := m_to_units c a b chk x in (res_of r, c1)
  | Prepare a b x => let '(r, c1) := m_prepare c a b x in (res_of r, c1)
  | Link k a b x => m_link c k a b x
  | ALink k a d b x => m_alink c k a d b x
  | Fill f a b x => m_fill c f a b x
  | Chain s m d x => m_chain c s m d x
  | Relay s m o d bare g x => m_relay c s m o d bare g x
  end.

(** the answer by dimensional analysis alone: no memo, no history *)
Definition pure_res (o : op) : res :=
  match o with
  | Clear => RUnit
  | Compat a b => RBool (compatible (uu a) (uu b))
  | Equiv a b => RBool (equivalent (uu a) (uu b))
  | Same a b => RBool (Nat.eqb (cid a) (cid b))
  | Accepts a b => RBool (compatible (uu a) (uu b))
  | ToUnits a b chk x => res_of (p_to_units a b chk x)
  | Prepare a b x => res_of (p_prepare a b x)
  | Link k a b x => p_link k a b x
  | ALink k a d b x => p_alink k a d b x
  | Fill f a b x => p_fill f a b x
  | Chain s m d x => p_chain s m d x
  | Relay s m o d bare g x => p_relay s m o d bare g x
  end.

Fixpoint run (c : cache) (ops : list op) : list res :=
  match ops with
  | [] => []
  | o :: t => let '(r, c1) := step c o in r :: run c1 t
  end.

Fixpoint final (c : cache) (ops : list op) : cache :=
  match ops with
  | [] => c
  | o :: t => final (snd (step c o)) t
  end.

(** the pint.Unit objects an operation mentions *)
Definition op_ents (o : op) : list uent :=
  match o with
  | Clear => []
  | Compat a b | Equiv a b | Same a b | Accepts a b | ToUnits a b _ _ | Prepare a b _ => [a; b]
  | Link None a b _ => [a; b]
  | Link (Some k) a b _ => [k; a; b]
  | ALink None a d b _ => [a; d; b]
  | ALink (Some k) a d b _ => [k; a; d; b]
  | Fill f a b _ => [f; a; b]
  | Chain s m d _ => [s; m; d]
  | Relay s m o d _ _ _ => [s; m; o; d]
  end.
Definition ops_ents (ops : list op) : list uent := flat_map op_ents ops.

(** ** The catalogue: name -> (identity, dimension exponents
       [length; mass; time; temperature; substance; current; luminosity], factor, offset).
    Same table as CATALOGUE in harness/props/c17.py (printed by [python -m harness.props.c17]).
    pi/180 is a 35-digit rational approximation. *)
Definition catalogue : list uent := [
  mkE  0 (mkU [1;0;0;0;0;0;0]%Z (1#1) (0#1))  (*  0 "m" = meter *);
  mkE  0 (mkU [1;0;0;0;0;0;0]%Z (1#1) (0#1))  (*  1 "meter" = meter *);
  mkE  1 (mkU [1;0;0;0;0;0;0]%Z (1000#1) (0#1))  (*  2 "km" = kilometer *);
  mkE  2 (mkU [1;0;0;0;0;0;0]%Z (1#1000) (0#1))  (*  3 "mm" = millimeter *);
  mkE  3 (mkU [1;0;0;0;0;0;0]%Z (1#100) (0#1))  (*  4 "cm" = centimeter *);
  mkE  0 (mkU [1;0;0;0;0;0;0]%Z (1#1) (0#1))  (*  5 "gpm" = meter *);
  mkE  4 (mkU [0;0;1;0;0;0;0]%Z (1#1) (0#1))  (*  6 "s" = second *);
  mkE  5 (mkU [0;0;1;0;0;0;0]%Z (1#1000) (0#1))  (*  7 "ms" = millisecond *);
  mkE  6 (mkU [0;0;1;0;0;0;0]%Z (60#1) (0#1))  (*  8 "min" = minute *);
  mkE  7 (mkU [0;0;1;0;0;0;0]%Z (3600#1) (0#1))  (*  9 "h" = hour *);
  mkE  8 (mkU [0;0;1;0;0;0;0]%Z (86400#1) (0#1))  (* 10 "d" = day *);
  mkE  8 (mkU [0;0;1;0;0;0;0]%Z (86400#1) (0#1))  (* 11 "day" = day *);
  mkE  9 (mkU [0;0;1;0;0;0;0]%Z (31557600#1) (0#1))  (* 12 "yr" = year *);
  mkE 10 (mkU [0;1;0;0;0;0;0]%Z (1#1) (0#1))  (* 13 "kg" = kilogram *);
  mkE 11 (mkU [0;1;0;0;0;0;0]%Z (1#1000) (0#1))  (* 14 "g" = gram *);
  mkE 12 (mkU [0;1;0;0;0;0;0]%Z (1000#1) (0#1))  (* 15 "t" = metric_ton *);
  mkE 13 (mkU [2;0;0;0;0;0;0]%Z (1#1) (0#1))  (* 16 "m2" = meter2 *);
  mkE 13 (mkU [2;0;0;0;0;0;0]%Z (1#1) (0#1))  (* 17 "m^2" = meter2 *);
  mkE 14 (mkU [2;0;0;0;0;0;0]%Z (1000000#1) (0#1))  (* 18 "km2" = kilometer2 *);
  mkE 15 (mkU [2;0;0;0;0;0;0]%Z (10000#1) (0#1))  (* 19 "ha" = hectare *);
  mkE 16 (mkU [3;0;0;0;0;0;0]%Z (1#1) (0#1))  (* 20 "m3" = meter3 *);
  mkE 16 (mkU [3;0;0;0;0;0;0]%Z (1#1) (0#1))  (* 21 "m**3" = meter3 *);
  mkE 17 (mkU [3;0;0;0;0;0;0]%Z (1#1000) (0#1))  (* 22 "L" = liter *);
  mkE 17 (mkU [3;0;0;0;0;0;0]%Z (1#1000) (0#1))  (* 23 "liter" = liter *);
  mkE 18 (mkU [0;0;-1;0;0;0;0]%Z (1#1) (0#1))  (* 24 "1/s" = second-1 *);
  mkE 18 (mkU [0;0;-1;0;0;0;0]%Z (1#1) (0#1))  (* 25 "s-1" = second-1 *);
  mkE 19 (mkU [0;0;-1;0;0;0;0]%Z (1#1) (0#1))  (* 26 "Hz" = hertz *);
  mkE 20 (mkU [1;0;-1;0;0;0;0]%Z (1#1) (0#1))  (* 27 "m/s" = meter second-1 *);
  mkE 20 (mkU [1;0;-1;0;0;0;0]%Z (1#1) (0#1))  (* 28 "m s-1" = meter second-1 *);
  mkE 21 (mkU [1;0;-1;0;0;0;0]%Z (1#86400000) (0#1))  (* 29 "mm/d" = millimeter day-1 *);
  mkE 21 (mkU [1;0;-1;0;0;0;0]%Z (1#86400000) (0#1))  (* 30 "mm d-1" = millimeter day-1 *);
  mkE 21 (mkU [1;0;-1;0;0;0;0]%Z (1#86400000) (0#1))  (* 31 "mm/day" = millimeter day-1 *);
  mkE 22 (mkU [1;0;-1;0;0;0;0]%Z (5#18) (0#1))  (* 32 "km/h" = kilometer hour-1 *);
  mkE 23 (mkU [1;0;-1;0;0;0;0]%Z (1#3600000) (0#1))  (* 33 "mm/h" = millimeter hour-1 *);
  mkE 24 (mkU [1;0;-1;0;0;0;0]%Z (1#100) (0#1))  (* 34 "cm/s" = centimeter second-1 *);
  mkE 25 (mkU [3;0;-1;0;0;0;0]%Z (1#1) (0#1))  (* 35 "m3/s" = meter3 second-1 *);
  mkE 25 (mkU [3;0;-1;0;0;0;0]%Z (1#1) (0#1))  (* 36 "m3 s-1" = meter3 second-1 *);
  mkE 26 (mkU [3;0;-1;0;0;0;0]%Z (1#1000) (0#1))  (* 37 "L/s" = liter second-1 *);
  mkE 27 (mkU [-2;1;-1;0;0;0;0]%Z (1#1) (0#1))  (* 38 "kg m-2 s-1" = kilogram meter-2 second-1 *);
  mkE 27 (mkU [-2;1;-1;0;0;0;0]%Z (1#1) (0#1))  (* 39 "kg/m2/s" = kilogram meter-2 second-1 *);
  mkE 28 (mkU [0;0;0;1;0;0;0]%Z (1#1) (5463#20))  (* 40 "degC" = degree_Celsius *);
  mkE 29 (mkU [0;0;0;1;0;0;0]%Z (1#1) (0#1))  (* 41 "K" = kelvin *);
  mkE 30 (mkU [0;0;0;1;0;0;0]%Z (5#9) (45967#180))  (* 42 "degF" = degree_Fahrenheit *);
  mkE 29 (mkU [0;0;0;1;0;0;0]%Z (1#1) (0#1))  (* 43 "kelvin" = kelvin *);
  mkE 28 (mkU [0;0;0;1;0;0;0]%Z (1#1) (5463#20))  (* 44 "degrees_Celsius" = degree_Celsius *);
  mkE 29 (mkU [0;0;0;1;0;0;0]%Z (1#1) (0#1))  (* 45 "degK" = kelvin *);
  mkE 31 (mkU [0;0;0;0;0;0;0]%Z (1#1) (0#1))  (* 46 "" = dimensionless *);
  mkE 31 (mkU [0;0;0;0;0;0;0]%Z (1#1) (0#1))  (* 47 "1" = dimensionless *);
  mkE 31 (mkU [0;0;0;0;0;0;0]%Z (1#1) (0#1))  (* 48 "dimensionless" = dimensionless *);
  mkE 32 (mkU [0;0;0;0;0;0;0]%Z (1#100) (0#1))  (* 49 "%" = percent *);
  mkE 32 (mkU [0;0;0;0;0;0;0]%Z (1#100) (0#1))  (* 50 "percent" = percent *);
  mkE 33 (mkU [0;0;0;0;0;0;0]%Z (1#1000000) (0#1))  (* 51 "ppm" = ppm *);
  mkE 34 (mkU [0;0;0;0;0;0;0]%Z (1#1) (0#1))  (* 52 "psu" = practical_salinity_unit *);
  mkE 35 (mkU [0;0;0;0;0;0;0]%Z (1#1) (0#1))  (* 53 "rad" = radian *);
  mkE 36 (mkU [0;0;0;0;0;0;0]%Z (19634954084936207740391521145496893#1125000000000000000000000000000000000) (0#1))  (* 54 "degree" = degree *);
  mkE 37 (mkU [0;0;0;0;0;0;0]%Z (19634954084936207740391521145496893#1125000000000000000000000000000000000) (0#1))  (* 55 "degrees_north" = degrees_north *);
  mkE 38 (mkU [0;0;0;0;0;0;0]%Z (19634954084936207740391521145496893#1125000000000000000000000000000000000) (0#1))  (* 56 "degrees_east" = degrees_east *);
  mkE 39 (mkU [-1;1;-2;0;0;0;0]%Z (1#1) (0#1))  (* 57 "Pa" = pascal *);
  mkE 40 (mkU [-1;1;-2;0;0;0;0]%Z (100#1) (0#1))  (* 58 "hPa" = hectopascal *);
  mkE 41 (mkU [-1;1;-2;0;0;0;0]%Z (100#1) (0#1))  (* 59 "mbar" = millibar *);
  mkE 42 (mkU [-1;1;-2;0;0;0;0]%Z (1#1) (0#1))  (* 60 "N/m2" = newton meter-2 *);
  mkE 43 (mkU [-1;1;-2;0;0;0;0]%Z (1#1) (0#1))  (* 61 "kg m-1 s-2" = kilogram meter-1 second-2 *);
  mkE 44 (mkU [2;1;-3;0;0;0;0]%Z (1#1) (0#1))  (* 62 "W" = watt *);
  mkE 45 (mkU [2;1;-3;0;0;0;0]%Z (1#1) (0#1))  (* 63 "J/s" = joule second-1 *);
  mkE 46 (mkU [0;1;-3;0;0;0;0]%Z (1#1) (0#1))  (* 64 "W m-2" = watt meter-2 *);
  mkE 46 (mkU [0;1;-3;0;0;0;0]%Z (1#1) (0#1))  (* 65 "W/m2" = watt meter-2 *);
  mkE 47 (mkU [-3;1;0;0;0;0;0]%Z (1#1) (0#1))  (* 66 "kg/m3" = kilogram meter-3 *);
  mkE 48 (mkU [-3;1;0;0;0;0;0]%Z (1000#1) (0#1))  (* 67 "g/cm3" = gram centimeter-3 *);
  mkE 49 (mkU [0;0;0;0;1;0;0]%Z (1#1) (0#1))  (* 68 "mol" = mole *);
  mkE 50 (mkU [0;0;0;0;1;0;0]%Z (1#1000) (0#1))  (* 69 "mmol" = millimole *);
  mkE 51 (mkU [0;0;0;0;0;1;0]%Z (1#1) (0#1))  (* 70 "A" = ampere *);
  mkE 52 (mkU [0;0;0;0;0;0;1]%Z (1#1) (0#1))  (* 71 "cd" = candela *);
  mkE 53 (mkU [0;0;-1;1;0;0;0]%Z (1#3600) (0#1))  (* 72 "K/h" = kelvin hour-1 *);
  mkE 54 (mkU [0;0;-1;1;0;0;0]%Z (1#3600) (0#1))  (* 73 "degC/h" = delta_degree_Celsius hour-1 *);
  mkE 55 (mkU [0;0;-1;1;0;0;0]%Z (1#6480) (0#1))  (* 74 "degF/h" = delta_degree_Fahrenheit hour-1 *);
  mkE 56 (mkU [0;1;-3;-1;0;0;0]%Z (1#1) (0#1))  (* 75 "W m-2 K-1" = watt meter-2 kelvin-1 *)
].

Definition dflt : uent := mkE 4999 (mkU [] 1 0).
Definition U (n : nat) : uent := nth n catalogue dflt.

(** identity [cid] determines the physical unit (checked on all pairs of the catalogue) *)
Definition unit_eqb (u v : unit) : bool :=
  list_eqb Z.eqb (dims u) (dims v)
  && Z.eqb (Qnum (factor u)) (Qnum (factor v)) && Pos.eqb (Qden (factor u)) (Qden (factor v))
  && Z.eqb (Qnum (offset u)) (Qnum (offset v)) && Pos.eqb (Qden (offset u)) (Qden (offset v)).
Definition faithfulb (l : list uent) : bool :=
  forallb (fun a => forallb (fun b => implb (Nat.eqb (cid a) (cid b)) (unit_eqb (uu a) (uu b))) l) l.
Definition wfb (u : unit) : bool := Qle_bool 0 (factor u) && negb (Qeq_bool (factor u) 0).
(** every equivalent pair has equal offsets *)
Definition equiv_offsetsb (l : list uent) : bool :=
  forallb (fun a => forallb (fun b =>
     implb (equivalent (uu a) (uu b)) (Qeq_bool (offset (uu a)) (offset (uu b)))) l) l.

(** ** Correspondence interface *)
Definition c17_case := list op.
Definition c17_obs := list res.
Definition c17_model (c : c17_case) : c17_obs := run [] c.

Definition eps : Q := 1 # 1000000000000.

(** magnitude of the terms of the affine conversion, in units of [v] *)
Definition slack (u v : unit) (x : Q) : Q :=
  (Qabs x * factor u + Qabs (offset u) + Qabs (offset v)) / factor v.

Definition close (m o sl : Q) : bool := Qle_bool (Qabs (m - o)) (eps * sl).
Definition num_agree (cv : bool) (m o sl : Q) : bool :=
  if cv then close m o sl else Qeq_bool m o.

Definition err_eqb (e1 e2 : err) : bool :=
  match e1, e2 with
  | ErrData, ErrData | ErrMeta, ErrMeta | ErrDim, ErrDim | ErrOther, ErrOther => true
  | _, _ => false
  end.

(** tolerance scales of an operation: (first number, second number) *)
Definition slacks (o : op) (m : res) : Q * Q :=
  match o with
  | ToUnits a b _ x | Prepare a b x => (slack (uu a) (uu b) x, 0)
  | Link k a b x =>
      let s1 := match k with Some k => slack (uu k) (uu a) x | None => 0 end in
      match m with
      | RLink _ cs xs _ _ _ =>
          (* the held data is labelled [a] when converted or bare, [k] otherwise *)
          let se := match k with Some k => if cs then a else k | None => a end in
          (s1, slack (uu se) (uu b) xs + s1 * factor (uu se) / factor (uu b))
      | _ => (s1, 0)
      end
  | Fill f a b x =>
      let s1 := slack (uu f) (uu a) x in
      match m with
      | RLink _ _ xs _ _ _ => (s1, slack (uu a) (uu b) xs + s1 * factor (uu a) / factor (uu b))
      | _ => (s1, 0)
      end
  | Chain s m0 d x =>
      let s1 := 2 * slack (uu s) (uu m0) x in
      match m with
      | RLink _ _ xs _ _ _ => (s1, slack (uu m0) (uu d) xs + s1 * factor (uu m0) / factor (uu d))
      | _ => (s1, 0)
      end
  | Relay s m0 o d bare g x =>
      let s1 := Qabs g * slack (uu s) (uu m0) x in
      let t1 := if bare then s1
                else slack (uu m0) (uu o) (g * convert (uu s) (uu m0) x)
                     + s1 * factor (uu m0) / factor (uu o) in
      match m with
      | RLink _ _ xs _ _ _ => (t1, slack (uu o) (uu d) xs + t1 * factor (uu o) / factor (uu d))
      | _ => (t1, 0)
      end
  | ALink k a d b x =>
      let s1 := match k with Some k => slack (uu k) (uu a) x | None => 0 end in
      match m with
      | RLink _ _ xs _ _ _ => (s1, slack (uu d) (uu b) xs + s1 * factor (uu d) / factor (uu b))
      | _ => (s1, 0)
      end
  | _ => (0, 0)
  end.

(** model answer vs. observed answer: booleans, labels, error classes, conversion reports
    exactly; numbers exactly when the model relabels, within [eps * slack] when it converts.
    (The link observation carries no conversion flags.) *)
Definition res_agree (o : op) (m ob : res) : bool :=
  match m, ob with
  | RUnit, RUnit => true
  | RBool b1, RBool b2 => Bool.eqb b1 b2
  | RErr e1, RErr e2 => err_eqb e1 e2
  | RVal u1 c1 x1, RVal u2 c2 x2 =>
      Nat.eqb u1 u2 && Bool.eqb c1 c2 && num_agree c1 x1 x2 (fst (slacks o m))
  | RLink us1 cs1 xs1 u1 cv1 x1, RLink us2 _ xs2 u2 _ x2 =>
      Nat.eqb us1 us2 && Nat.eqb u1 u2
      && num_agree cs1 xs1 xs2 (fst (slacks o m)) && num_agree cv1 x1 x2 (snd (slacks o m))
  | _, _ => false
  end.

Fixpoint all_agree (ops : list op) (ms obs : list res) : bool :=
  match ops, ms, obs with
  | [], [], [] => true
  | o :: ot, m :: mt, b :: bt => res_agree o m b && all_agree ot mt bt
  | _, _, _ => false
  end.

Definition c17_check (p : c17_case * c17_obs) : bool :=
  all_agree (fst p) (c17_model (fst p)) (snd p).
