(** Executable model of finam's scheduler (src/finam/schedule.py:
    Composition.run 248-267 (the do-while loop), _update_recursive 269-318,
    _find_dependencies 674-700) together with the time-shifting behaviour of the adapters on
    a link (src/finam/adapters/time.py: DelayFixed.with_delay 72-76, DelayToPush.with_delay
    123-128, DelayToPull.with_delay/_pulled 190-203; src/finam/sdk/adapter.py
    TimeDelayAdapter.get_data 396-410).

    Times are integer microseconds.  Components are identified by their position in the
    list passed to [Composition]; an output is (component, output index).

    Harness assumptions written into the model (they are what the correspondence drives):
    a time component advances by [steps[k mod len]] at its k-th update, pulls every input
    at its new time and then publishes every output at its new time; a pull-based
    component pulls every one of its inputs at the requested time.  Outputs and buffering
    adapters are modelled with unlimited history (C09 / C11 prove that eviction is
    invisible for non-decreasing requests), so a pull is served iff its time lies between
    the first publication (composition start [t0]) and the newest one.

    No proofs here. *)
From Coq Require Import List ZArith Bool Arith.
From FV Require Import Base.
Import ListNotations.
Open Scope Z_scope.

(** * Static description *)

Inductive adapter : Type :=
| APass                              (* any adapter that forwards time unchanged (Scale, ...) *)
| AFixed (d : Z)                     (* DelayFixed *)
| AToPull (n : nat) (extra : Z)      (* DelayToPull *)
| AToPush                            (* DelayToPush: ITimeDelayAdapter and NoDependencyAdapter *)
| ABuf.                              (* push-based time caching adapter (needs_push) *)

Record input : Type := mkIn { i_src : nat * nat; i_chain : list adapter }.   (* chain in pull order *)

Inductive ckind : Type :=
| KTime (start : Z) (steps : list Z) (initpull : bool)
| KPull.

Record comp : Type := mkC { c_kind : ckind; c_nout : nat; c_inputs : list input }.

Definition composition := list comp.

Definition dummy_comp : comp := mkC KPull 0 [].
Definition getc (cs : composition) (c : nat) : comp := nth c cs dummy_comp.

Definition is_time (cs : composition) (c : nat) : bool :=
  match c_kind (getc cs c) with KTime _ _ _ => true | KPull => false end.

Definition start_of (k : ckind) : option Z :=
  match k with KTime s _ _ => Some s | KPull => None end.

(** composition start time: [_get_start_time] = minimum of the time components' times *)
Fixpoint min_start (cs : composition) : option Z :=
  match cs with
  | [] => None
  | c :: r =>
      match start_of (c_kind c), min_start r with
      | Some s, Some m => Some (Z.min s m)
      | Some s, None => Some s
      | None, m => m
      end
  end.
Definition t0_of (cs : composition) : Z := match min_start cs with Some m => m | None => 0 end.

(** [initial_time] of the delay adapters on a link = time of the info delivered by the source
    output: the producer's start time; pull-based harness components declare [t0]. *)
Definition init_of (cs : composition) (src : nat * nat) : Z :=
  match c_kind (getc cs (fst src)) with KTime s _ _ => s | KPull => t0_of cs end.

Definition step_of (steps : list Z) (k : nat) : Z :=
  match steps with [] => 1 | _ => nth (k mod length steps)%nat steps 1 end.

(** * Adapters: time shifting *)

Definition clamp (init x : Z) : Z := if x <? init then init else x.

(** [with_delay]; [pulls] is DelayToPull's [_pulls] ([[]] stands for the not yet initialised list,
    which [with_delay] fills with [initial_time]); [ptime] is DelayToPush's [push_time]. *)
Definition with_delay (a : adapter) (pulls : list Z) (init : Z) (ptime : option Z) (t : Z) : Z :=
  match a with
  | AFixed d => clamp init (t - d)
  | AToPull _ extra => clamp init (hd init pulls - extra)
  | AToPush => match ptime with None => init | Some p => if p <? t then p else t end
  | _ => t
  end.

Definition trim (n : nat) (l : list Z) : list Z := skipn (length l - n)%nat l.

(** [_pulled(time)] (after [with_delay] initialised the list) *)
Definition pulled (a : adapter) (pulls : list Z) (init : Z) (t : Z) : list Z :=
  match a with
  | AToPull n _ => trim n ((match pulls with [] => [init] | _ => pulls end) ++ [t])
  | _ => pulls
  end.

(** The pull of a final input through its adapter chain ([Input.pull_data] ->
    [Adapter.get_data] -> ... ): returns the time that reaches the end of the pulled part,
    whether the pull ended at a buffering adapter, and the new adapter states. *)
Fixpoint pull_chain (ch : list adapter) (ss : list (list Z)) (init : Z) (ptime : option Z) (t : Z)
  : Z * bool * list (list Z) :=
  match ch, ss with
  | a :: ch', s :: ss' =>
      match a with
      | ABuf => (t, true, s :: ss')
      | APass => let '(r, b, ss2) := pull_chain ch' ss' init ptime t in (r, b, s :: ss2)
      | _ => let t' := with_delay a s init ptime t in
             let '(r, b, ss2) := pull_chain ch' ss' init ptime t' in
             (r, b, pulled a s init t :: ss2)
      end
  | _, _ => (t, false, ss)
  end.

(** The walk of [_find_dependencies] along one link: [None] = the walk stopped at a
    NoDependencyAdapter (no dependency); [Some t] = the time the source must have reached. *)
Fixpoint sched_walk (ch : list adapter) (ss : list (list Z)) (init : Z) (ptime : option Z)
  (buffered : bool) (t : Z) : option Z :=
  match ch, ss with
  | a :: ch', s :: ss' =>
      if buffered then sched_walk ch' ss' init ptime true t
      else match a with
           | AToPush => None
           | AFixed _ | AToPull _ _ => sched_walk ch' ss' init ptime false (with_delay a s init ptime t)
           | ABuf => sched_walk ch' ss' init ptime true t
           | APass => sched_walk ch' ss' init ptime false t
           end
  | _, _ => Some t
  end.

(** * Dynamic state *)

Record state : Type := mkS {
  s_time : nat -> Z;                      (* component time = newest publication of its outputs *)
  s_cnt : nat -> nat;                     (* number of updates done *)
  s_link : nat -> nat -> list (list Z)    (* component, input index -> adapter states of the link *)
}.

Definition upd {A : Type} (f : nat -> A) (k : nat) (v : A) : nat -> A :=
  fun x => if Nat.eqb x k then v else f x.
Definition upd2 {A : Type} (f : nat -> nat -> A) (k i : nat) (v : A) : nat -> nat -> A :=
  fun x y => if Nat.eqb x k && Nat.eqb y i then v else f x y.

Definition next_time (cs : composition) (st : state) (c : nat) : Z :=
  match c_kind (getc cs c) with
  | KTime _ steps _ => s_time st c + step_of steps (s_cnt st c)
  | KPull => 0
  end.

(** outputs [0 .. c_nout-1] of a component are ordinary outputs; an output index >= [c_nout] denotes one of its
    STATIC outputs (published once at connect, served for every request time, never a dependency) *)
Definition is_static_src (cs : composition) (src : nat * nat) : bool :=
  Nat.leb (c_nout (getc cs (fst src))) (snd src).

Definition ptime_of (cs : composition) (st : state) (src : nat * nat) : option Z :=
  if is_time cs (fst src) then Some (s_time st (fst src)) else None.

Inductive ev : Type :=
| EU (c : nat) (t : Z)             (* component c updated, new time t *)
| EP (c i : nat) (t : Z)           (* input i of c pulled for t *)
| ES (c o : nat) (t : Z)           (* output o of c asked for t by a final input *)
| EB (c i : nat) (t : Z).          (* the pull of input i of c ended at a buffering adapter, asked for t *)

Inductive err : Type := ETime | ENoData | EFuel.

(** the callback of a pull-based component: pull every input for [r] ([rec k x s a] pulls input [k]) *)
Fixpoint pull_list (rec : nat -> input -> state -> list ev -> state * list ev * option err)
  (k : nat) (ins : list input) (s : state) (a : list ev) : state * list ev * option err :=
  match ins with
  | [] => (s, a, None)
  | x :: rest =>
      match rec k x s a with
      | (s2, a2, None) => pull_list rec (S k) rest s2 a2
      | e => e
      end
  end.

(** pull of input [i] of component [c] for time [t]; events are accumulated in reverse order *)
Fixpoint pull_input (fuel : nat) (cs : composition) (st : state) (c i : nat) (inp : input) (t : Z)
  (acc : list ev) : state * list ev * option err :=
  match fuel with
  | O => (st, acc, Some EFuel)
  | S fuel' =>
      let src := i_src inp in
      let '(r, buffered, ss') :=
        pull_chain (i_chain inp) (s_link st c i) (init_of cs src) (ptime_of cs st src) t in
      let st1 := mkS (s_time st) (s_cnt st) (upd2 (s_link st) c i ss') in
      let acc1 := EP c i t :: acc in
      let inrange := (t0_of cs <=? r) && (r <=? s_time st (fst src)) in
      if is_static_src cs src then
        (* a static output serves its single publication for every request time *)
        (st1, ES (fst src) (snd src) r :: acc1, None)
      else if buffered then
        (st1, EB c i r :: acc1, if inrange then None else Some ETime)
      else if is_time cs (fst src) then
        (st1, ES (fst src) (snd src) r :: acc1, if inrange then None else Some ETime)
      else
        (* pull-based source: its callback pulls every one of its inputs for [r] *)
        pull_list (fun k x s a => pull_input fuel' cs s (fst src) k x r a)
          O (c_inputs (getc cs (fst src))) st1 (ES (fst src) (snd src) r :: acc1)
  end.

Definition pull_all (fuel : nat) (cs : composition) (st : state) (c : nat) (ins : list input) (t : Z)
  (acc : list ev) : state * list ev * option err :=
  pull_list (fun k x s a => pull_input fuel cs s c k x t a) O ins st acc.

(** [comp.update()] of a harness time component *)
Definition do_update (cs : composition) (st : state) (c : nat) (acc : list ev) : state * list ev * option err :=
  let nt := next_time cs st c in
  let '(st1, acc1, e) := pull_all (S (length cs)) cs st c (c_inputs (getc cs c)) nt (EU c nt :: acc) in
  (mkS (upd (s_time st1) c nt) (upd (s_cnt st1) c (S (s_cnt st1 c))) (s_link st1), acc1, e).

(** * _find_dependencies *)

Definition out_eqb (a b : nat * nat) : bool := Nat.eqb (fst a) (fst b) && Nat.eqb (snd a) (snd b).

Fixpoint ins_dep (o : nat * nat) (lt : Z) (l : list ((nat * nat) * Z)) : list ((nat * nat) * Z) :=
  match l with
  | [] => [(o, lt)]
  | (o', lt') :: r => if out_eqb o o' then (o', Z.max lt lt') :: r else (o', lt') :: ins_dep o lt r
  end.

(** the requirement of one link as [_find_dependencies] sees it: none for a static source or a link cut by a
    NoDependencyAdapter, otherwise the time the source must have reached *)
Definition link_dep (cs : composition) (st : state) (c k : nat) (inp : input) (t : Z) : option Z :=
  if is_static_src cs (i_src inp) then None
  else sched_walk (i_chain inp) (s_link st c k) (init_of cs (i_src inp)) (ptime_of cs st (i_src inp)) false t.

Fixpoint find_deps_from (cs : composition) (st : state) (c : nat) (k : nat) (ins : list input) (target : Z)
  (deps : list ((nat * nat) * Z)) : list ((nat * nat) * Z) :=
  match ins with
  | [] => deps
  | x :: rest =>
      let src := i_src x in
      let deps' :=
        match link_dep cs st c k x target with
        | None => deps
        | Some lt =>
            if is_time cs (fst src) then
              if s_time st (fst src) <? lt then ins_dep src lt deps else deps
            else ins_dep src lt deps
        end in
      find_deps_from cs st c (S k) rest target deps'
  end.

Definition find_deps (cs : composition) (st : state) (c : nat) (target : Z) : list ((nat * nat) * Z) :=
  find_deps_from cs st c O (c_inputs (getc cs c)) target [].

(** * _update_recursive *)

Inductive ures : Type :=
| UUpdated (c : nat) (st : state) (acc : list ev) (e : option err)
| UNone
| UCirc
| UFuel.

(** the loop over [deps.items()]; [rec c' t'] is the recursive call for the owner [c'] of a dependency,
    [fin] the tail of the function (update the component itself / return None) *)
Fixpoint dep_loop (cs : composition) (rec : nat -> Z -> ures) (fin : unit -> ures)
  (deps : list ((nat * nat) * Z)) : ures :=
  match deps with
  | [] => fin tt
  | (o, lt) :: rest =>
      if is_time cs (fst o) then
        (* every time-component entry of deps lags by construction *)
        rec (fst o) 0
      else
        match rec (fst o) lt with
        | UNone => dep_loop cs rec fin rest
        | r => r
        end
  end.

(** the key under which a component is entered into [chain]: a time component by itself, a component
    without time step together with the time it is asked for *)
Definition chain_key (cs : composition) (c : nat) (target : Z) : nat * Z :=
  (c, if is_time cs c then 0 else target).

Definition key_eqb (a b : nat * Z) : bool := Nat.eqb (fst a) (fst b) && (snd a =? snd b).

Fixpoint update_rec (fuel : nat) (cs : composition) (st : state) (acc : list ev)
  (c : nat) (chain : list (nat * Z)) (target : Z) : ures :=
  match fuel with
  | O => UFuel
  | S fuel' =>
      if existsb (key_eqb (chain_key cs c target)) chain then UCirc
      else
        let target' := if is_time cs c then next_time cs st c else target in
        dep_loop cs
          (fun c' t' => update_rec fuel' cs st acc c' (chain_key cs c target :: chain) t')
          (fun _ => if is_time cs c then
                      let '(st', acc', e) := do_update cs st c acc in UUpdated c st' acc' e
                    else UNone)
          (find_deps cs st c target')
  end.

(** * Composition.run: the do-while loop *)

(** stable minimum by time among the time components ([list.sort] is stable) *)
Fixpoint pick_min (cs : composition) (st : state) (k : nat) (l : composition) (best : option nat) : option nat :=
  match l with
  | [] => best
  | x :: r =>
      let best' :=
        match c_kind x with
        | KPull => best
        | KTime _ _ _ =>
            match best with
            | None => Some k
            | Some b => if s_time st k <? s_time st b then Some k else Some b
            end
        end in
      pick_min cs st (S k) r best'
  end.

Fixpoint any_running (st : state) (k : nat) (l : composition) (endt : Z) : bool :=
  match l with
  | [] => false
  | x :: r =>
      (match c_kind x with KTime _ _ _ => s_time st k <? endt | KPull => false end)
      || any_running st (S k) r endt
  end.

(** recursion depth of [_update_recursive]: every time component at most once, components without time step
    possibly several times (for different times) in between *)
Definition rec_fuel (cs : composition) : nat := (S (length cs) * S (length cs))%nat.

Inductive outcome : Type := OOk | OCirc | OTime | ONoData | OFuel.

Fixpoint run_loop (fuel : nat) (cs : composition) (endt : Z) (st : state) (acc : list ev)
  : outcome * state * list ev :=
  match fuel with
  | O => (OFuel, st, acc)
  | S fuel' =>
      match pick_min cs st O cs None with
      | None => (OOk, st, acc)
      | Some c =>
          match update_rec (rec_fuel cs) cs st acc c [] 0 with
          | UUpdated _ st' acc' None =>
              if any_running st' O cs endt then run_loop fuel' cs endt st' acc' else (OOk, st', acc')
          | UUpdated _ st' acc' (Some ETime) => (OTime, st', acc')
          | UUpdated _ st' acc' (Some ENoData) => (ONoData, st', acc')
          | UUpdated _ st' acc' (Some EFuel) => (OFuel, st', acc')
          | UNone => (OFuel, st, acc)      (* cannot happen: the picked component has a time step *)
          | UCirc => (OCirc, st, acc)
          | UFuel => (OFuel, st, acc)
          end
      end
  end.

(** * State after connect *)

Definition empty_links (cs : composition) : nat -> nat -> list (list Z) :=
  fun c i => map (fun _ => []) (i_chain (nth i (c_inputs (getc cs c)) (mkIn (O, O) []))).

(** initial pulls (connector [pull_data]) of time components with [initpull]: every input once, for [t0] *)
Fixpoint init_pulls_from (cs : composition) (c : nat) (k : nat) (ins : list input)
  (lk : nat -> nat -> list (list Z)) : nat -> nat -> list (list Z) :=
  match ins with
  | [] => lk
  | x :: rest =>
      let '(_, _, ss') := pull_chain (i_chain x) (lk c k) (init_of cs (i_src x)) None (t0_of cs) in
      init_pulls_from cs c (S k) rest (upd2 lk c k ss')
  end.

Fixpoint init_links (cs : composition) (k : nat) (l : composition) (lk : nat -> nat -> list (list Z))
  : nat -> nat -> list (list Z) :=
  match l with
  | [] => lk
  | x :: r =>
      let lk' := match c_kind x with
                 | KTime _ _ true => init_pulls_from cs k O (c_inputs x) lk
                 | _ => lk
                 end in
      init_links cs (S k) r lk'
  end.

Definition init_state (cs : composition) : state :=
  mkS (fun c => match c_kind (getc cs c) with KTime s _ _ => s | KPull => 0 end)
      (fun _ => O)
      (init_links cs O cs (empty_links cs)).

Definition run (fuel : nat) (cs : composition) (endt : Z) : outcome * state * list ev :=
  run_loop fuel cs endt (init_state cs) [].

(** * Correspondence interface *)

Definition ev_eqb (a b : ev) : bool :=
  match a, b with
  | EU c t, EU c' t' => Nat.eqb c c' && (t =? t')
  | EP c i t, EP c' i' t' => Nat.eqb c c' && Nat.eqb i i' && (t =? t')
  | ES c o t, ES c' o' t' => Nat.eqb c c' && Nat.eqb o o' && (t =? t')
  | EB c i t, EB c' i' t' => Nat.eqb c c' && Nat.eqb i i' && (t =? t')
  | _, _ => false
  end.

Definition outcome_eqb (a b : outcome) : bool :=
  match a, b with
  | OOk, OOk | OCirc, OCirc | OTime, OTime | ONoData, ONoData | OFuel, OFuel => true
  | _, _ => false
  end.

Definition sched_case : Type := composition * Z * nat.             (* composition, end time, fuel *)
Definition sched_obs : Type := outcome * list ev * list Z.         (* outcome, events, final times *)

Definition final_times (cs : composition) (st : state) : list Z :=
  map (fun k => if is_time cs k then s_time st k else 0) (seq O (length cs)).

Definition sched_model (x : sched_case) : sched_obs :=
  let '(cs, endt, fuel) := x in
  let '(o, st, acc) := run fuel cs endt in
  (o, rev acc, final_times cs st).

Definition sched_check (x : sched_case * sched_obs) : bool :=
  let '(o, evs, tms) := sched_model (fst x) in
  let '(o', evs', tms') := snd x in
  outcome_eqb o o' && list_eqb ev_eqb evs evs' && list_eqb Z.eqb tms tms'.

(** several listing / linking orders of one composition (C05): every variant must agree with the model *)
Fixpoint sched_check_all (cs : list sched_case) (os : list sched_obs) : bool :=
  match cs, os with
  | [], [] => true
  | c :: cr, o :: or => sched_check (c, o) && sched_check_all cr or
  | _, _ => false
  end.
Definition c05_check (x : list sched_case * list sched_obs) : bool := sched_check_all (fst x) (snd x).
Definition c05_model (x : list sched_case) : list sched_obs := map sched_model x.

(** * The run loop with an arbitrary tie-breaking order (C05)

    The listing order of the components only decides which of several equally advanced components
    [list.sort] puts first.  [run_prio prio] runs the composition with the components considered in the
    order [prio] (a list of component indices) instead of the list order. *)
Fixpoint pick_prio (cs : composition) (st : state) (prio : list nat) (best : option nat) : option nat :=
  match prio with
  | [] => best
  | k :: r =>
      let best' :=
        if is_time cs k then
          match best with
          | None => Some k
          | Some b => if s_time st k <? s_time st b then Some k else Some b
          end
        else best in
      pick_prio cs st r best'
  end.

Fixpoint run_loop_pick (pick : state -> option nat) (fuel : nat) (cs : composition) (endt : Z) (st : state)
  (acc : list ev) : outcome * state * list ev :=
  match fuel with
  | O => (OFuel, st, acc)
  | S fuel' =>
      match pick st with
      | None => (OOk, st, acc)
      | Some c =>
          match update_rec (rec_fuel cs) cs st acc c [] 0 with
          | UUpdated _ st' acc' None =>
              if any_running st' O cs endt then run_loop_pick pick fuel' cs endt st' acc' else (OOk, st', acc')
          | UUpdated _ st' acc' (Some ETime) => (OTime, st', acc')
          | UUpdated _ st' acc' (Some ENoData) => (ONoData, st', acc')
          | UUpdated _ st' acc' (Some EFuel) => (OFuel, st', acc')
          | UNone => (OFuel, st, acc)
          | UCirc => (OCirc, st, acc)
          | UFuel => (OFuel, st, acc)
          end
      end
  end.

Definition run_prio (prio : list nat) (fuel : nat) (cs : composition) (endt : Z) : outcome * state * list ev :=
  run_loop_pick (fun st => pick_prio cs st prio None) fuel cs endt (init_state cs) [].

Definition final_counts (cs : composition) (st : state) : list nat :=
  map (fun k => if is_time cs k then s_cnt st k else O) (seq O (length cs)).

(** C05 correspondence: the variant (listed in the order [prio]) observed on the implementation has, mapped back
    to the base numbering, the final times of [run_prio prio] on the base composition. *)
Definition prio_check (base : sched_case) (prio : list nat) (variant_times : list Z) : bool :=
  let '(cs, endt, fuel) := base in
  let '(o, st, _) := run_prio prio fuel cs endt in
  match o with
  | OOk => list_eqb Z.eqb (map (fun k => if is_time cs k then s_time st k else 0) prio) variant_times
  | _ => true
  end.

(** C05 correspondence, second half: every variant also agrees with [run_prio] on the base composition *)
Fixpoint prio_check_all (base : sched_case) (vs : list (list nat)) (os : list sched_obs) : bool :=
  match vs, os with
  | [], [] => true
  | p :: vr, (_, _, tms) :: or => prio_check base p tms && prio_check_all base vr or
  | _, _ => false
  end.
Definition c05_check2 (x : (sched_case * list (list nat) * list sched_case) * list sched_obs) : bool :=
  let '(base, prios, variants) := fst x in
  sched_check_all variants (snd x) && prio_check_all base prios (snd x).

(** * The connect phase of harness compositions (C04: cycles in the initial exchange)

    A harness time component with [initpull] pulls every input once for [t0] during connect.  With the flag
    "publish after pull" it provides its initial data only after all those pulls succeeded.  [published] is the
    least fixed point of  "k publishes iff it need not wait, or all its sources have published"; a component
    is connected iff it has published and its pulls are served.  Sources are time components (the generator
    of this family uses no pull-based components). *)
Definition has_initpull (k : ckind) : bool := match k with KTime _ _ b => b | KPull => false end.

Definition srcs_of (c : comp) : list nat := map (fun i => fst (i_src i)) (c_inputs c).

Definition pub_step (cs : composition) (paps : list bool) (pub : list bool) : list bool :=
  map (fun k => let c := getc cs k in
                negb (nth k paps false && has_initpull (c_kind c))
                || forallb (fun j => nth j pub false) (srcs_of c))
      (seq O (length cs)).

Fixpoint pub_iter (n : nat) (cs : composition) (paps : list bool) (pub : list bool) : list bool :=
  match n with O => pub | S n' => pub_iter n' cs paps (pub_step cs paps pub) end.

Definition published (cs : composition) (paps : list bool) : list bool :=
  pub_iter (length cs) cs paps (map (fun _ => false) cs).

Definition connected_after (cs : composition) (paps : list bool) (k : nat) : bool :=
  let c := getc cs k in
  let pub := published cs paps in
  nth k pub false && (negb (has_initpull (c_kind c)) || forallb (fun j => nth j pub false) (srcs_of c)).

(** indices of the components that cannot complete the connect phase (in list order) *)
Definition connect_stuck (cs : composition) (paps : list bool) : list nat :=
  filter (fun k => negb (connected_after cs paps k)) (seq O (length cs)).

(** C04 correspondence: composition, publish-after-pull flags; observation: the stuck components reported by
    connect (empty = connected), and the run observation when connect succeeded *)
Definition c04_case : Type := sched_case * list bool.
Definition c04_obs : Type := list nat * sched_obs.
Definition c04_check (x : c04_case * c04_obs) : bool :=
  let '(sc, paps) := fst x in
  let '(cs, _, _) := sc in
  let '(stuck, so) := snd x in
  list_eqb Nat.eqb (connect_stuck cs paps) stuck
  && match stuck with [] => sched_check (sc, so) | _ => true end.

(** * Life cycle of a component (C03)

    The calls a component receives from [Composition.__init__], [connect], [run] and the finalisation:
    initialize, [nconn] connect calls (one per round of the connect loop until it is connected), validate,
    one update per update event of the run, finalize. *)
Inductive call : Type := KI | KC | KV | KU | KF.

Definition call_eqb (a b : call) : bool :=
  match a, b with KI, KI | KC, KC | KV, KV | KU, KU | KF, KF => true | _, _ => false end.

Definition lifecycle (nconn nupd : nat) : list call :=
  KI :: repeat KC nconn ++ KV :: repeat KU nupd ++ [KF].

Definition count_call (c : call) (l : list call) : nat := length (filter (call_eqb c) l).

(** C03 correspondence: the scheduler observation, the observed call sequence of every component, and how often
    each adapter was finalized *)
Definition c03_obs : Type := sched_obs * list (list call) * list nat.
Definition c03_check (x : sched_case * c03_obs) : bool :=
  let '(so, calls, fins) := snd x in
  let '(cs, endt, fuel) := fst x in
  sched_check (fst x, so) &&
  match run fuel cs endt with
  | (OOk, st, _) =>
      list_eqb (list_eqb call_eqb) calls
        (map (fun k => lifecycle (count_call KC (nth k calls [])) (if is_time cs k then s_cnt st k else O))
             (seq O (length cs)))
      && forallb (fun l => Nat.leb 1 (count_call KC l)) calls
      && forallb (Nat.eqb 1) fins
  | _ => true
  end.
