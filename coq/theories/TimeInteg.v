(** Executable model of the time-integration adapters of finam
    (src/finam/adapters/time_integration.py: TimeIntegrationAdapter 12-56,
     AvgOverTime._interpolate 111-163, SumOverTime._interpolate 240-290; eviction is
     TimeCachingAdapter._clear_cached_data, src/finam/adapters/time.py 269-275).

    Times are integer microseconds ([Z]); a payload is one exact rational ([Q]) in the units of
    the source.  Durations that the code converts with [total_seconds()] are rationals in seconds,
    so a per-time sum is in (source units x s); pint's choice of the reduced unit is outside the
    model (the correspondence converts the delivered quantity back to source units x s).

    No proofs in this file. *)
From Coq Require Import List ZArith QArith Qabs Bool.
From FV Require Import Base TimeInterp.
Import ListNotations.
Open Scope Z_scope.

(** adapter configuration: [AvgOverTime(step)] or [SumOverTime(step, per_time, initial_interval)];
    [c_step = None] is linear interpolation *)
Record cfg : Type := mk_cfg {
  c_avg : bool;
  c_step : option Q;
  c_per_time : bool;      (* SumOverTime only *)
  c_init : Z }.           (* SumOverTime only: initial_interval in microseconds *)

Inductive ires : Type :=
| IOk (v : Q)
| IErrTime        (* FinamTimeError *)
| IErrNoData      (* FinamNoDataError *)
| ICrash.         (* the code runs into a Python TypeError/AttributeError (sum_value is None) *)

(** Python's [max(a, b)] / [min(a, b)] on numbers *)
Definition qmax (a b : Q) : Q := if Qle_bool a b then b else a.
Definition qmin (a b : Q) : Q := if Qle_bool a b then a else b.

(** [timedelta.total_seconds()] *)
Definition secs (d : Z) : Q := Qmake d 1000000.

(** body of the loop for one contributing interval (127-146 / 264-278):
    [dt1 = max((prev - t_old)/range, 0)], [dt2 = min((time - t_old)/range, 1)], then the
    trapezoid (linear) or the two-piece rectangle (step) in relative coordinates *)
Definition seg_value (st : option Q) (p0 p1 : Z) (t_old : Z) (v_old : Q) (t_new : Z) (v_new : Q) : Q :=
  let R := inject_Z (t_new - t_old) in
  let dt1 := qmax (inject_Z (p0 - t_old) / R) 0 in
  let dt2 := qmin (inject_Z (p1 - t_old) / R) 1 in
  match st with
  | None =>
      let v1 := v_old + dt1 * (v_new - v_old) in
      let v2 := v_old + dt2 * (v_new - v_old) in
      (dt2 - dt1) * (1 # 2) * (v1 + v2)
  | Some s =>
      let dt1_c := qmin dt1 s in
      let dt2_c := qmax s dt2 in
      (qmin s dt2 - dt1_c) * v_old + (dt2_c - qmax s dt1) * v_new
  end%Q.

(** [for i in range(len(self.data) - 1)] (122-152 / 254-285); [acc] is [sum_value] ([None] at start);
    [scaled]: multiply each interval value by its length in seconds (always for the average,
    [per_time] for the sum) *)
Fixpoint integ_loop (st : option Q) (scaled : bool) (p0 p1 : Z) (t_old : Z) (v_old : Q)
         (rest : buf) (acc : option Q) : option Q :=
  match rest with
  | [] => acc
  | (t_new, v_new) :: r =>
      if t_new <=? p0 then integ_loop st scaled p0 p1 t_new v_new r acc   (* prev_time >= t_new: continue *)
      else if p1 <=? t_old then acc                                       (* time <= t_old: break *)
      else
        let value := (seg_value st p0 p1 t_old v_old t_new v_new
                      * (if scaled then secs (t_new - t_old) else 1))%Q in
        integ_loop st scaled p0 p1 t_new v_new r
                   (Some (match acc with None => value | Some a => (a + value)%Q end))
  end.

(** [_interpolate] of AvgOverTime (111-163) and SumOverTime (240-290) *)
Definition interpolate_i (c : cfg) (b : buf) (prev time : Z) : ires :=
  match b with
  | [] => IErrNoData
  | (t0, v0) :: r =>
      let initial := match r with [] => true | _ => time <=? t0 end in
      if c_avg c then
        if initial then IOk v0
        else
          let s := integ_loop (c_step c) true prev time t0 v0 r None in
          if 0 <? time - prev
          then match s with Some x => IOk (x / secs (time - prev)) | None => ICrash end
          else IErrTime                       (* zero-length duration, 155-161 *)
      else
        if initial then IOk (if c_per_time c then v0 * secs (c_init c) else v0)%Q
        else
          match integ_loop (c_step c) (c_per_time c) prev time t0 v0 r None with
          | Some x => IOk x
          | None => ICrash
          end
  end.

(** adapter state: buffer and [_prev_time] *)
Record istate : Type := mk_ist { i_buf : buf; i_prev : option Z }.

(** [_source_updated] 19-33 *)
Definition source_updated_i (s : istate) (t : Z) (v : Q) : istate :=
  mk_ist (i_buf s ++ [(t, v)]) (match i_prev s with None => Some t | p => p end).

(** [_get_data] 35-56; eviction with the PREVIOUS pull time; [ev = false]: no eviction
    (reference of the refinement theorem only) *)
Definition get_data_i (ev : bool) (c : cfg) (s : istate) (time : Z) : istate * ires :=
  match i_buf s with
  | [] => (s, IErrNoData)
  | (t0, _) :: r =>
      if (last_time t0 r <? time) || (time <? t0) then (s, IErrTime)
      else match i_prev s with
           | None => (s, ICrash)     (* unreachable: a non-empty buffer implies _prev_time is set *)
           | Some p =>
               match interpolate_i c (i_buf s) p time with
               | IOk v => (mk_ist (if ev then clear_cached p (i_buf s) else i_buf s) (Some time), IOk v)
               | e => (s, e)
               end
           end
  end.

Fixpoint run_i (ev : bool) (c : cfg) (s : istate) (ops : list op) : list ires :=
  match ops with
  | [] => []
  | Push t v :: r => run_i ev c (source_updated_i s t v) r
  | Pull t :: r => let '(s', x) := get_data_i ev c s t in x :: run_i ev c s' r
  end.

Definition init_i : istate := mk_ist [] None.

(* ------------------------------------------------------------------------ *)
(** * The exact integral of the interpolant of the FULL history, as closed-form segment areas *)

(** relative position of time [x] in the segment [t0, t1], clamped to [0, 1] *)
Definition dcl (t0 t1 x : Z) : Q :=
  qmin (qmax (inject_Z (x - t0) / inject_Z (t1 - t0)) 0) 1.

(** antiderivative (in the relative coordinate [d]) of the linear interpolant
    [v0 + d (v1 - v0)] ... *)
Definition A_lin (v0 v1 d : Q) : Q := (v0 * d + (v1 - v0) * d * d * (1 # 2))%Q.
(** ... and of the step interpolant ([v0] for [d <= s], [v1] for [d > s]) *)
Definition A_step (s v0 v1 d : Q) : Q := (v0 * qmin d s + v1 * (qmax s d - s))%Q.

Definition antider (st : option Q) (v0 v1 d : Q) : Q :=
  match st with None => A_lin v0 v1 d | Some s => A_step s v0 v1 d end.

(** area under the interpolant over [a, b] intersected with the segment, as a fraction of the
    segment length times value *)
Definition seg_area (st : option Q) (e0 e1 : Z * Q) (a b : Z) : Q :=
  (antider st (snd e0) (snd e1) (dcl (fst e0) (fst e1) b)
   - antider st (snd e0) (snd e1) (dcl (fst e0) (fst e1) a))%Q.

(** [scaled = true]: the integral over [a, b] in value x seconds;
    [scaled = false]: the sum of the relative weights (no time factor) *)
Fixpoint integral (st : option Q) (scaled : bool) (H : buf) (a b : Z) : Q :=
  match H with
  | e0 :: r =>
      match r with
      | e1 :: _ =>
          (seg_area st e0 e1 a b * (if scaled then secs (fst e1 - fst e0) else 1)
           + integral st scaled r a b)%Q
      | [] => 0%Q
      end
  | [] => 0%Q
  end.

(** what the consumer must observe for a pull at [t] when the previous pull was at [p0]
    (or [p0] = first publication time if there was none) *)
Definition spec_pull_i (c : cfg) (H : buf) (p0 : option Z) (t : Z) : ires :=
  match H, p0 with
  | [], _ => IErrNoData
  | _, None => ICrash
  | (tf, vf) :: _, Some p =>
      if in_range H t then
        if p <? t then
          if c_avg c then IOk (integral (c_step c) true H p t / secs (t - p))
          else IOk (integral (c_step c) (c_per_time c) H p t)
        else (* only used for the initial pull t = p = first publication time *)
          if c_avg c then IOk vf
          else IOk (if c_per_time c then vf * secs (c_init c) else vf)%Q
      else IErrTime
  end.

Fixpoint spec_run_i (c : cfg) (H : buf) (p0 : option Z) (ops : list op) : list ires :=
  match ops with
  | [] => []
  | Push t v :: r => spec_run_i c (H ++ [(t, v)]) (match p0 with None => Some t | p => p end) r
  | Pull t :: r => spec_pull_i c H p0 t :: spec_run_i c H (if in_range H t then Some t else p0) r
  end.

(* ------------------------------------------------------------------------ *)
(** * Correspondence interface (component-wise for gridded payloads, as in TimeInterp) *)

Definition c12_tol : Q := 1 # 1099511627776.     (* 2^-40, relative to the scale below *)

Definition ires_close (exact : bool) (sc : Q) (m : ires) (o : vres) (j : nat) : bool :=
  match m, o with
  | IOk a, VOk vs =>
      let b := nth j vs 0%Q in
      if exact then Qeq_bool a b else Qle_bool (Qabs (a - b)) (c12_tol * sc)%Q
  | IErrTime, VErrTime => true
  | IErrNoData, VErrNoData => true
  | _, _ => false
  end.

(* ------------------------------------------------------------------------ *)
(** Missing values (a NaN cell or a masked cell of a gridded payload).  Point-wise, numpy's arithmetic
    makes a result cell missing iff a missing operand takes part, whatever its weight
    ([0.0 * nan = nan], [0.0 * masked = masked]).  In the loop of [_interpolate] both end values of
    every interval that is neither skipped ([prev_time >= t_new]) nor behind the [break] take part.
    [miss_loop] mirrors [integ_loop] on the flags "cell is missing in this publication". *)
Definition mbuf := list (Z * bool).

Fixpoint miss_loop (p0 p1 : Z) (t_old : Z) (m_old : bool) (rest : mbuf) (acc : bool) : bool :=
  match rest with
  | [] => acc
  | (t_new, m_new) :: r =>
      if t_new <=? p0 then miss_loop p0 p1 t_new m_new r acc
      else if p1 <=? t_old then acc
      else miss_loop p0 p1 t_new m_new r (acc || m_old || m_new)
  end.

Definition missing_i (mb : mbuf) (prev time : Z) : bool :=
  match mb with
  | [] => false
  | (t0, m0) :: r =>
      let initial := match r with [] => true | _ => time <=? t0 end in
      if initial then m0 else miss_loop prev time t0 m0 r false
  end.

Fixpoint clear_cached_b (time : Z) (l : mbuf) : mbuf :=
  match l with
  | e0 :: r =>
      match r with
      | (t1, _) :: _ => if t1 <=? time then clear_cached_b time r else l
      | [] => l
      end
  | [] => l
  end.

(** per pull: is the delivered cell missing?  The flag buffer follows the value model's buffer
    (same pushes, eviction at the same successful pulls); [fl] = the ops with the cell's 0/1
    missing flag as payload ([TimeInterp.proj_mask]). *)
Fixpoint mrun (c : cfg) (s : istate) (mb : mbuf) (ops fl : list op) : list bool :=
  match ops, fl with
  | Push t v :: r, Push _ f :: fr =>
      mrun c (source_updated_i s t v) (mb ++ [(t, negb (Qeq_bool f 0))]) r fr
  | Pull t :: r, Pull _ :: fr =>
      let '(s', x) := get_data_i true c s t in
      match x, i_prev s with
      | IOk _, Some p => missing_i mb p t :: mrun c s' (clear_cached_b p mb) r fr
      | _, _ => false :: mrun c s' mb r fr
      end
  | _, _ => []
  end.

Definition ires_close_m (exact : bool) (sc : Q) (m : ires) (k : bool) (o : vres) (j : nat) : bool :=
  match m, o with
  | IOk _, VOk _ => negb k && ires_close exact sc m o j
  | IOk _, VOkM vs ms => Bool.eqb k (nth j ms false) && (k || ires_close exact sc m (VOk vs) j)
  | _, _ => ires_close exact sc m o j
  end.

(** [fs]: per-pull conditioning factors (see [conds]); [ks]: per-pull missing flags (see [mrun]) *)
Fixpoint all_close_im (exact : bool) (sc : Q) (ms : list ires) (ks : list bool) (os : list vres)
         (fs : list Q) (j : nat) : bool :=
  match ms, ks, os, fs with
  | [], [], [], [] => true
  | m :: mr, k :: kr, o :: or, f :: fr =>
      ires_close_m exact (sc * f)%Q m k o j && all_close_im exact sc mr kr or fr j
  | _, _, _, _ => false
  end.

Fixpoint all_close_i (exact : bool) (sc : Q) (ms : list ires) (os : list vres) (fs : list Q) (j : nat) : bool :=
  match ms, os, fs with
  | [], [], [] => true
  | m :: mr, o :: or, f :: fr => ires_close exact (sc * f)%Q m o j && all_close_i exact sc mr or fr j
  | _, _, _ => false
  end.

(** total time span of the script in seconds (for the tolerance scale of sums) *)
Fixpoint first_push (ops : list op) : option Z :=
  match ops with [] => None | Push t _ :: _ => Some t | _ :: r => first_push r end.
Fixpoint last_push (ops : list op) (acc : option Z) : option Z :=
  match ops with [] => acc | Push t _ :: r => last_push r (Some t) | _ :: r => last_push r acc end.
Definition span_secs (ops : list op) : Q :=
  match first_push ops, last_push ops None with
  | Some a, Some b => secs (b - a)
  | _, _ => 0%Q
  end.

Record c12_case : Type := mk_case12 {
  c12_cfg : cfg; c12_n : nat; c12_exact : bool; c12_ops : list vop }.
Definition c12_obs : Type := list vres.

Definition c12_model (c : c12_case) : list (list ires * list bool) :=
  map (fun j => (run_i true (c12_cfg c) init_i (map (proj_op j) (c12_ops c)),
                 mrun (c12_cfg c) init_i [] (map (proj_op j) (c12_ops c)) (map (proj_mask j) (c12_ops c))))
      (seq 0 (c12_n c)).

(** scale of a result: max |v| times the largest factor a result can carry (1 for averages and
    initial values, the number of intervals for absolute sums, the time span for per-time sums) *)
Definition c12_scale (c : cfg) (ops : list op) : Q :=
  (scale_of ops *
   (if c_avg c then 4
    else if c_per_time c then 1 + span_secs ops + Qabs (secs (c_init c))
    else 1 + inject_Z (Z.of_nat (length ops))))%Q.

(** Conditioning of one average: the code forms [dt2 - dt1] as a difference of two doubles relative to
    the SOURCE interval and divides by the pull step, so the rounding error of an average over
    [p0, p1] is amplified by (source interval)/(p1 - p0) (bounded here by span/(p1 - p0)).
    Sums are not divided and need no factor. *)
Fixpoint conds (c : cfg) (s : istate) (ops : list op) (span : Q) : list Q :=
  match ops with
  | [] => []
  | Push t v :: r => conds c (source_updated_i s t v) r span
  | Pull t :: r =>
      (match i_prev s with
       | Some p => if (p <? t) && c_avg c then (1 + span / secs (t - p))%Q else 1%Q
       | None => 1%Q
       end) :: conds c (fst (get_data_i true c s t)) r span
  end.

Definition c12_check (x : c12_case * c12_obs) : bool :=
  let c := fst x in
  let o := snd x in
  Nat.ltb 0 (c12_n c) && forallb (vop_ok (c12_n c)) (c12_ops c) && forallb (vres_ok (c12_n c)) o &&
  forallb (fun j =>
             let ops := map (proj_op j) (c12_ops c) in
             all_close_im (c12_exact c) (c12_scale (c12_cfg c) ops)
                          (run_i true (c12_cfg c) init_i ops)
                          (mrun (c12_cfg c) init_i [] ops (map (proj_mask j) (c12_ops c))) o
                          (conds (c12_cfg c) init_i ops (span_secs ops)) j)
          (seq 0 (c12_n c)).
