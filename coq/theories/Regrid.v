(** Executable model of finam's basic regridding adapters (C16).

    src/finam/adapters/regrid.py :
      ARegridding._get_info 48-93, _check_and_set_out_mask 100-118, _need_mask 120-121,
      _get_in_coords 123-128, _get_out_coords 130-143, _check_in_data 145-151,
      RegridNearest._update_grid_specs 198-208, _get_data 210-218,
      RegridLinear._update_grid_specs 286-341 (unstructured / masked path only), _get_data 343-370.
    src/finam/data/tools/mask.py : to_compressed 117-152, from_compressed 155-209,
      masks_compatible 247-289, is_sub_mask 342-368.
    src/finam/data/grid_base.py : Grid.data_points 161-166, order 173-176.

    A grid enters the regridding code only through [data_points] (the locations of the data
    elements, listed in the grid's flattening order), its [order] and [data_shape].  The model
    therefore works on the flattened view: a source is the list of its data points, the list of
    its values and the source mask, all three in the SOURCE grid's flattening order
    ([np.ravel(x, order=grid.order)]); a target is the list of its data points and a mask in the
    TARGET grid's flattening order.  [to_compressed] / [from_compressed] are then [Arr.compress] /
    [Arr.scatter] with the negated mask (mask.py 147-150, 208-209; FV.Mask models the same two
    functions on n-d arrays and Mask_proofs.compressed_spec / roundtrip relate them to the
    flattened view used here).

    scipy is an oracle: [nearest] (KDTree.query(...)[1]) and [lin] (LinearNDInterpolator) are
    parameters of the model functions; the theorems in FVP.Regrid_proofs state their hypotheses.
    [nearest_first] is a computable instance of [nearest] used by the correspondence check.
    The structured RegularGridInterpolator path of RegridLinear (regrid.py 287-295, 347-353) is
    not modelled (broken with the installed scipy, excluded by the property text); coordinate
    reference systems (pyproj transformer, regrid.py 95-98, 373-381) are not modelled (crs = None).

    No proofs in this file. *)
From Coq Require Import List ZArith QArith Qabs Bool Arith.
From FV Require Import Base Arr.
Import ListNotations.

(** * Points and distances *)

Definition point := list Q.

(** squared Euclidean distance (exact) *)
Fixpoint dist2 (p q : point) : Q :=
  match p, q with
  | x :: p', y :: q' => (x - y) * (x - y) + dist2 p' q'
  | _, _ => 0
  end.

(** two points denote the same location *)
Definition same_loc (p q : point) : Prop := dist2 p q == 0.

(** First index of minimal squared distance (with that distance): a computable instance of the
    KD-tree oracle. *)
Fixpoint argmin (p : point) (pts : list point) : nat * Q :=
  match pts with
  | [] => (0%nat, 0)
  | q :: r =>
      match r with
      | [] => (0%nat, dist2 p q)
      | _ => let kd := argmin p r in
             let dq := dist2 p q in
             if Qle_bool dq (snd kd) then (0%nat, dq) else (S (fst kd), snd kd)
      end
  end.
Definition nearest_first (p : point) (pts : list point) : nat := fst (argmin p pts).

(** * Mask specifications, as far as the regridding adapters distinguish them *)

Inductive mk :=
| KFlex                      (* Mask.FLEX *)
| KNone                      (* Mask.NONE *)
| KBits (b : list bool).     (* explicit boolean mask in the grid's flattening order, true = masked *)

Definition bits_of (m : mk) : option (list bool) :=
  match m with KBits b => Some b | _ => None end.

(** mask.py 247-289 with incoming_donwstream=True, as called from regrid.py 106-108
    ([up] = the adapter's output mask, [down] = the mask requested by the target; no grids are
    passed, so two explicit masks are compared as they are). *)
Definition compat (up down : mk) : bool :=
  match down, up with
  | KFlex, _ => true
  | KNone, KNone => true
  | KNone, _ => false
  | KBits d, KBits u => bool_list_eqb d u
  | KBits _, _ => false
  end.

(** regrid.py 59-61 + 100-118: the output mask is the adapter's [out_mask] if given (then it must be
    compatible with a mask requested downstream), else the downstream mask.
    [None] = FinamMetaDataError. *)
Definition resolve (am down : option mk) : option mk :=
  match am, down with
  | None, None => None                                   (* "Missing target mask specification" *)
  | None, Some d => Some d
  | Some u, None => Some u
  | Some u, Some d => if compat u d then Some u else None
  end.

(** * Compressed views *)

(** regrid.py 123-128 / 137-142 and mask.py 141-152: the entries at unmasked positions, or
    everything when there is no explicit mask ([_need_mask] false). *)
Definition sel {A : Type} (m : option (list bool)) (l : list A) : list A :=
  match m with
  | Some b => compress (map negb b) l
  | None => l
  end.

(** one element of the delivered array *)
Inductive cell (A : Type) :=
| CMasked                    (* masked *)
| CNaN                       (* not-a-number *)
| CVal (a : A).
Arguments CMasked {A}.
Arguments CNaN {A}.
Arguments CVal {A} _.

(** mask.py 196-209: [from_compressed] *)
Definition unsel {A : Type} (m : option (list bool)) (vals : list (cell A)) : list (cell A) :=
  match m with
  | Some b => scatter (map negb b) vals CMasked
  | None => vals
  end.

Inductive outcome (A : Type) :=
| ErrMeta                                        (* FinamMetaDataError during the info exchange *)
| ErrData                                        (* FinamDataError (exchange: domain not covered; pull: masked data without mask info) *)
| Done (om : mk) (cells : list (cell A)).         (* output mask of the adapter, delivered elements in target order *)
Arguments ErrMeta {A}.
Arguments ErrData {A}.
Arguments Done {A} _ _.

(** regrid.py 145-151: data given as a MaskedArray although the source info carries no explicit mask *)
Definition in_data_refused (smask : option (list bool)) (src_is_ma : bool) : bool :=
  src_is_ma && match smask with None => true | Some _ => false end.

(** * RegridNearest *)

Section Nearest.
  Context {A : Type}.
  Variable nearest : point -> list point -> nat.

  (** regrid.py 198-218.  [am]: the adapter's out_mask; [down]: mask of the target's info;
      [smask]: explicit source mask (None: Mask.FLEX / Mask.NONE); [d]: never-used default. *)
  Definition regrid_nearest (am down : option mk) (smask : option (list bool)) (src_is_ma : bool)
      (spts : list point) (svals : list A) (tpts : list point) (d : A) : outcome A :=
    match resolve am down with
    | None => ErrMeta
    | Some om =>
        if in_data_refused smask src_is_ma then ErrData
        else
          let ic := sel smask spts in                        (* _get_in_coords *)
          let cv := sel smask svals in                       (* to_compressed(in_data, order) *)
          let oc := sel (bits_of om) tpts in                 (* _get_out_coords *)
          let ids := map (fun p => nearest p ic) oc in       (* tree.query(out_coords)[1] *)
          Done om (unsel (bits_of om) (map (fun i => CVal (nth i cv d)) ids))
    end.
End Nearest.

(** * RegridLinear, unstructured / masked-source path *)

Definition isnone {X : Type} (o : option X) : bool := match o with None => true | Some _ => false end.

(** mask.py 342-368 for two masks of equal shape: every masked entry of [m] is masked in [sub] *)
Fixpoint is_sub_mask (m sub : list bool) : bool :=
  match m, sub with
  | [], [] => true
  | a :: m', b :: s' => (negb a || b) && is_sub_mask m' s'
  | _, _ => false
  end.

Section Linear.
  Variable nearest : point -> list point -> nat.
  (** LinearNDInterpolator(points, values)(p): [None] = NaN *)
  Variable lin : list point -> list Q -> point -> option Q.

  Definition lin_cell (ic : list point) (cv : list Q) (p : point) : cell Q :=
    match lin ic cv p with Some v => CVal v | None => CNaN end.

  (** regrid.py 286-341 (else-branch at 296-301) and 343-370 (else-branch at 354-364) *)
  Definition regrid_linear (fill : bool) (am down : option mk) (smask : option (list bool))
      (src_is_ma : bool) (spts : list point) (svals : list Q) (tpts : list point) : outcome Q :=
    let ic := sel smask spts in
    let cv := sel smask svals in
    let zeros := map (fun _ => 0) ic in                      (* values=np.zeros(len(in_coords)) *)
    let outside p := isnone (lin ic zeros p) in              (* np.isnan(self.inter(p)) *)
    if fill then
      (* 302-312 *)
      match resolve am down with
      | None => ErrMeta
      | Some om =>
          if in_data_refused smask src_is_ma then ErrData
          else
            let oc := sel (bits_of om) tpts in
            Done om (unsel (bits_of om)
                       (map (fun p => if outside p then CVal (nth (nearest p ic) cv 0)
                                      else lin_cell ic cv p) oc))
      end
    else
      (* 314-341: outliers are determined on the unmasked target *)
      let outl := map outside tpts in
      let om1 :=
        match am with
        | None | Some KFlex => Some (KBits outl)
        | Some KNone => if existsb (fun b => b) outl then None else Some KNone
        | Some (KBits b) => if is_sub_mask outl b then Some (KBits b) else None
        end in
      match am, down with
      | None, None => ErrMeta                  (* 59-61: "Missing target mask specification" comes first *)
      | _, _ =>
      match om1 with
      | None => ErrData
      | Some u =>
          match resolve (Some u) down with
          | None => ErrMeta
          | Some om =>
              if in_data_refused smask src_is_ma then ErrData
              else
                let oc := sel (bits_of om) tpts in
                Done om (unsel (bits_of om) (map (lin_cell ic cv) oc))
          end
      end
      end.
End Linear.

(** * Several publications through one adapter

    Everything the adapter remembers (ids / interpolator / outlier set / fill ids / output mask) is
    determined by the grids and masks during the info exchange (regrid.py 84-90, guarded by
    [_is_initialized]; 198-208; 286-341); [_get_data] (210-218, 343-370) only reads it.  A sequence
    of publications is therefore regridded element by element: no publication leaves a trace. *)
Definition regrid_nearest_seq {A : Type} (nearest : point -> list point -> nat)
    (am down : option mk) (smask : option (list bool)) (src_ma : bool)
    (spts : list point) (pubs : list (list A)) (tpts : list point) (d : A) : list (outcome A) :=
  map (fun svals => regrid_nearest nearest am down smask src_ma spts svals tpts d) pubs.

Definition regrid_linear_seq (nearest : point -> list point -> nat)
    (lin : list point -> list Q -> point -> option Q) (fill : bool)
    (am down : option mk) (smask : option (list bool)) (src_ma : bool)
    (spts : list point) (pubs : list (list Q)) (tpts : list point) : list (outcome Q) :=
  map (fun svals => regrid_linear nearest lin fill am down smask src_ma spts svals tpts) pubs.

(** * Correspondence interface *)

(** The implementation's linear interpolator is not computable inside Coq.  For the evaluation of a
    case the oracle is instantiated by what scipy answered on that case (recorded by the harness
    from an independent LinearNDInterpolator over the unmasked source locations):
    [defd]: for every target point whether the interpolator is defined there; the value is either
    the exact affine field [aff] (coefficients c0 :: gradient) or the recorded table value. *)
Fixpoint affine_at (grad : list Q) (p : point) : Q :=
  match grad, p with
  | a :: g', x :: p' => a * x + affine_at g' p'
  | _, _ => 0
  end.
Definition affine_fn (c0 : Q) (grad : list Q) (p : point) : Q := c0 + affine_at grad p.

Fixpoint point_eqb (p q : point) : bool :=
  match p, q with
  | [], [] => true
  | x :: p', y :: q' => Qeq_bool x y && point_eqb p' q'
  | _, _ => false
  end.

Fixpoint lookup {X : Type} (p : point) (tab : list (point * X)) : option X :=
  match tab with
  | [] => None
  | (q, x) :: r => if point_eqb p q then Some x else lookup p r
  end.

(** table: target point -> value of the interpolated data ([None] = NaN / outside) *)
Definition lin_table (tab : list (point * option Q)) : list point -> list Q -> point -> option Q :=
  fun _ _ p => match lookup p tab with Some (Some v) => Some v | _ => None end.

(** table for definedness, exact affine value inside *)
Definition lin_affine (tab : list (point * option Q)) (c0 : Q) (grad : list Q)
    : list point -> list Q -> point -> option Q :=
  fun _ _ p => match lookup p tab with Some (Some _) => Some (affine_fn c0 grad p) | _ => None end.

Inductive method :=
| MNearest
| MLinear (fill : bool) (tab : list (point * option Q)) (aff : option (Q * list Q)).

Record c16_case := mk_case {
  c_method : method;
  c_am : option mk;               (* out_mask of the adapter *)
  c_down : option mk;             (* mask in the target's info *)
  c_smask : option (list bool);   (* explicit source mask, source order *)
  c_src_ma : bool;                (* pushed data is a MaskedArray *)
  c_spts : list point;            (* source data points, source order *)
  c_svals : list Q;               (* pushed values, source order *)
  c_tpts : list point             (* target data points, target order *)
}.

(** observation of the implementation: error class, or the delivered elements in target order *)
Inductive c16_obs :=
| OErrMeta
| OErrData
| OOther (n : nat)               (* anything the model cannot produce *)
| OCells (cells : list (cell Q)).

Definition c16_run (c : c16_case) : outcome Q :=
  match c_method c with
  | MNearest =>
      regrid_nearest nearest_first (c_am c) (c_down c) (c_smask c) (c_src_ma c)
                     (c_spts c) (c_svals c) (c_tpts c) 0
  | MLinear fill tab aff =>
      let lin := match aff with
                 | Some (c0, g) => lin_affine tab c0 g
                 | None => lin_table tab
                 end in
      regrid_linear nearest_first lin fill (c_am c) (c_down c) (c_smask c) (c_src_ma c)
                    (c_spts c) (c_svals c) (c_tpts c)
  end.

Definition c16_model (c : c16_case) : c16_obs :=
  match c16_run c with
  | ErrMeta => OErrMeta
  | ErrData => OErrData
  | Done _ cells => OCells cells
  end.

(** ** tie- and rounding-tolerant comparison *)

Definition Qabs_le_tol (a b : Q) : bool :=
  (* |a - b| <= 2^-30 * max(1, |b|) *)
  let dlt := Qabs (a - b) in
  let scale := if Qle_bool 1 (Qabs b) then Qabs b else 1 in
  Qle_bool dlt (scale * (1 # 1073741824)).

(** [v] is the value of an unmasked source point at minimal distance from [p] *)
Definition is_nearest_value (ic : list point) (cv : list Q) (p : point) (v : Q) : bool :=
  let dmin := snd (argmin p ic) in
  existsb (fun qv : point * Q => Qeq_bool (dist2 p (fst qv)) dmin && Qeq_bool (snd qv) v)
          (combine ic cv).

(** per element: the model's element [m] (computed with [nearest_first]) against the observed one.
    A model value that comes from a nearest-neighbour lookup ([nn] = true) is compared up to ties. *)
Definition cell_ok (ic : list point) (cv : list Q) (exact : bool) (nn : bool) (p : point)
    (m o : cell Q) : bool :=
  match m, o with
  | CMasked, CMasked => true
  | CNaN, CNaN => true
  | CVal a, CVal b =>
      if nn then is_nearest_value ic cv p b
      else if exact then Qeq_bool a b else Qabs_le_tol b a
  | _, _ => false
  end.

Fixpoint cells_ok (ic : list point) (cv : list Q) (exact : bool) (nnf : point -> bool)
    (tpts : list point) (ms os : list (cell Q)) : bool :=
  match tpts, ms, os with
  | [], [], [] => true
  | p :: tp, m :: mr, o :: or_ => cell_ok ic cv exact (nnf p) p m o && cells_ok ic cv exact nnf tp mr or_
  | _, _, _ => false
  end.

Definition c16_check (x : c16_case * c16_obs) : bool :=
  let c := fst x in
  match c16_run c, snd x with
  | ErrMeta, OErrMeta => true
  | ErrData, OErrData => true
  | Done _ ms, OCells os =>
      let ic := sel (c_smask c) (c_spts c) in
      let cv := sel (c_smask c) (c_svals c) in
      match c_method c with
      | MNearest => cells_ok ic cv true (fun _ => true) (c_tpts c) ms os
      | MLinear fill tab _ =>
          (* with fill, exactly the points where the interpolator is undefined hold a nearest value *)
          cells_ok ic cv false
                   (fun p => fill && match lookup p tab with Some (Some _) => false | _ => true end)
                   (c_tpts c) ms os
      end
  | _, _ => false
  end.
