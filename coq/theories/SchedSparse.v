(** The scheduler model for compositions in which time components publish their outputs only at some of their
    updates (components/generators.py: a CallbackGenerator whose callback returns None skips the push; any component may
    do so).  The driver reads the time of the OUTPUT ([dep.time], [inp.time] in schedule.py), not the clock of its
    owner; with sparse publication the two differ.

    [pe] gives for every component the publication period: its ordinary outputs are pushed at the updates number
    [p], [2p], ... (and at connect).  The state is a clock state of FV.Sched plus [pub], the newest publication time
    of every component.  Everything that looks at a SOURCE (the range check of a pull, the lag test of
    [_find_dependencies], DelayToPush's push time) is the unchanged function of FV.Sched evaluated on the state whose
    time field is [pub] ([with_time]); everything that looks at a component's own clock (next time, least-advanced
    selection, end of the run) uses the clock state.  For [pe] = all 1 this is FV.Sched itself.

    Most theorems of the development are about FV.Sched (dense publication); for this generalisation
    FVP.SchedSparse_proofs shows that it IS FV.Sched when all periods are 1, and FVP.SparseC01_proofs proves C01 (no pull
    of any update fails for lack of data) for all periods. *)
From Coq Require Import List ZArith Bool Arith.
From FV Require Import Base Sched.
Import ListNotations.
Open Scope Z_scope.

Definition pe_of (pe : list nat) (c : nat) : nat := match nth c pe 1%nat with O => 1%nat | n => n end.

Definition publishes (pe : list nat) (c : nat) (newcnt : nat) : bool := Nat.eqb (newcnt mod (pe_of pe c)) 0.

Definition with_time (st : state) (f : nat -> Z) : state := mkS f (s_cnt st) (s_link st).

Definition do_update_sp (cs : composition) (pe : list nat) (st : state) (pub : nat -> Z) (c : nat) (acc : list ev)
  : state * (nat -> Z) * list ev * option err :=
  let nt := next_time cs st c in
  let '(st1, acc1, e) :=
    pull_all (S (length cs)) cs (with_time st pub) c (c_inputs (getc cs c)) nt (EU c nt :: acc) in
  let newcnt := S (s_cnt st c) in
  (mkS (upd (s_time st) c nt) (upd (s_cnt st) c newcnt) (s_link st1),
   (if publishes pe c newcnt then upd pub c nt else pub), acc1, e).

Inductive ures_sp : Type :=
| USUpdated (c : nat) (st : state) (pub : nat -> Z) (acc : list ev) (e : option err)
| USNone
| USCirc
| USFuel.

Fixpoint dep_loop_sp (cs : composition) (rec : nat -> Z -> ures_sp) (fin : unit -> ures_sp)
  (deps : list ((nat * nat) * Z)) : ures_sp :=
  match deps with
  | [] => fin tt
  | (o, lt) :: rest =>
      if is_time cs (fst o) then rec (fst o) 0
      else match rec (fst o) lt with
           | USNone => dep_loop_sp cs rec fin rest
           | r => r
           end
  end.

Fixpoint update_rec_sp (fuel : nat) (cs : composition) (pe : list nat) (st : state) (pub : nat -> Z) (acc : list ev)
  (c : nat) (chain : list (nat * Z)) (target : Z) : ures_sp :=
  match fuel with
  | O => USFuel
  | S fuel' =>
      if existsb (key_eqb (chain_key cs c target)) chain then USCirc
      else
        let target' := if is_time cs c then next_time cs st c else target in
        dep_loop_sp cs
          (fun c' t' => update_rec_sp fuel' cs pe st pub acc c' (chain_key cs c target :: chain) t')
          (fun _ => if is_time cs c then
                      let '(st', pub', acc', e) := do_update_sp cs pe st pub c acc in USUpdated c st' pub' acc' e
                    else USNone)
          (find_deps cs (with_time st pub) c target')
  end.

Fixpoint run_loop_sp (fuel : nat) (cs : composition) (pe : list nat) (endt : Z) (st : state) (pub : nat -> Z)
  (acc : list ev) : outcome * state * list ev :=
  match fuel with
  | O => (OFuel, st, acc)
  | S fuel' =>
      match pick_min cs st O cs None with
      | None => (OOk, st, acc)
      | Some c =>
          match update_rec_sp (rec_fuel cs) cs pe st pub acc c [] 0 with
          | USUpdated _ st' pub' acc' None =>
              if any_running st' O cs endt then run_loop_sp fuel' cs pe endt st' pub' acc' else (OOk, st', acc')
          | USUpdated _ st' _ acc' (Some ETime) => (OTime, st', acc')
          | USUpdated _ st' _ acc' (Some ENoData) => (ONoData, st', acc')
          | USUpdated _ st' _ acc' (Some EFuel) => (OFuel, st', acc')
          | USNone => (OFuel, st, acc)
          | USCirc => (OCirc, st, acc)
          | USFuel => (OFuel, st, acc)
          end
      end
  end.

Definition run_sp (fuel : nat) (cs : composition) (pe : list nat) (endt : Z) : outcome * state * list ev :=
  run_loop_sp fuel cs pe endt (init_state cs) (s_time (init_state cs)) [].

(** * Correspondence interface *)
Definition sp_case : Type := composition * list nat * Z * nat.        (* composition, periods, end time, fuel *)

Definition sp_model (x : sp_case) : sched_obs :=
  let '(cs, pe, endt, fuel) := x in
  let '(o, st, acc) := run_sp fuel cs pe endt in
  (o, rev acc, final_times cs st).

Definition sp_check (x : sp_case * sched_obs) : bool :=
  let '(o, evs, tms) := sp_model (fst x) in
  let '(o', evs', tms') := snd x in
  outcome_eqb o o' && list_eqb ev_eqb evs evs' && list_eqb Z.eqb tms tms'.

(** C01 cases: dense compositions are checked against FV.Sched (the model the theorems are about) AND against this
    generalisation with all periods 1 (they must coincide); sparse ones against the generalisation *)
(** Compositions with PUSH-based components that have outputs (notified through CallbackInputs, re-publishing on a
    buffered Output with the time of the notification): the driver treats every component without a time step alike - it
    is always a dependency, and [_update_recursive] walks through it to its sources with the required time.  Which
    component is updated when, the outcome and the final times are therefore those of the composition in which the
    push-based component is replaced by a pull-based one ([CPush] carries that composition); only the pull events differ
    (a push-based component is read from its own buffered output and samples its sources when they publish).  The
    observation of such a case is the update sequence (the EU events), the outcome and the final times. *)
Definition is_upd (e : ev) : bool := match e with EU _ _ => true | _ => false end.

Definition push_check (x : sched_case * sched_obs) : bool :=
  let '(o, evs, tms) := sched_model (fst x) in
  let '(o', evs', tms') := snd x in
  outcome_eqb o o' && list_eqb ev_eqb (filter is_upd evs) evs' && list_eqb Z.eqb tms tms'.

Inductive c01_case : Type := CDense (c : sched_case) | CSparse (c : sp_case) | CPush (c : sched_case).

Definition dense_as_sparse (c : sched_case) : sp_case :=
  let '(cs, endt, fuel) := c in (cs, map (fun _ => 1%nat) cs, endt, fuel).

Definition c01_check (x : c01_case * sched_obs) : bool :=
  match fst x with
  | CDense c => sched_check (c, snd x) && sp_check (dense_as_sparse c, snd x)
  | CSparse c => sp_check (c, snd x)
  | CPush c => push_check (c, snd x)
  end.

Definition c01_model (c : c01_case) : sched_obs :=
  match c with
  | CDense c => sched_model c
  | CSparse c => sp_model c
  | CPush c => let '(o, evs, tms) := sched_model c in (o, filter is_upd evs, tms)
  end.
