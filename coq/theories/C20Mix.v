(** C20 speaks about two levels: the slots themselves (FV.Static: static outputs / inputs, callback outputs, the
    weighted-sum merger) and the driver serving pull-based components on demand inside a running composition
    (FV.Sched: the scheduler explores a pull-based component for the time it will actually be asked for).  The
    correspondence check of C20 therefore has two kinds of cases. *)
From Coq Require Import List ZArith.
From FV Require Import Base Sched Static.

Inductive c20_case2 : Type := C20Stat (c : c20_case) | C20Sched (c : sched_case).
Inductive c20_obs2 : Type := O20Stat (o : c20_obs) | O20Sched (o : sched_obs).

Definition c20_check2 (x : c20_case2 * c20_obs2) : bool :=
  match x with
  | (C20Stat c, O20Stat o) => c20_check (c, o)
  | (C20Sched c, O20Sched o) => sched_check (c, o)
  | _ => false
  end.

Definition c20_model2 (c : c20_case2) : c20_obs2 :=
  match c with
  | C20Stat c => O20Stat (c20_model c)
  | C20Sched c => O20Sched (sched_model c)
  end.
