(** Executable model of the composition validation of finam
    (src/finam/schedule.py: Composition.connect 159-213, _collect_adapters 321-326,
     _validate_composition 328-341, metadata 434-528, _collect_adapters_input/_output 531-546,
     _check_missing_components 562-580, _collect_inputs_outputs 583-604, _check_branching 607-624,
     _check_input_connected 627-638, _check_dead_links 641-652; line numbers of the tree at a09b94c).

    The object graph built with [>>] (every input / adapter has at most one source, no cycles) is a
    forest: a root is an output (or nothing, for an adapter chain that was never attached to an
    output), inner nodes are adapters with their targets in creation order, leaves are inputs.
    Slots are identified by (owner, position in the owner's inputs/outputs dict); the owner is
    [Some c] for the c-th component of the composition and [None] for a component that was linked
    but not added to the composition.  The flags are the ones the code reads:
    [needs_push]/[needs_pull] (sdk/input.py 48-56, 252-260; sdk/output.py 80-88, 483-491;
    sdk/adapter.py 67-75; adapters/time.py 230-232), [is_static], [isinstance(_, NoBranchAdapter)].

    No proofs in this file. *)
From Coq Require Import List Arith Bool.
From FV Require Import Base.
Import ListNotations.

Record islot := mkI { i_own : option nat; i_pos : nat; i_static : bool; i_push : bool; i_pull : bool }.
Record oslot := mkO { o_own : option nat; o_pos : nat; o_static : bool; o_push : bool; o_pull : bool }.
Record ada := mkA { a_id : nat; a_push : bool; a_pull : bool; a_nb : bool }.

Inductive tree : Type :=
| Leaf (i : islot)
| Node (a : ada) (ts : list tree).

(** an adapter together with its [targets] list *)
Definition anode : Type := ada * list tree.
(** an output (or no source at all) together with its [targets] list *)
Definition rtree : Type := option oslot * list tree.

(** [t_sizes]: per component of the composition (number of inputs, number of outputs) *)
Record topo := mkT { t_sizes : list (nat * nat); t_forest : list rtree }.

Definition n_comps (t : topo) : nat := length (t_sizes t).
Definition n_in (t : topo) (c : nat) : nat := fst (nth c (t_sizes t) (0, 0)).
Definition n_out (t : topo) (c : nat) : nat := snd (nth c (t_sizes t) (0, 0)).

(* ------------------------------------------------------------------------- *)
(** ** Walking the forest *)

(** A path: the root, the adapters from the root downwards, the input. *)
Definition path : Type := option oslot * list anode * islot.
Definition p_root (pa : path) : option oslot := fst (fst pa).
Definition p_adas (pa : path) : list anode := snd (fst pa).
Definition p_leaf (pa : path) : islot := snd pa.

Fixpoint tpaths (t : tree) : list (list anode * islot) :=
  match t with
  | Leaf i => [([], i)]
  | Node a ts => map (fun q => ((a, ts) :: fst q, snd q)) (flat_map tpaths ts)
  end.

Definition rpaths (rt : rtree) : list path :=
  map (fun q => (fst rt, fst q, snd q)) (flat_map tpaths (snd rt)).

Definition all_paths (f : list rtree) : list path := flat_map rpaths f.

(** adapters of a tree, each with its targets (depth first, as [_collect_adapters_output]) *)
Fixpoint tnodes (t : tree) : list anode :=
  match t with
  | Leaf _ => []
  | Node a ts => (a, ts) :: flat_map tnodes ts
  end.

Fixpoint tleaves (t : tree) : list islot :=
  match t with
  | Leaf i => [i]
  | Node _ ts => flat_map tleaves ts
  end.

Fixpoint tsize (t : tree) : nat :=
  match t with
  | Leaf _ => 1
  | Node _ ts => S (list_sum (map tsize ts))
  end.

Definition key_is (own : option nat) (pos c p : nat) : bool :=
  match own with
  | Some c' => Nat.eqb c' c && Nat.eqb pos p
  | None => false
  end.

(** The upward walk [while isinstance(inp, IInput): inp = inp.source] from input [p] of
    component [c]: the path that ends in that input.  [None]: the input occurs in no link
    ([inp.source is None]). *)
Definition find_input (f : list rtree) (c p : nat) : option path :=
  find (fun pa => key_is (i_own (p_leaf pa)) (i_pos (p_leaf pa)) c p) (all_paths f).

(** [out.targets] of output [p] of component [c]; [None]: the output occurs in no link. *)
Definition find_output (f : list rtree) (c p : nat) : option rtree :=
  find (fun rt => match fst rt with
                  | Some o => key_is (o_own o) (o_pos o) c p
                  | None => false
                  end) f.

(* ------------------------------------------------------------------------- *)
(** ** The four checks *)

Inductive errkind : Type :=
| KUnconnected   (* "Unconnected input" *)
| KStatic        (* "Can't connect a static input to a non-static output." *)
| KDead          (* "Dead link detected" *)
| KBranch        (* "Disallowed branching" *)
| KMissIn        (* "A component was coupled, but not added ... Affected inputs" *)
| KMissOut.      (* "... Affected outputs" *)

(** [_check_input_connected] (627-638): the walk up raises when it meets [source is None]
    (the input itself or a source-less adapter); at the output it compares the static flags. *)
Definition check_input_connected (f : list rtree) (c p : nat) : option errkind :=
  match find_input f c p with
  | None => Some KUnconnected
  | Some (None, _, _) => Some KUnconnected
  | Some (Some o, _, i) => if i_static i && negb (o_static o) then Some KStatic else None
  end.

(** (needs_push, needs_pull) of the items of [reversed(chain)]: output first, input last *)
Definition path_flags (pa : path) : list (bool * bool) :=
  (match p_root pa with Some o => [(o_push o, o_pull o)] | None => [] end)
  ++ map (fun n => (a_push (fst n), a_pull (fst n))) (p_adas pa)
  ++ [(i_push (p_leaf pa), i_pull (p_leaf pa))].

(** the index loop of [_check_dead_links] (647-652); [first] = [first_index >= 0] *)
Fixpoint dead_loop (first : bool) (l : list (bool * bool)) : bool :=
  match l with
  | [] => false
  | (push, pull) :: r => if first && push then true else dead_loop (first || pull) r
  end.

Definition check_dead_links (f : list rtree) (c p : nat) : option errkind :=
  match find_input f c p with
  | None => None
  | Some pa => if dead_loop false (path_flags pa) then Some KDead else None
  end.

(** [_check_branching] (607-624): a stack of (item, inherited no_branch flag); an item is
    represented by (inherited flag, isinstance(item, NoBranchAdapter), item.targets).
    The head of the list is the top of the stack ([targets.pop()] takes the last appended one). *)
Definition witem : Type := bool * bool * list tree.

Definition adapter_items (nb : bool) (ts : list tree) : list witem :=
  flat_map (fun t => match t with Leaf _ => [] | Node a cs => [(nb, a_nb a, cs)] end) ts.

Fixpoint branch_loop (fuel : nat) (stack : list witem) : bool :=
  match fuel with
  | O => false
  | S fuel' =>
      match stack with
      | [] => false
      | (inh, self, ts) :: rest =>
          let nb := inh || self in
          if nb && (1 <? length ts) then true
          else branch_loop fuel' (rev (adapter_items nb ts) ++ rest)
      end
  end.

Definition check_branching (f : list rtree) (c p : nat) : option errkind :=
  match find_output f c p with
  | None => None
  | Some (_, ts) =>
      if branch_loop (2 + list_sum (map tsize ts)) [(false, false, ts)] then Some KBranch else None
  end.

Definition in_keys (t : topo) : list (nat * nat) :=
  flat_map (fun c => map (fun p => (c, p)) (seq 0 (n_in t c))) (seq 0 (n_comps t)).
Definition out_keys (t : topo) : list (nat * nat) :=
  flat_map (fun c => map (fun p => (c, p)) (seq 0 (n_out t c))) (seq 0 (n_comps t)).

(** [_collect_inputs_outputs] (583-604): the root of every input of the composition, the inputs
    reachable from every output of the composition (a set-based work list in the code; the order
    is irrelevant). *)
Definition up_roots (t : topo) : list (option oslot) :=
  flat_map (fun k => match find_input (t_forest t) (fst k) (snd k) with
                     | Some pa => [p_root pa]
                     | None => []
                     end) (in_keys t).
Definition down_leaves (t : topo) : list islot :=
  flat_map (fun k => match find_output (t_forest t) (fst k) (snd k) with
                     | Some rt => flat_map tleaves (snd rt)
                     | None => []
                     end) (out_keys t).

Definition is_none {A : Type} (o : option A) : bool := match o with None => true | Some _ => false end.

(** [_check_missing_components] (562-580) *)
Definition check_missing (t : topo) : option errkind :=
  if existsb (fun i => is_none (i_own i)) (down_leaves t) then Some KMissIn
  else if existsb (fun r => match r with Some o => is_none (o_own o) | None => true end) (up_roots t)
       then Some KMissOut
       else None.

(* ------------------------------------------------------------------------- *)
(** ** [_validate_composition] (328-341) *)

Inductive check_id : Type := CkInput | CkDead | CkBranch | CkMissing.

Definition check : Type := check_id * nat * nat * option errkind.

Definition comp_checks (t : topo) (c : nat) : list check :=
  flat_map (fun p => [(CkInput, c, p, check_input_connected (t_forest t) c p);
                      (CkDead, c, p, check_dead_links (t_forest t) c p)]) (seq 0 (n_in t c))
  ++ map (fun p => (CkBranch, c, p, check_branching (t_forest t) c p)) (seq 0 (n_out t c)).

Definition all_checks (t : topo) : list check :=
  flat_map (comp_checks t) (seq 0 (n_comps t)) ++ [(CkMissing, 0, 0, check_missing t)].

Inductive event : Type :=
| EvCheck (k : check_id) (c p : nat)   (* a check helper is entered *)
| EvRaise                              (* ... and raises FinamConnectError *)
| EvConnect (c : nat)                  (* Component.connect of component c is called *)
| EvExchange.                          (* any ping / info / data exchange of a slot (never produced
                                          by the model before the first EvConnect) *)

Definition failure : Type := check_id * nat * nat * errkind.

Fixpoint run_checks (l : list check) : list event * option failure :=
  match l with
  | [] => ([], None)
  | (k, c, p, r) :: rest =>
      match r with
      | Some e => ([EvCheck k c p; EvRaise], Some (k, c, p, e))
      | None => let '(ev, res) := run_checks rest in (EvCheck k c p :: ev, res)
      end
  end.

Inductive verdict : Type :=
| VOk
| VErr (fl : failure).

Definition validate (t : topo) : verdict :=
  match snd (run_checks (all_checks t)) with
  | None => VOk
  | Some fl => VErr fl
  end.

Inductive exc : Type :=
| ConnectError     (* FinamConnectError *)
| StatusError      (* FinamStatusError: "Composition was already connected." *)
| OtherError.      (* any other class: only in observations, never produced by the model *)

Inductive result : Type :=
| RDone
| RRaised (e : exc).

(** every failing check raises FinamConnectError *)
Definition validate_composition (t : topo) : list event * result :=
  let '(ev, res) := run_checks (all_checks t) in
  (ev, match res with None => RDone | Some _ => RRaised ConnectError end).

(** [Composition.connect] (159-213) up to the first pass of [_connect_components] (343-379):
    status check, (argument checks and [_collect_adapters]: no events), validation, then every
    component is asked to connect, in order.  The rest of the connect phase is the subject of
    the C06 model. *)
Definition connect (already_connected : bool) (t : topo) : list event * result :=
  if already_connected then ([], RRaised StatusError)
  else
    let '(ev, r) := validate_composition t in
    match r with
    | RRaised e => (ev, RRaised e)
    | RDone => (ev ++ map EvConnect (seq 0 (n_comps t)), RDone)
    end.

(* ------------------------------------------------------------------------- *)
(** ** [Composition.metadata]["links"] (434-528) *)

Inductive lnode : Type :=
| NOut (own : option nat) (pos : nat)
| NAda (id : nat)
| NIn (own : option nat) (pos : nat).

Definition link : Type := lnode * lnode.

Definition head_node (t : tree) : lnode :=
  match t with
  | Leaf i => NIn (i_own i) (i_pos i)
  | Node a _ => NAda (a_id a)
  end.

Definition node_links (n : anode) : list link :=
  map (fun t => (NAda (a_id (fst n)), head_node t)) (snd n).
Definition out_links (o : oslot) (ts : list tree) : list link :=
  map (fun t => (NOut (o_own o) (o_pos o), head_node t)) ts.

(** [self._adapters] is a set: an adapter (identified by [a_id]) is kept once *)
Fixpoint dedupe (seen : list nat) (l : list anode) : list anode :=
  match l with
  | [] => []
  | n :: r =>
      if existsb (Nat.eqb (a_id (fst n))) seen then dedupe seen r
      else n :: dedupe (a_id (fst n) :: seen) r
  end.

(** [_collect_adapters] (321-326): per component, the adapters above every input
    ([_collect_adapters_input], from the input upwards) and below every output. *)
Definition collect_raw (t : topo) : list anode :=
  flat_map (fun c =>
      flat_map (fun p => match find_input (t_forest t) c p with
                         | Some pa => rev (p_adas pa)
                         | None => []
                         end) (seq 0 (n_in t c))
      ++ flat_map (fun p => match find_output (t_forest t) c p with
                            | Some rt => flat_map tnodes (snd rt)
                            | None => []
                            end) (seq 0 (n_out t c)))
    (seq 0 (n_comps t)).

Definition collect_adapters (t : topo) : list anode := dedupe [] (collect_raw t).

Definition metadata_links (t : topo) : list link :=
  flat_map (fun k => match find_output (t_forest t) (fst k) (snd k) with
                     | Some (Some o, ts) => out_links o ts
                     | _ => []
                     end) (out_keys t)
  ++ flat_map node_links (collect_adapters t).

(* ------------------------------------------------------------------------- *)
(** ** Well-formedness (computable): slot keys of composition components are unique and within
    the sizes, adapter identities are unique *)

Definition owned_in (pa : path) : bool := negb (is_none (i_own (p_leaf pa))).
Definition owned_root (rt : rtree) : bool :=
  match fst rt with Some o => negb (is_none (o_own o)) | None => false end.

Definition ikey (pa : path) : option nat * nat := (i_own (p_leaf pa), i_pos (p_leaf pa)).
Definition okey (rt : rtree) : option nat * nat :=
  match fst rt with Some o => (o_own o, o_pos o) | None => (None, 0) end.

Definition key_eqb (a b : option nat * nat) : bool :=
  option_eqb Nat.eqb (fst a) (fst b) && Nat.eqb (snd a) (snd b).

Fixpoint nodupb {A : Type} (eqb : A -> A -> bool) (l : list A) : bool :=
  match l with
  | [] => true
  | x :: r => negb (existsb (eqb x) r) && nodupb eqb r
  end.

Definition in_range_i (t : topo) (pa : path) : bool :=
  match i_own (p_leaf pa) with
  | Some c => (c <? n_comps t) && (i_pos (p_leaf pa) <? n_in t c)
  | None => true
  end.
Definition in_range_o (t : topo) (rt : rtree) : bool :=
  match fst rt with
  | Some o => match o_own o with
              | Some c => (c <? n_comps t) && (o_pos o <? n_out t c)
              | None => true
              end
  | None => true
  end.

Definition all_nodes (f : list rtree) : list anode := flat_map (fun rt => flat_map tnodes (snd rt)) f.

Definition wfb (t : topo) : bool :=
  nodupb key_eqb (map ikey (filter owned_in (all_paths (t_forest t))))
  && nodupb key_eqb (map okey (filter owned_root (t_forest t)))
  && forallb (in_range_i t) (all_paths (t_forest t))
  && forallb (in_range_o t) (t_forest t)
  && nodupb Nat.eqb (map (fun n => a_id (fst n)) (all_nodes (t_forest t))).

(* ------------------------------------------------------------------------- *)
(** ** One [Composition] object across several [connect()] attempts

    [Composition._adapters] is created once in [__init__] (schedule.py 122) and
    [_collect_adapters] (321-326) adds to it at the beginning of every [connect()] (190), before the
    validation.  A [connect()] that is rejected by the validation leaves the components untouched
    and [_is_connected = False] (212 is not reached), so the wiring can be repaired (links can only
    be added) and [connect()] called again.  [metadata] (477-478, 507-525) iterates the remembered
    set and reads [ada.targets] of each remembered adapter at that moment. *)

Fixpoint dedupe_ids (seen l : list nat) : list nat :=
  match l with
  | [] => []
  | x :: r => if existsb (Nat.eqb x) seen then dedupe_ids seen r
              else x :: dedupe_ids (x :: seen) r
  end.

(** the set after one more [_collect_adapters]: what was remembered plus what is found now *)
Definition collect_ids (prev : list nat) (t : topo) : list nat :=
  dedupe_ids [] (prev ++ map (fun n => a_id (fst n)) (collect_raw t)).

(** the adapter object with identity [id], with its [targets] as they are in [f] *)
Definition find_node (f : list rtree) (id : nat) : option anode :=
  find (fun n => Nat.eqb (a_id (fst n)) id) (all_nodes f).

Record cstate := mkS { s_connected : bool; s_adapters : list nat }.
Definition fresh : cstate := mkS false [].

Definition connect_st (s : cstate) (t : topo) : cstate * (list event * result) :=
  if s_connected s then (s, ([], RRaised StatusError))
  else
    let ids := collect_ids (s_adapters s) t in
    let '(ev, r) := validate_composition t in
    match r with
    | RRaised e => (mkS false ids, (ev, RRaised e))
    | RDone => (mkS true ids, (ev ++ map EvConnect (seq 0 (n_comps t)), RDone))
    end.

Definition direct_links (t : topo) : list link :=
  flat_map (fun k => match find_output (t_forest t) (fst k) (snd k) with
                     | Some (Some o, ts) => out_links o ts
                     | _ => []
                     end) (out_keys t).

Definition metadata_links_of (s : cstate) (t : topo) : list link :=
  direct_links t
  ++ flat_map (fun id => match find_node (t_forest t) id with
                         | Some n => node_links n
                         | None => []
                         end) (s_adapters s).

(** adapters below the outputs of the composition *)
Definition owned_nodes (t : topo) : list anode :=
  flat_map (fun rt => flat_map tnodes (snd rt)) (filter owned_root (t_forest t)).

(** every remembered adapter is (still) below an output of the composition; true whenever the
    wiring was only extended since the adapters were collected and the extended wiring is valid *)
Definition remembered_ok (s : cstate) (t : topo) : bool :=
  forallb (fun id => existsb (Nat.eqb id) (map (fun n => a_id (fst n)) (owned_nodes t))) (s_adapters s).

(* ------------------------------------------------------------------------- *)
(** ** Correspondence interface *)

Definition check_id_eqb (a b : check_id) : bool :=
  match a, b with
  | CkInput, CkInput | CkDead, CkDead | CkBranch, CkBranch | CkMissing, CkMissing => true
  | _, _ => false
  end.

Definition event_eqb (a b : event) : bool :=
  match a, b with
  | EvCheck k c p, EvCheck k' c' p' => check_id_eqb k k' && Nat.eqb c c' && Nat.eqb p p'
  | EvRaise, EvRaise => true
  | EvConnect c, EvConnect c' => Nat.eqb c c'
  | EvExchange, EvExchange => true
  | _, _ => false
  end.

Definition exc_eqb (a b : exc) : bool :=
  match a, b with
  | ConnectError, ConnectError | StatusError, StatusError | OtherError, OtherError => true
  | _, _ => false
  end.

Definition result_eqb (a b : result) : bool :=
  match a, b with
  | RDone, RDone => true
  | RRaised e, RRaised e' => exc_eqb e e'
  | _, _ => false
  end.

Definition lnode_eqb (a b : lnode) : bool :=
  match a, b with
  | NOut o p, NOut o' p' => option_eqb Nat.eqb o o' && Nat.eqb p p'
  | NAda i, NAda i' => Nat.eqb i i'
  | NIn o p, NIn o' p' => option_eqb Nat.eqb o o' && Nat.eqb p p'
  | _, _ => false
  end.

Definition link_eqb (a b : link) : bool := pair_eqb lnode_eqb lnode_eqb a b.

Fixpoint remove_one {A : Type} (eqb : A -> A -> bool) (x : A) (l : list A) : option (list A) :=
  match l with
  | [] => None
  | y :: r => if eqb x y then Some r
              else match remove_one eqb x r with Some r' => Some (y :: r') | None => None end
  end.

(** multiset equality *)
Fixpoint perm_eqb {A : Type} (eqb : A -> A -> bool) (l1 l2 : list A) : bool :=
  match l1 with
  | [] => match l2 with [] => true | _ => false end
  | x :: r => match remove_one eqb x l2 with Some l2' => perm_eqb eqb r l2' | None => false end
  end.

(** the event prefix up to and including the first component connect call *)
Fixpoint upto_connect (l : list event) : list event :=
  match l with
  | [] => []
  | EvConnect c :: _ => [EvConnect c]
  | e :: r => e :: upto_connect r
  end.

Record c19_obs := mkObs {
  ob_validate : result;            (* Composition._validate_composition() called directly *)
  ob_vevents : list event;
  ob_connect : result;             (* Composition.connect(); an error raised after the validation
                                      is outside this model and reported as RDone without links *)
  ob_cevents : list event;         (* prefix up to the first component connect call *)
  ob_links : option (list link)    (* metadata["links"] after a successful connect *)
}.

Definition c19_case : Type := topo.

Definition c19_model (t : c19_case) : c19_obs :=
  let '(vev, vr) := validate_composition t in
  let '(cev, cr) := connect false t in
  mkObs vr vev cr (upto_connect cev)
        (match cr with RDone => Some (metadata_links t) | RRaised _ => None end).

(** The comparison of the check events does not depend on the order in which the implementation
    runs the checks (the model runs them in the order of the code as it is now; a reordering would
    only change which of several defects is reported):
    - validation passed: the observed events are a permutation of the model's check events;
    - validation failed: the observed events are checks that pass in the model, followed by a check
      that fails in the model and [EvRaise]. *)
Definition check_lookup (t : topo) (k : check_id) (c p : nat) : option (option errkind) :=
  match find (fun ck => check_id_eqb (fst (fst (fst ck))) k && Nat.eqb (snd (fst (fst ck))) c
                        && Nat.eqb (snd (fst ck)) p) (all_checks t) with
  | Some ck => Some (snd ck)
  | None => None
  end.

Fixpoint events_fail_ok (t : topo) (l : list event) : bool :=
  match l with
  | EvCheck k c p :: r =>
      match r with
      | [EvRaise] => match check_lookup t k c p with Some (Some _) => true | _ => false end
      | _ => match check_lookup t k c p with Some None => events_fail_ok t r | _ => false end
      end
  | _ => false
  end.

Definition events_agree (t : topo) (model obs : list event) : bool :=
  match validate t with
  | VOk => perm_eqb event_eqb model obs
  | VErr _ => events_fail_ok t obs
  end.

(** connect prefix: as above, and after a successful validation the prefix ends with the connect
    call of component 0 *)
Definition cevents_agree (t : topo) (model obs : list event) : bool :=
  match validate t with
  | VOk => perm_eqb event_eqb (removelast model) (removelast obs)
           && option_eqb event_eqb (nth_error model (pred (length model)))
                                   (nth_error obs (pred (length obs)))
  | VErr _ => events_fail_ok t obs
  end.

Definition c19_check (x : c19_case * c19_obs) : bool :=
  let t := fst x in
  let o := snd x in
  let m := c19_model t in
  wfb t
  && result_eqb (ob_validate m) (ob_validate o)
  && events_agree t (ob_vevents m) (ob_vevents o)
  && result_eqb (ob_connect m) (ob_connect o)
  && cevents_agree t (ob_cevents m) (ob_cevents o)
  && match ob_links o with
     | None => true
     | Some l => match ob_links m with Some lm => perm_eqb link_eqb lm l | None => false end
     end.

(** a first attempt on [t1] and - optionally - a second attempt after the wiring was extended to [t2] *)
Definition c19_case2 : Type := topo * option topo.
Definition c19_obs2 : Type := c19_obs * option c19_obs.

Definition retry_model (t1 t2 : topo) : c19_obs :=
  let s1 := fst (connect_st fresh t1) in
  let '(vev, vr) := validate_composition t2 in
  let '(s2, (cev, cr)) := connect_st s1 t2 in
  mkObs vr vev cr (upto_connect cev)
        (match cr with RDone => Some (metadata_links_of s2 t2) | RRaised _ => None end).

Definition c19_model2 (c : c19_case2) : c19_obs2 :=
  (c19_model (fst c), match snd c with Some t2 => Some (retry_model (fst c) t2) | None => None end).

Definition retry_check (t1 t2 : topo) (o : c19_obs) : bool :=
  let s1 := fst (connect_st fresh t1) in
  let m := retry_model t1 t2 in
  wfb t2
  && (match validate t2 with VOk => remembered_ok s1 t2 | VErr _ => true end)
  && result_eqb (ob_validate m) (ob_validate o)
  && events_agree t2 (ob_vevents m) (ob_vevents o)
  && result_eqb (ob_connect m) (ob_connect o)
  && (if s_connected s1 then list_eqb event_eqb [] (ob_cevents o)
      else cevents_agree t2 (ob_cevents m) (ob_cevents o))
  && match ob_links o with
     | None => true
     | Some l => match ob_links m with Some lm => perm_eqb link_eqb lm l | None => false end
     end.

Definition c19_check2 (x : c19_case2 * c19_obs2) : bool :=
  c19_check (fst (fst x), fst (snd x))
  && match snd (fst x), snd (snd x) with
     | Some t2, Some o2 => retry_check (fst (fst x)) t2 o2
     | _, None => true            (* no second attempt was made *)
     | None, Some _ => false
     end.
