(** Executable model of finam's iterative connect phase.

    Anchors (all in /repo/src/finam):
      tools/connect_helper.py  ConnectHelper.__init__ 110-154, connect 331-425,
                               _apply_in_info_rules/_apply_out_info_rules 427-447,
                               _exchange_in_infos 476-500, _push 502-520, _push_data 522-534
      schedule.py              Composition._connect_components 339-379
      sdk/component.py         Component.connect 84-109 (ping phase), try_connect 424-462
      sdk/output.py            Output.info 70-78, push_data 152-202, push_info 204-216,
                               get_data 234-282, get_info 363-429
      sdk/input.py             Input.exchange_info 165-217, pull_data 101-136

    Slots (inputs / outputs) are numbered globally; a component owns a list of input ids and a
    list of output ids.  The world is a pair of total functions slot id -> slot state.  A slot
    state holds the state of the sdk object (Output._output_info, _out_infos_exchanged, data)
    AND the owning ConnectHelper's entries for that slot (in_infos, out_infos, in_data,
    infos_pushed, data_pushed and the three caches).

    Each [for name, ... in dict.items()] loop of the helper touches only the entry of its own key
    and reads only state that is constant during that loop, so every loop is written as a
    pointwise world transformer ("phase") plus an [existsb] for the loop's [any_done] flag.
    The phases are applied in the order of connect_helper.py 364-425.

    An [Info] is modelled by its [time] field (microseconds, [Z]); grid/units/mask compatibility
    is the subject of C07.  Payloads are tokens ([nat]).

    Links: an input may sit behind pass-through adapters (Scale, chains, one instance shared by several inputs)
    and behind time delay adapters (DelayFixed / DelayToPull).  All of them forward pings, info exchanges and
    data requests to the output, so the end points counted by [nconn] are the inputs.  A time delay adapter
    clamps the request of the connect phase to the PRODUCER's info time (TimeDelayAdapter.get_info:
    initial_time = delivered info time), which is one of the published times and carries the same payload as the
    publication for the composition start; the model therefore serves every initial pull from the first entry.
    (Output._clear_data drops the start entry once every end point requested the later time; the harness
    accounts for that, see c06.py [_evicted].)

    Domain restrictions (generator-enforced, documented in harness/props/c06.py):
      - every info handed to a non-static slot carries a time, transfer-rule lists set the time;
      - info times are not earlier than the composition start (otherwise the initial pull
        raises FinamTimeError inside connect; the model then reports "not delivered");
      - all non-static outputs of one component carry the same info time
        (connect_helper._check_times is not modelled). *)
From Coq Require Import List ZArith Bool Arith.
From FV Require Import Base.
Import ListNotations.
Open Scope Z_scope.

(** * Static description of a coupling setup *)

(** What a harness component looks at before it hands something to [try_connect]:
    [connector.in_infos[i] is not None], [connector.in_data[i] is not None],
    [connector.out_infos[o] is not None]. *)
Inductive dep := DIn (i : nat) | DPull (i : nat) | DOut (o : nat).

(** Transfer rules (connect_helper.py 31-81, _apply_rules 192-213, _transfer_fields 546-558).
    The flag says whether the rule transfers the [time] field. [FromVal None] sets another field. *)
Inductive rule :=
| FromIn (i : nat) (with_time : bool)
| FromOut (o : nat) (with_time : bool)
| FromVal (t : option Z).

Record ispec := mk_ispec {
  is_src   : nat;                       (* the output this input is linked to *)
  is_own   : option Z;                  (* Input constructed with an info (its time) *)
  is_prov  : option (list dep * Z);     (* component passes exchange_infos[i] once deps hold *)
  is_rules : option (list rule);        (* in_info_rules[i] *)
  is_pull  : bool                       (* i in pull_data *)
}.

Record ospec := mk_ospec {
  os_static    : bool;
  os_own       : option Z;                  (* Output constructed with an info *)
  os_prov_info : option (list dep * Z);     (* component passes push_infos[o] once deps hold *)
  os_rules     : option (list rule);        (* out_info_rules[o] *)
  os_prov_data : option (list dep * nat);   (* component passes push_data[o] once deps hold *)
  os_spare     : bool                       (* the output has a target adapter with no input behind it *)
}.

Record spec := mk_spec {
  sp_in    : nat -> ispec;
  sp_out   : nat -> ospec;
  sp_ins   : list nat;      (* all inputs that exist (each pings its source once) *)
  sp_start : Z              (* composition start time *)
}.

Record comp := mk_comp { c_ins : list nat; c_outs : list nat; c_cache : bool }.

(** * Dynamic state *)

Record istate := mk_istate {
  in_exch  : option Z;      (* helper.in_infos[i]  (for a sink input of a script: "exchanged") *)
  in_cache : option Z;      (* helper._in_info_cache[i] *)
  in_data  : option nat     (* helper.in_data[i] *)
}.

Record ostate := mk_ostate {
  o_info    : option Z;                 (* Output._output_info *)
  o_exch    : nat;                      (* Output._out_infos_exchanged *)
  o_data    : list (option Z * nat);    (* Output.data: (time, payload); time None = static *)
  o_hinfo   : option Z;                 (* helper.out_infos[o] *)
  o_ipushed : bool;                     (* helper.infos_pushed[o] *)
  o_dpushed : bool;                     (* helper.data_pushed[o] *)
  o_icache  : option Z;                 (* helper._out_info_cache[o] *)
  o_dcache  : option nat                (* helper._out_data_cache[o] *)
}.

Record world := mk_world { wi : nat -> istate; wo : nat -> ostate }.

Record args := mk_args {
  a_ex : nat -> option Z;     (* exchange_infos *)
  a_pi : nat -> option Z;     (* push_infos *)
  a_pd : nat -> option nat    (* push_data *)
}.

Inductive status := INITIALIZED | CONNECTING | CONNECTING_IDLE | CONNECTED.

Definition is_some {A : Type} (o : option A) : bool := match o with Some _ => true | None => false end.
Definition mem (x : nat) (l : list nat) : bool := existsb (Nat.eqb x) l.

(** [override l f g] is the function [fun x => if mem x l then f x else g x]; the new values are
    tabulated when the override is built (the correspondence evaluates the model with the
    call-by-value [vm_compute], nested closures would be re-evaluated on every read). *)
Fixpoint tlookup {A : Type} (x : nat) (tbl : list (nat * A)) : option A :=
  match tbl with
  | [] => None
  | (k, v) :: r => if Nat.eqb x k then Some v else tlookup x r
  end.
Definition override_tbl {A : Type} (tbl : list (nat * A)) (g : nat -> A) : nat -> A :=
  fun x => match tlookup x tbl with Some v => v | None => g x end.
Definition override {A : Type} (l : list nat) (f : nat -> A) (g : nat -> A) : nat -> A :=
  override_tbl (map (fun x => (x, f x)) l) g.

(** * The declared exchanges ("items") of a component *)
Inductive item :=
| IInInfo (i : nat)        (* in_infos[i] is not None *)
| IPulled (i : nat)        (* in_data[i] is not None *)
| IOutInfo (o : nat)       (* out_infos[o] is not None *)
| IInfoPushed (o : nat)    (* infos_pushed[o] *)
| IDataPushed (o : nat).   (* data_pushed[o] *)

Definition done (w : world) (it : item) : bool :=
  match it with
  | IInInfo i => is_some (in_exch (wi w i))
  | IPulled i => is_some (in_data (wi w i))
  | IOutInfo o => is_some (o_hinfo (wo w o))
  | IInfoPushed o => o_ipushed (wo w o)
  | IDataPushed o => o_dpushed (wo w o)
  end.

Definition declared (sp : spec) (c : comp) : list item :=
  flat_map (fun i => IInInfo i :: if is_pull (sp_in sp i) then [IPulled i] else []) (c_ins c)
  ++ flat_map (fun o => [IOutInfo o; IInfoPushed o; IDataPushed o]) (c_outs c).

Definition dep_item (d : dep) : item :=
  match d with DIn i => IInInfo i | DPull i => IPulled i | DOut o => IOutInfo o end.

Section Helper.
  Variable sp : spec.

  (** len(Output._connected_inputs): every existing input linked to [o] has pinged. *)
  Definition nconn (o : nat) : nat :=
    length (filter (fun i => Nat.eqb (is_src (sp_in sp i)) o) (sp_ins sp)).

  (** Output.has_targets: [_targets] (direct targets: inputs and adapters) is non-empty.  It differs from
      [nconn] (the pinged end points, [_connected_inputs]) when an adapter is a dead end. *)
  Definition no_targets (o : nat) : bool := (nconn o =? 0)%nat && negb (os_spare (sp_out sp o)).

  (** _apply_rules: [None] = MissingInfoError (or, outside the domain, time never set). *)
  Fixpoint apply_rules (w : world) (rs : list rule) (acc : option Z) : option Z :=
    match rs with
    | [] => acc
    | FromIn i wt :: r =>
        match in_exch (wi w i) with
        | None => None
        | Some t => apply_rules w r (if wt then Some t else acc)
        end
    | FromOut o wt :: r =>
        match o_hinfo (wo w o) with
        | None => None
        | Some t => apply_rules w r (if wt then Some t else acc)
        end
    | FromVal v :: r => apply_rules w r (match v with Some t => Some t | None => acc end)
    end.

  Section Call.
    Variable c : comp.
    Variable a : args.

    (** connect 364-373: filter the arguments, then overwrite with rule results
        (_apply_in_info_rules / _apply_out_info_rules 427-451: the cache is consulted only when
        caching is enabled, fix 98cb380) *)
    Definition ex_eff (w : world) (i : nat) : option Z :=
      let st := wi w i in
      let provided := match in_exch st with None => a_ex a i | Some _ => None end in
      let ruled := match is_rules (sp_in sp i) with
                   | Some rs => if negb (is_some (in_exch st))
                                   && (negb (c_cache c) || negb (is_some (in_cache st)))
                                then apply_rules w rs None else None
                   | None => None
                   end in
      match ruled with Some t => Some t | None => provided end.

    Definition pi_eff (w : world) (o : nat) : option Z :=
      let st := wo w o in
      let provided := match o_hinfo st with None => a_pi a o | Some _ => None end in
      let ruled := match os_rules (sp_out sp o) with
                   | Some rs => if negb (o_ipushed st)
                                   && (negb (c_cache c) || negb (is_some (o_icache st)))
                                then apply_rules w rs None else None
                   | None => None
                   end in
      match ruled with Some t => Some t | None => provided end.

    Definition pd_eff (w : world) (o : nat) : option nat :=
      if o_dpushed (wo w o) then None else a_pd a o.

    Definition upd_cache {A : Type} (new old : option A) : option A :=
      if c_cache c then match new with Some x => Some x | None => old end else new.

    (** connect 375-382 *)
    Definition phase_cache (w : world) : world :=
      mk_world
        (override (c_ins c)
           (fun i => let st := wi w i in
                     mk_istate (in_exch st) (upd_cache (ex_eff w i) (in_cache st)) (in_data st))
           (wi w))
        (override (c_outs c)
           (fun o => let st := wo w o in
                     mk_ostate (o_info st) (o_exch st) (o_data st) (o_hinfo st) (o_ipushed st) (o_dpushed st)
                               (upd_cache (pi_eff w o) (o_icache st)) (upd_cache (pd_eff w o) (o_dcache st)))
           (wo w)).

    (** _exchange_in_infos 476-500 (both loops): the request is the input's own info if it
        has one, else the cached one; Input.exchange_info -> Output.get_info succeeds iff the
        source has an info (output.py 385-386) and then counts the exchange (427). *)
    Definition ex_req (w : world) (i : nat) : option Z :=
      match is_own (sp_in sp i) with Some t => Some t | None => in_cache (wi w i) end.

    Definition fires_ex (w : world) (i : nat) : bool :=
      negb (is_some (in_exch (wi w i))) && is_some (ex_req w i)
      && is_some (o_info (wo w (is_src (sp_in sp i)))).

    Definition phase_exchange (w : world) : world :=
      mk_world
        (override (c_ins c)
           (fun i => let st := wi w i in
                     if fires_ex w i
                     then mk_istate (ex_req w i)
                                    (match is_own (sp_in sp i) with Some _ => in_cache st | None => None end)
                                    (in_data st)
                     else st)
           (wi w))
        (override (map (fun i => is_src (sp_in sp i)) (c_ins c))
           (fun o => let st := wo w o in
                     mk_ostate (o_info st)
                               (o_exch st + length (filter (fun i => fires_ex w i && Nat.eqb (is_src (sp_in sp i)) o) (c_ins c)))%nat
                               (o_data st) (o_hinfo st) (o_ipushed st) (o_dpushed st) (o_icache st) (o_dcache st))
           (wo w)).

    (** connect 386-393 with Output.info 70-78 *)
    Definition fires_oi (w : world) (o : nat) : bool :=
      let st := wo w o in
      negb (is_some (o_hinfo st)) && is_some (o_info st) && (nconn o <=? o_exch st)%nat.

    Definition phase_outinfo (w : world) : world :=
      mk_world (wi w)
        (override (c_outs c)
           (fun o => let st := wo w o in
                     if fires_oi w o
                     then mk_ostate (o_info st) (o_exch st) (o_data st) (o_info st) (o_ipushed st) (o_dpushed st)
                                    (o_icache st) (o_dcache st)
                     else st)
           (wo w)).

    (** _push 505-511 *)
    Definition fires_pi (w : world) (o : nat) : bool :=
      let st := wo w o in negb (o_ipushed st) && is_some (o_icache st).

    Definition phase_pushinfo (w : world) : world :=
      mk_world (wi w)
        (override (c_outs c)
           (fun o => let st := wo w o in
                     if fires_pi w o
                     then mk_ostate (o_icache st) (o_exch st) (o_data st) (o_hinfo st) true (o_dpushed st)
                                    None (o_dcache st)
                     else st)
           (wo w)).

    (** _push 513-518 and _push_data 522-534; Output.push_data appends only when the output
        has targets (164-166) *)
    Definition fires_pd (w : world) (o : nat) : bool :=
      let st := wo w o in
      negb (o_dpushed st) && is_some (o_dcache st) && o_ipushed st && is_some (o_hinfo st).

    Definition pushed_entries (o : nat) (t : Z) (p : nat) : list (option Z * nat) :=
      if no_targets o then []
      else if os_static (sp_out sp o) then [(None, p)]
      else if t =? sp_start sp then [(Some t, p)]
      else [(Some (sp_start sp), p); (Some t, p)].

    Definition phase_pushdata (w : world) : world :=
      mk_world (wi w)
        (override (c_outs c)
           (fun o => let st := wo w o in
                     if fires_pd w o
                     then match o_dcache st, o_hinfo st with
                          | Some p, Some t =>
                              mk_ostate (o_info st) (o_exch st) (o_data st ++ pushed_entries o t p) (o_hinfo st)
                                        (o_ipushed st) true (o_icache st) None
                          | _, _ => st
                          end
                     else st)
           (wo w)).

    (** Output._interpolate 340-361 for a request inside the published range; the request of the
        connect phase is the composition start. [None] = FinamTimeError (outside the domain). *)
    Fixpoint interp_loop (prev : option (Z * nat)) (l : list (option Z * nat)) (time : Z) : option nat :=
      match l with
      | [] => None
      | (None, _) :: _ => None
      | (Some t, d) :: r =>
          if t <? time then interp_loop (Some (t, d)) r time
          else if time =? t then Some d
          else match prev with
               | None => None
               | Some (tp, dp) => if time - tp <? t - time then Some dp else Some d
               end
      end.

    (** Input.pull_data -> Output.get_data 259-271: [None] = FinamNoDataError *)
    Definition get_data (w : world) (o : nat) : option nat :=
      let st := wo w o in
      if negb (is_some (o_info st)) then None
      else if (o_exch st <? nconn o)%nat then None
      else match o_data st with
           | [] => None
           | (_, d) :: _ => if os_static (sp_out sp o) then Some d
                            else interp_loop None (o_data st) (sp_start sp)
           end.

    (** connect 397-408 *)
    Definition fires_pl (w : world) (i : nat) : bool :=
      let st := wi w i in
      is_pull (sp_in sp i) && negb (is_some (in_data st)) && is_some (in_exch st)
      && is_some (get_data w (is_src (sp_in sp i))).

    Definition phase_pull (w : world) : world :=
      mk_world
        (override (c_ins c)
           (fun i => let st := wi w i in
                     if fires_pl w i
                     then mk_istate (in_exch st) (in_cache st) (get_data w (is_src (sp_in sp i)))
                     else st)
           (wi w))
        (wo w).

    (** connect 410-416 *)
    Definition all_done (w : world) : bool :=
      forallb (fun i => is_some (in_exch (wi w i))
                        && (negb (is_pull (sp_in sp i)) || is_some (in_data (wi w i)))) (c_ins c)
      && forallb (fun o => is_some (o_hinfo (wo w o)) && o_ipushed (wo w o) && o_dpushed (wo w o)) (c_outs c).

    Definition helper_connect (w : world) : world * status :=
      let w1 := phase_cache w in
      let b2 := existsb (fires_ex w1) (c_ins c) in
      let w2 := phase_exchange w1 in
      let b3 := existsb (fires_oi w2) (c_outs c) in
      let w3 := phase_outinfo w2 in
      let b4 := existsb (fires_pi w3) (c_outs c) in
      let w4 := phase_pushinfo w3 in
      let b5 := existsb (fires_pd w4) (c_outs c) in
      let w5 := phase_pushdata w4 in
      let b6 := existsb (fires_pl w5) (c_ins c) in
      let w6 := phase_pull w5 in
      (w6, if all_done w6 then CONNECTED
           else if b2 || b3 || b4 || b5 || b6 then CONNECTING
           else CONNECTING_IDLE).
  End Call.

  (** What a harness component passes to try_connect: everything whose dependencies are
      already visible in its connector (read before the call). *)
  Definition deps_ok (w : world) (ds : list dep) : bool := forallb (fun d => done w (dep_item d)) ds.

  Definition prov_args (w : world) : args :=
    mk_args
      (fun i => match is_prov (sp_in sp i) with
                | Some (ds, t) => if deps_ok w ds then Some t else None
                | None => None end)
      (fun o => match os_prov_info (sp_out sp o) with
                | Some (ds, t) => if deps_ok w ds then Some t else None
                | None => None end)
      (fun o => match os_prov_data (sp_out sp o) with
                | Some (ds, p) => if deps_ok w ds then Some p else None
                | None => None end).

  Definition init_world : world :=
    mk_world (fun _ => mk_istate None None None)
             (fun o => mk_ostate (os_own (sp_out sp o)) 0 [] None (is_some (os_own (sp_out sp o))) false None None).

  (** * Composition._connect_components (schedule.py 339-379) *)

  Definition status_eqb (a b : status) : bool :=
    match a, b with
    | INITIALIZED, INITIALIZED | CONNECTING, CONNECTING
    | CONNECTING_IDLE, CONNECTING_IDLE | CONNECTED, CONNECTED => true
    | _, _ => false
    end.

  Record iter_res := mk_iter {
    it_world : world;
    it_comps : list (comp * status);
    it_events : list (nat * status);   (* (index of the component, status after its _connect) *)
    it_new : bool                      (* any_new_connection *)
  }.

  (** one pass of [for comp in self._components]; [k] = index of the head component.
      Component.connect: status INITIALIZED -> ping phase only, status := CONNECTING. *)
  Fixpoint iter (k : nat) (cs : list (comp * status)) (w : world) : iter_res :=
    match cs with
    | [] => mk_iter w [] [] false
    | (c, st) :: r =>
        match st with
        | CONNECTED => let x := iter (S k) r w in
                       mk_iter (it_world x) ((c, st) :: it_comps x) (it_events x) (it_new x)
        | INITIALIZED => let x := iter (S k) r w in
                         mk_iter (it_world x) ((c, CONNECTING) :: it_comps x) (it_events x) true
        | _ => let '(w1, st1) := helper_connect c (prov_args w) w in
               let x := iter (S k) r w1 in
               mk_iter (it_world x) ((c, st1) :: it_comps x) ((k, st1) :: it_events x)
                       (status_eqb st1 CONNECTED || status_eqb st1 CONNECTING || it_new x)
        end
    end.

  Inductive outcome := Success | Circular (unconnected : list nat) | OutOfFuel.

  Fixpoint unconnected (k : nat) (cs : list (comp * status)) : list nat :=
    match cs with
    | [] => []
    | (_, st) :: r => if status_eqb st CONNECTED then unconnected (S k) r else k :: unconnected (S k) r
    end.

  Record run_res := mk_run {
    r_world : world;
    r_comps : list (comp * status);
    r_events : list (nat * status);
    r_iters : nat;
    r_out : outcome
  }.

  Fixpoint loop (fuel : nat) (cs : list (comp * status)) (w : world) : run_res :=
    match fuel with
    | O => mk_run w cs [] 0 OutOfFuel
    | S f =>
        let x := iter 0 cs w in
        match unconnected 0 (it_comps x) with
        | [] => mk_run (it_world x) (it_comps x) (it_events x) 1 Success
        | u => if it_new x
               then let y := loop f (it_comps x) (it_world x) in
                    mk_run (r_world y) (r_comps y) (it_events x ++ r_events y) (S (r_iters y)) (r_out y)
               else mk_run (it_world x) (it_comps x) (it_events x) 1 (Circular u)
        end
    end.

  Definition all_items (cs : list comp) : list item := flat_map (declared sp) cs.

  Definition enough_fuel (cs : list comp) : nat := length (all_items cs) + length cs + 2.

  Definition connect_run (cs : list comp) : run_res :=
    loop (enough_fuel cs) (map (fun c => (c, INITIALIZED)) cs) init_world.

  (** positions (from [k], in list order) of the components with an outstanding declared item *)
  Fixpoint stuck_idx (w : world) (k : nat) (cs : list comp) : list nat :=
    match cs with
    | [] => []
    | c :: r => if all_done c w then stuck_idx w (S k) r else k :: stuck_idx w (S k) r
    end.
End Helper.

(** every slot belongs to at most one component, listed once *)
Definition disjoint_slots (cs : list comp) : Prop :=
  NoDup (flat_map c_ins cs) /\ NoDup (flat_map c_outs cs).

(** * Declarative derivation rules of the exchanges (to state the fixed-point property) *)
Section Derive.
  Variable sp : spec.
  Variable cs : list comp.

  Definition own_in (i : nat) : Prop := In i (flat_map c_ins cs).
  Definition own_out (o : nat) : Prop := In o (flat_map c_outs cs).

  Definition rule_src (r : rule) : option item :=
    match r with FromIn i _ => Some (IInInfo i) | FromOut o _ => Some (IOutInfo o) | FromVal _ => None end.
  Definition sets_time (r : rule) : bool :=
    match r with FromIn _ b => b | FromOut _ b => b | FromVal v => is_some v end.

  Definition deps_in (P : item -> Prop) (ds : list dep) : Prop := forall d, In d ds -> P (dep_item d).
  Definition rules_in (P : item -> Prop) (rs : list rule) : Prop :=
    (forall r it, In r rs -> rule_src r = Some it -> P it) /\ existsb sets_time rs = true.

  (** one-step consequence: [step P it] = "[it] can be exchanged once the items in [P] are" *)
  Definition step (P : item -> Prop) (it : item) : Prop :=
    match it with
    | IInfoPushed o =>
        os_own (sp_out sp o) <> None
        \/ (own_out o /\ ((exists ds t, os_prov_info (sp_out sp o) = Some (ds, t) /\ deps_in P ds)
                          \/ (exists rs, os_rules (sp_out sp o) = Some rs /\ rules_in P rs)))
    | IInInfo i =>
        own_in i
        /\ (is_own (sp_in sp i) <> None
            \/ (exists ds t, is_prov (sp_in sp i) = Some (ds, t) /\ deps_in P ds)
            \/ (exists rs, is_rules (sp_in sp i) = Some rs /\ rules_in P rs))
        /\ P (IInfoPushed (is_src (sp_in sp i)))
    | IOutInfo o =>
        own_out o /\ P (IInfoPushed o)
        /\ (forall i, In i (sp_ins sp) -> is_src (sp_in sp i) = o -> P (IInInfo i))
    | IDataPushed o =>
        own_out o /\ (exists ds p, os_prov_data (sp_out sp o) = Some (ds, p) /\ deps_in P ds)
        /\ P (IInfoPushed o) /\ P (IOutInfo o)
    | IPulled i =>
        own_in i /\ is_pull (sp_in sp i) = true /\ P (IInInfo i) /\ P (IDataPushed (is_src (sp_in sp i)))
    end.

  Definition closed (P : item -> Prop) : Prop := forall it, step P it -> P it.

  (** the least set closed under the rules (least fixed point of [step]) *)
  Definition derivable (it : item) : Prop := forall P, closed P -> P it.

  Definition wf_setup : Prop :=
    disjoint_slots cs /\ NoDup (sp_ins sp) /\ (forall i, In i (sp_ins sp) <-> own_in i).
End Derive.

(** * Scripted sequences of direct ConnectHelper.connect calls (tests/tools/test_connect.py style) *)

Inductive sop :=
| SConnect (ex : list (nat * Z)) (pi : list (nat * Z)) (pd : list (nat * nat))
| SSrcInfo (o : nat) (t : Z)       (* source.push_info *)
| SSrcData (o : nat) (p : nat)     (* source.push_data(p, start) *)
| SSinkEx (i : nat) (t : Z).       (* sink.exchange_info(Info(t)) *)

Inductive sres :=
| RStatus (st : status) (snap_in : list (option Z * option nat)) (snap_out : list (option Z * bool * bool))
| ROk | RNoData | RMeta.

Fixpoint alookup {A : Type} (k : nat) (l : list (nat * A)) : option A :=
  match l with
  | [] => None
  | (k', v) :: r => match alookup k r with Some x => Some x | None => if Nat.eqb k k' then Some v else None end
  end.

Definition script_step (sp : spec) (c : comp) (w : world) (op : sop) : world * sres :=
  match op with
  | SConnect ex pi pd =>
      let a := mk_args (fun i => alookup i ex) (fun o => alookup o pi) (fun o => alookup o pd) in
      let '(w', st) := helper_connect sp c a w in
      (w', RStatus st (map (fun i => (in_exch (wi w' i), in_data (wi w' i))) (c_ins c))
                      (map (fun o => (o_hinfo (wo w' o), o_ipushed (wo w' o), o_dpushed (wo w' o))) (c_outs c)))
  | SSrcInfo o t =>
      let st := wo w o in
      (mk_world (wi w) (fun o' => if Nat.eqb o' o
                                  then mk_ostate (Some t) (o_exch st) (o_data st) (o_hinfo st) (o_ipushed st)
                                                 (o_dpushed st) (o_icache st) (o_dcache st)
                                  else wo w o'), ROk)
  | SSrcData o p =>
      let st := wo w o in
      if no_targets sp o then (w, ROk)
      else if (o_exch st <? nconn sp o)%nat then (w, RNoData)
      else if negb (is_some (o_info st)) then (w, RNoData)   (* push_data 184: self.info *)
      else (mk_world (wi w) (fun o' => if Nat.eqb o' o
                                       then mk_ostate (o_info st) (o_exch st)
                                              (o_data st ++ [(if os_static (sp_out sp o) then None else Some (sp_start sp), p)])
                                              (o_hinfo st) (o_ipushed st) (o_dpushed st) (o_icache st) (o_dcache st)
                                       else wo w o'), ROk)
  | SSinkEx i t =>
      let o := is_src (sp_in sp i) in
      let st := wo w o in
      if is_some (in_exch (wi w i)) then (w, RMeta)
      else match o_info st with
           | None => (w, RNoData)
           | Some _ =>
               (mk_world (fun i' => if Nat.eqb i' i then mk_istate (Some t) None None else wi w i')
                         (fun o' => if Nat.eqb o' o
                                    then mk_ostate (o_info st) (S (o_exch st)) (o_data st) (o_hinfo st) (o_ipushed st)
                                                   (o_dpushed st) (o_icache st) (o_dcache st)
                                    else wo w o'), ROk)
           end
  end.

Fixpoint script_run (sp : spec) (c : comp) (w : world) (ops : list sop) : list sres :=
  match ops with
  | [] => []
  | op :: r => let '(w', x) := script_step sp c w op in x :: script_run sp c w' r
  end.

(** * Correspondence interface *)

Definition dflt_ispec := mk_ispec 0 None None None false.
Definition dflt_ospec := mk_ospec false None None None None false.

Definition mk_sp (ins : list ispec) (outs : list ospec) (start : Z) : spec :=
  mk_spec (fun i => nth i ins dflt_ispec) (fun o => nth o outs dflt_ospec) (seq 0 (length ins)) start.

Inductive c06_case :=
| CaseComp (ins : list ispec) (outs : list ospec) (comps : list comp) (start : Z)
| CaseScript (ins : list ispec) (outs : list ospec) (helper : comp) (start : Z) (ops : list sop).

Record comp_obs := mk_cobs {
  ob_events : list (nat * status);
  ob_circular : option (list nat);          (* None = connect() returned normally *)
  ob_final : list status;
  ob_ins : list (option Z * option nat);    (* in_infos time, in_data payload per input *)
  ob_outs : list (option Z * bool * bool * list (option Z * nat))
                                             (* out_infos time, infos_pushed, data_pushed, Output.data *)
}.

Inductive c06_obs :=
| ObsComp (o : comp_obs)
| ObsScript (l : list sres)
| ObsBad.    (* the implementation did something the model cannot express *)

Definition c06_model (x : c06_case) : c06_obs :=
  match x with
  | CaseComp ins outs comps start =>
      let sp := mk_sp ins outs start in
      let r := connect_run sp comps in
      let w := r_world r in
      match r_out r with
      | OutOfFuel => ObsBad
      | out =>
          ObsComp (mk_cobs (r_events r)
                           (match out with Circular u => Some u | _ => None end)
                           (map snd (r_comps r))
                           (map (fun i => (in_exch (wi w i), in_data (wi w i))) (seq 0 (length ins)))
                           (map (fun o => (o_hinfo (wo w o), o_ipushed (wo w o), o_dpushed (wo w o), o_data (wo w o)))
                                (seq 0 (length outs))))
      end
  | CaseScript ins outs h start ops =>
      let sp := mk_sp ins outs start in
      ObsScript (script_run sp h (init_world sp) ops)
  end.

Definition oz_eqb := option_eqb Z.eqb.
Definition on_eqb := option_eqb Nat.eqb.
Definition ev_eqb (a b : nat * status) : bool := Nat.eqb (fst a) (fst b) && status_eqb (snd a) (snd b).
Definition entry_eqb (a b : option Z * nat) : bool := oz_eqb (fst a) (fst b) && Nat.eqb (snd a) (snd b).
Definition in_eqb (a b : option Z * option nat) : bool := oz_eqb (fst a) (fst b) && on_eqb (snd a) (snd b).
Definition out3_eqb (a b : option Z * bool * bool) : bool :=
  let '(h1, i1, d1) := a in let '(h2, i2, d2) := b in oz_eqb h1 h2 && Bool.eqb i1 i2 && Bool.eqb d1 d2.
Definition out4_eqb (a b : option Z * bool * bool * list (option Z * nat)) : bool :=
  out3_eqb (fst a) (fst b) && list_eqb entry_eqb (snd a) (snd b).

Definition sres_eqb (a b : sres) : bool :=
  match a, b with
  | RStatus s1 i1 o1, RStatus s2 i2 o2 => status_eqb s1 s2 && list_eqb in_eqb i1 i2 && list_eqb out3_eqb o1 o2
  | ROk, ROk | RNoData, RNoData | RMeta, RMeta => true
  | _, _ => false
  end.

Definition cobs_eqb (a b : comp_obs) : bool :=
  list_eqb ev_eqb (ob_events a) (ob_events b)
  && option_eqb (list_eqb Nat.eqb) (ob_circular a) (ob_circular b)
  && list_eqb status_eqb (ob_final a) (ob_final b)
  && list_eqb in_eqb (ob_ins a) (ob_ins b)
  && list_eqb out4_eqb (ob_outs a) (ob_outs b).

Definition c06_obs_eqb (a b : c06_obs) : bool :=
  match a, b with
  | ObsComp x, ObsComp y => cobs_eqb x y
  | ObsScript x, ObsScript y => list_eqb sres_eqb x y
  | _, _ => false
  end.

Definition c06_check (x : c06_case * c06_obs) : bool := c06_obs_eqb (c06_model (fst x)) (snd x).
