(** Shared executable model of numpy n-d arrays (as far as finam uses them).

    An array is a shape ([list nat], any rank, rank 0 = scalar) and an index function
    [list nat -> A].  Only the values at in-range multi-indices ([in_range]) are meaningful;
    equalities between arrays are therefore stated pointwise on in-range indices ([arr_eq]).

    Provided (all total and computable, stdlib only, no proofs in this file):
      - [size], [in_range] / [in_rangeb]
      - C / Fortran flattening of a multi-index: [flatC] [flatF] [flat o]
        and their inverses [unflatC] [unflatF] [unflat o]      (np.ravel_multi_index / unravel_index)
      - [indices o sh]   all multi-indices of a shape in memory order [o]
      - [ravel o a]      np.ravel(a, order)                     : list A
      - [of_list o sh l d]   np.reshape(l, sh, order)  of a flat vector (default [d] out of range)
      - [reshape o sh a d]   np.reshape(a, sh, order)  of an n-d array
      - [transpose]      np.transpose(a) without axes = full axis reversal
      - [flip ax]        np.flip(a, axis=ax)
      - [moveaxis_first_last] / [moveaxis_last_first]   np.moveaxis(a, 0, -1) / np.moveaxis(a, -1, 0)
      - [amap], [amap2]  element-wise operations
      - [compress keep l]          l.compress(keep)   (numpy semantics: keeps where [keep] is true)
      - [scatter keep vals d]      x = full(d); x[keep] = vals
      - [count_true]
    Lemmas are in FVP.Arr_proofs. *)
From Coq Require Import List Arith Bool.
Import ListNotations.

(** * Shapes and multi-indices *)

Definition shape := list nat.
Definition index := list nat.

Fixpoint size (sh : shape) : nat :=
  match sh with
  | [] => 1
  | n :: r => n * size r
  end.

(** [idx] is a valid multi-index of [sh]: same rank, every component below the axis length. *)
Fixpoint in_range (sh : shape) (idx : index) : Prop :=
  match sh, idx with
  | [], [] => True
  | n :: sh', i :: idx' => i < n /\ in_range sh' idx'
  | _, _ => False
  end.

Fixpoint in_rangeb (sh : shape) (idx : index) : bool :=
  match sh, idx with
  | [], [] => true
  | n :: sh', i :: idx' => (i <? n) && in_rangeb sh' idx'
  | _, _ => false
  end.

(** Memory order of numpy: C = last index fastest, F = first index fastest. *)
Inductive order := OC | OF.

Definition order_eqb (a b : order) : bool :=
  match a, b with OC, OC | OF, OF => true | _, _ => false end.

(** * Flattening *)

Fixpoint flatC (sh : shape) (idx : index) : nat :=
  match sh, idx with
  | _ :: sh', i :: idx' => i * size sh' + flatC sh' idx'
  | _, _ => 0
  end.

Fixpoint flatF (sh : shape) (idx : index) : nat :=
  match sh, idx with
  | n :: sh', i :: idx' => i + n * flatF sh' idx'
  | _, _ => 0
  end.

Fixpoint unflatC (sh : shape) (k : nat) : index :=
  match sh with
  | [] => []
  | _ :: sh' => (k / size sh') :: unflatC sh' (k mod size sh')
  end.

Fixpoint unflatF (sh : shape) (k : nat) : index :=
  match sh with
  | [] => []
  | n :: sh' => (k mod n) :: unflatF sh' (k / n)
  end.

Definition flat (o : order) : shape -> index -> nat :=
  match o with OC => flatC | OF => flatF end.
Definition unflat (o : order) : shape -> nat -> index :=
  match o with OC => unflatC | OF => unflatF end.

(** All multi-indices of [sh], listed in memory order [o]. *)
Definition indices (o : order) (sh : shape) : list index :=
  map (unflat o sh) (seq 0 (size sh)).

(** * Arrays *)

Record arr (A : Type) := mkarr { ashape : shape; aget : index -> A }.
Arguments mkarr {A} _ _.
Arguments ashape {A} _.
Arguments aget {A} _ _.

(** Pointwise equality on the meaningful part. *)
Definition arr_eq {A : Type} (a b : arr A) : Prop :=
  ashape a = ashape b /\ forall idx, in_range (ashape a) idx -> aget a idx = aget b idx.

(** np.ravel(a, order) *)
Definition ravel {A : Type} (o : order) (a : arr A) : list A :=
  map (aget a) (indices o (ashape a)).

(** np.reshape(l, sh, order) for a flat vector [l]; [d] is the (never meaningful) default. *)
Definition of_list {A : Type} (o : order) (sh : shape) (l : list A) (d : A) : arr A :=
  mkarr sh (fun idx => nth (flat o sh idx) l d).

(** np.reshape(a, sh, order) for an n-d array: read in order [o], write in order [o]. *)
Definition reshape {A : Type} (o : order) (sh : shape) (a : arr A) (d : A) : arr A :=
  of_list o sh (ravel o a) d.

Definition amap {A B : Type} (f : A -> B) (a : arr A) : arr B :=
  mkarr (ashape a) (fun idx => f (aget a idx)).

Definition amap2 {A B C : Type} (f : A -> B -> C) (a : arr A) (b : arr B) : arr C :=
  mkarr (ashape a) (fun idx => f (aget a idx) (aget b idx)).

(** np.transpose(a) (no axes argument): reverses the axes. *)
Definition transpose {A : Type} (a : arr A) : arr A :=
  mkarr (rev (ashape a)) (fun idx => aget a (rev idx)).

(** np.flip(a, axis=ax): index [i] along axis [ax] reads [n-1-i].  Axis out of range: identity. *)
Fixpoint flip_idx (ax : nat) (sh : shape) (idx : index) : index :=
  match sh, idx with
  | n :: sh', i :: idx' =>
      match ax with
      | O => (n - 1 - i) :: idx'
      | S ax' => i :: flip_idx ax' sh' idx'
      end
  | _, _ => idx
  end.

Definition flip {A : Type} (ax : nat) (a : arr A) : arr A :=
  mkarr (ashape a) (fun idx => aget a (flip_idx ax (ashape a) idx)).

(** Rotations of a list, used for np.moveaxis(a, 0, -1) and np.moveaxis(a, -1, 0). *)
Definition rot_left {X : Type} (l : list X) : list X :=
  match l with [] => [] | x :: r => r ++ [x] end.
Fixpoint rot_right_aux {X : Type} (x : X) (l : list X) : X * list X :=
  (* (last element of x::l, x::l without its last element) *)
  match l with
  | [] => (x, [])
  | y :: r => let (z, r') := rot_right_aux y r in (z, x :: r')
  end.
Definition rot_right {X : Type} (l : list X) : list X :=
  match l with [] => [] | x :: r => let (z, r') := rot_right_aux x r in z :: r' end.

(** np.moveaxis(a, 0, -1): result[i1..ik, i0] = a[i0, i1..ik] *)
Definition moveaxis_first_last {A : Type} (a : arr A) : arr A :=
  mkarr (rot_left (ashape a)) (fun idx => aget a (rot_right idx)).
(** np.moveaxis(a, -1, 0): result[ik, i0..] = a[i0.., ik] *)
Definition moveaxis_last_first {A : Type} (a : arr A) : arr A :=
  mkarr (rot_right (ashape a)) (fun idx => aget a (rot_left idx)).

(** * Boolean compress / scatter on flat vectors *)

(** [l.compress(keep)]: the entries of [l] at positions where [keep] is true (numpy truncates
    to the shorter of the two). *)
Fixpoint compress {A : Type} (keep : list bool) (l : list A) : list A :=
  match keep, l with
  | k :: keep', x :: l' => if k then x :: compress keep' l' else compress keep' l'
  | _, _ => []
  end.

(** [x = np.full(len(keep), d); x[keep] = vals]: positions where [keep] is true receive the
    entries of [vals] in turn, all others hold [d]. *)
Fixpoint scatter {A : Type} (keep : list bool) (vals : list A) (d : A) : list A :=
  match keep with
  | [] => []
  | true :: keep' =>
      match vals with
      | v :: vals' => v :: scatter keep' vals' d
      | [] => d :: scatter keep' [] d
      end
  | false :: keep' => d :: scatter keep' vals d
  end.

Fixpoint count_true (l : list bool) : nat :=
  match l with
  | [] => 0
  | b :: r => (if b then 1 else 0) + count_true r
  end.

(** * Decidable equality helpers for the correspondence checks *)

Fixpoint nat_list_eqb (a b : list nat) : bool :=
  match a, b with
  | [], [] => true
  | x :: a', y :: b' => Nat.eqb x y && nat_list_eqb a' b'
  | _, _ => false
  end.

Fixpoint bool_list_eqb (a b : list bool) : bool :=
  match a, b with
  | [], [] => true
  | x :: a', y :: b' => Bool.eqb x y && bool_list_eqb a' b'
  | _, _ => false
  end.

(** Comparison of two boolean arrays as numpy does it for equal shapes:
    [np.shape(a) == np.shape(b) and np.all(a == b)]. *)
Definition barr_eqb (a b : arr bool) : bool :=
  nat_list_eqb (ashape a) (ashape b) && bool_list_eqb (ravel OC a) (ravel OC b).
