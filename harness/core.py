"""Shared machinery of ./check: Coq build / proof audit, correspondence run,
monitors, violation reporting, known findings, evidence files.

A property module (harness/props/cXX.py) provides

  ID, TITLE                  property id / short text
  COQ_IMPORTS                text placed at the top of generated case files
  COQ_CHECK                  Gallina function  (case * obs) -> bool   (model obs == impl obs)
  COQ_MODEL_OBS (optional)   Gallina function  case -> obs  (for replay files)
  RULE                       text: generator + non-triviality rule
  generate(rng, tier)        -> list of JSON-able cases (corpus first)
  run_impl(case)             -> JSON-able observation of the REAL finam
  coq_case(case, obs), coq_obs(case, obs)  -> Gallina terms (the case term may be derived from the
                             op sequence recorded at the API boundary, which is part of obs)
  monitor(case, obs)         -> None | str  (property predicate on the implementation's own trace)
  nontrivial(case, obs)      -> bool
  classifiers (optional)     dict name -> predicate(case, obs, failure) for known findings
  TRUSTED (optional)         extra trusted-base strings
"""
import concurrent.futures as cf
import hashlib
import json
import multiprocessing as mp
import os
import random
import re
import shutil
import signal
import subprocess
import sys
import tempfile
import time
import traceback
from pathlib import Path

VERIF = Path(__file__).resolve().parent.parent
COQ = VERIF / "coq"
CASES = COQ / "cases"
REPLAYS = VERIF / "replays"
EVIDENCE = VERIF / "evidence"
REPO = Path(os.environ.get("VERIF_REPO", "/repo"))
NPROC = int(os.environ.get("VERIF_JOBS", "16"))

COQ_FLAGS = ["-Q", "theories", "FV", "-Q", "proofs", "FVP", "-Q", "properties", "FVProps"]

FORBIDDEN = re.compile(
    r"\b(Admitted|admit|Axiom|Axioms|Parameter|Parameters|Conjecture|Conjectures|Hypothesis|Hypotheses|Variable|Variables"
    r"|Unset\s+Guard|Unset\s+Positivity|Unset\s+Universe|Unset\s+Elimination|Set\s+Type\s+In\s+Type"
    r"|bypass_check|Admit\s+Obligations|type-in-type|impredicative-set|native_compute)\b"
)
SECTION_OK = re.compile(r"\b(Variable|Variables|Hypothesis|Hypotheses)\b")

COMMON_TRUSTED = [
    "Coq 8.16.1 kernel incl. the vm_compute virtual machine (no native_compute)",
    "hand-written Gallina models under coq/theories (modelled, not extracted from the source)",
    "correspondence check: harness generators, implementation drivers, Gallina emitter harness/coqgen.py, "
    "Base.mismatches, run against PYTHONPATH=/repo/src on every run",
    "Python 3.12 / numpy / pint / scipy as installed in /venv",
]


def log(*a):
    print(*a, file=sys.stderr, flush=True)


# ----------------------------------------------------------------------------
# Coq side
# ----------------------------------------------------------------------------
def gen_coqproject():
    """_CoqProject lists every .v under theories/ proofs/ properties/ (regenerated, atomic)."""
    lines = ["-Q theories FV", "-Q proofs FVP", "-Q properties FVProps"]
    for d in ("theories", "proofs", "properties"):
        lines += sorted(f"{d}/{p.name}" for p in (COQ / d).glob("*.v") if not p.name.endswith("_audit.v"))
    txt = "\n".join(lines) + "\n"
    proj = COQ / "_CoqProject"
    if not proj.exists() or proj.read_text() != txt:
        tmp = COQ / f"._CoqProject.{os.getpid()}"
        tmp.write_text(txt)
        os.replace(tmp, proj)
    return txt


def ensure_built(pid=None):
    """Full .vo build (no -vos/-vok) of properties/<pid>.v and everything it depends on
    (everything when pid is None).  No-op when up to date.  One Makefile per property so that
    concurrent checks do not share a dependency file."""
    gen_coqproject()
    mkname = f"Makefile.{pid}" if pid else "Makefile"
    subprocess.run(
        ["coq_makefile", "-f", "_CoqProject", "-o", mkname],
        cwd=COQ, check=True, stdout=subprocess.DEVNULL, stderr=subprocess.DEVNULL,
    )
    target = [f"properties/{pid}.vo"] if pid else []
    r = _run_retry(["timeout", "3000", "make", "-f", mkname, "-j", str(NPROC), *target])
    return r.returncode == 0, r.stdout


def dep_closure(pid):
    """Source files properties/<pid>.v depends on (through From FV/FVP/FVProps Require ...)."""
    dirs = {"FV": "theories", "FVP": "proofs", "FVProps": "properties"}
    todo = [COQ / "properties" / f"{pid}.v"]
    seen = []
    while todo:
        f = todo.pop()
        if f in seen or not f.exists():
            continue
        seen.append(f)
        txt = re.sub(r"\(\*.*?\*\)", "", f.read_text(), flags=re.S)
        for m in re.finditer(r"From\s+(FV|FVP|FVProps)\s+Require\s+(?:Import|Export)?\s*([^.]*)\.", txt):
            for name in m.group(2).split():
                todo.append(COQ / dirs[m.group(1)] / f"{name}.v")
    return seen


def grep_gate(pid=None):
    """Reject declared axioms / admitted proofs / disabled checks in every file the property depends on
    (the whole development when pid is None)."""
    bad = []
    files = sorted(dep_closure(pid)) if pid else sorted(p for p in COQ.rglob("*.v") if CASES not in p.parents)
    for p in files:
        depth = 0
        txt = re.sub(r"\(\*.*?\*\)", "", p.read_text(), flags=re.S)
        for ln, line in enumerate(txt.splitlines(), 1):
            if re.match(r"\s*Section\b", line):
                depth += 1
            if re.match(r"\s*End\b", line) and depth > 0:
                depth -= 1
            m = FORBIDDEN.search(line)
            if m:
                if depth > 0 and SECTION_OK.fullmatch(m.group(1)):
                    continue
                bad.append(f"{p.relative_to(VERIF)}:{ln}: {line.strip()}")
    return bad


def audit_property_file(pid):
    """Re-compile properties/<pid>.v, return (theorems, assumptions per theorem, ok, output)."""
    f = COQ / "properties" / f"{pid}.v"
    src = f.read_text()
    theorems = re.findall(r"^\s*Theorem\s+(\w+)", src, flags=re.M)
    printed = re.findall(r"^\s*Print Assumptions\s+(\w+)\s*\.", src, flags=re.M)
    with tempfile.TemporaryDirectory(prefix="verif_audit_") as td:
        tmpv = Path(td) / f"{pid}_audit.v"
        tmpv.write_text(src)
        r = _run_retry(["timeout", "600", "coqc", *COQ_FLAGS, str(tmpv)])
    out = r.stdout
    blocks = []
    # each Print Assumptions prints either "Closed under the global context" or "Axioms:\n..."
    cur = None
    for line in out.splitlines():
        if line.startswith("Closed under the global context"):
            blocks.append([])
            cur = None
        elif line.startswith("Axioms:"):
            cur = []
            blocks.append(cur)
        elif cur is not None:
            # everything Coq lists under "Axioms:" counts: "name : type" entries (continuation lines of a type are
            # indented) as well as sentences such as "x is assumed to be positive." / "x relies on an unsafe hierarchy."
            if line.strip() == "":
                continue
            if re.match(r"^\S+\s*:", line) or not line.startswith(" "):
                cur.append(line.strip())
    assumptions = {}
    for name, blk in zip(printed, blocks):
        assumptions[name] = blk
    ok = r.returncode == 0 and set(theorems) <= set(assumptions)
    return theorems, assumptions, ok, out


def run_coqchk(pid):
    """Independent re-check of the compiled property file and everything it depends on (thorough tier)."""
    r = subprocess.run(
        ["timeout", "3000", "coqchk", "-silent", "-o", *COQ_FLAGS, f"FVProps.{pid}"],
        cwd=COQ, stdout=subprocess.PIPE, stderr=subprocess.STDOUT, text=True,
    )
    out = r.stdout
    m = re.search(r"\* Axioms:(.*?)\n\s*\n\* Constants", out, flags=re.S)
    axioms = None
    if m:
        body = m.group(1).strip()
        axioms = [] if body == "<none>" else [l.strip() for l in body.splitlines() if l.strip()]
    unsafe = [k for k in ("type-in-type", "unsafe (co)fixpoints", "positivity is assumed")
              if re.search(re.escape(k) + r":\s*(?!<none>)\S", out)]
    return {"ok": r.returncode == 0 and axioms is not None and not unsafe, "axioms": axioms, "unsafe": unsafe,
            "tail": out[-600:] if r.returncode != 0 else ""}


def _parse_nat_list(out):
    m = re.search(r"=\s*\[(.*?)\]\s*:\s*list nat", out, flags=re.S)
    if not m:
        return None
    body = m.group(1).strip()
    if not body:
        return []
    return [int(x) for x in re.findall(r"\d+", body)]


def _run_retry(cmd, tries=3):
    """Runs a Coq tool.  A non-zero exit WITHOUT a Coq error message ("Error:") is a process that was killed or timed
    out (memory pressure, overloaded machine), not a verdict of the kernel: it is run again (up to [tries] times, alone).
    A Coq error is deterministic and is never retried."""
    import time as _time
    r = None
    for k in range(tries):
        r = subprocess.run(cmd, cwd=COQ, stdout=subprocess.PIPE, stderr=subprocess.STDOUT, text=True)
        if r.returncode == 0 or "Error:" in r.stdout:
            break
        _time.sleep(2 + 5 * k)
    return r


def _coqc_file(path):
    r = _run_retry(["timeout", "1200", "coqc", *COQ_FLAGS, str(path)])
    return r.returncode, r.stdout


def model_applies(mod, case):
    """Cases outside the domain of the Coq model (calendar arithmetic, finam's own components ...) are run on the
    implementation and judged by the property monitor only; they are counted separately in the evidence."""
    f = getattr(mod, "model_applies", None)
    return True if f is None else bool(f(case))


def run_correspondence(mod, cases, obss, shard=300):
    """Write case files, evaluate the model inside Coq, return (mismatch indices, errors)."""
    d = CASES / mod.ID
    if d.exists():
        shutil.rmtree(d)
    d.mkdir(parents=True)
    files = []
    shard = getattr(mod, "SHARD", shard)
    # cases whose implementation run failed inside the harness are not evaluated by the model: they are
    # reported as harness errors (and count as disagreements) by check_property
    live = [i for i in range(len(cases)) if not (isinstance(obss[i], dict) and "harness_error" in obss[i])
            and model_applies(mod, cases[i])]
    for k in range(0, len(live), shard):
        idxs = live[k:k + shard]
        terms = []
        for i in idxs:
            terms.append("(" + mod.coq_case(cases[i], obss[i]) + ", " + mod.coq_obs(cases[i], obss[i]) + ")")
        p = d / f"cases_{mod.ID}_{k // shard}.v"
        p.write_text(
            mod.COQ_IMPORTS
            + "\nFrom Coq Require Import List ZArith QArith String.\nImport ListNotations.\n"
            + "Definition cases := [\n  "
            + ";\n  ".join(terms)
            + "\n].\n"
            + f"Eval vm_compute in (mismatches {mod.COQ_CHECK} cases).\n"
        )
        files.append((p, idxs))

    def run_file(p):
        rc, out = _coqc_file(p)
        if rc != 0 and "Cannot infer" in out:
            # every case of the shard has an empty list at some polymorphic position: give Coq the expected type by
            # passing the literal to the check directly
            txt = p.read_text().replace("Definition cases := [", f"Eval vm_compute in (mismatches {mod.COQ_CHECK} [", 1)
            txt = txt.replace(f"\n].\nEval vm_compute in (mismatches {mod.COQ_CHECK} cases).\n", "\n]).\n", 1)
            p.write_text(txt)
            rc, out = _coqc_file(p)
        return rc, out

    mism, errors = [], []
    with cf.ThreadPoolExecutor(max_workers=NPROC) as ex:
        futs = {ex.submit(run_file, p): (p, idxs) for p, idxs in files}
        for fu in cf.as_completed(futs):
            p, idxs = futs[fu]
            rc, out = fu.result()
            lst = _parse_nat_list(out) if rc == 0 else None
            if lst is None:
                errors.append((str(p), out[-2000:]))
            else:
                mism.extend(idxs[j] for j in lst)
    if not errors:
        # the generated case files are large in the thorough tier (gigabytes over all properties): kept only when one
        # of them could not be evaluated (the replay then names it)
        shutil.rmtree(d, ignore_errors=True)
    return sorted(mism), errors


def model_obs_text(mod, case, obs=None):
    """Ask Coq for the model's observation of one case (text, for replay files)."""
    fn = getattr(mod, "COQ_MODEL_OBS", None)
    if not fn or not model_applies(mod, case):
        return None
    d = CASES / mod.ID
    d.mkdir(parents=True, exist_ok=True)
    p = d / f"detail_{mod.ID}_{os.getpid()}.v"
    p.write_text(
        mod.COQ_IMPORTS
        + "\nFrom Coq Require Import List ZArith QArith String.\nImport ListNotations.\n"
        + f"Eval vm_compute in ({fn} {mod.coq_case(case, obs)}).\n"
    )
    rc, out = _coqc_file(p)
    out = re.sub(r"\s+", " ", out).strip()
    return out[:4000]


# ----------------------------------------------------------------------------
# implementation side
# ----------------------------------------------------------------------------
_MOD = None


class CaseTimeout(Exception):
    pass


def _alarm(_sig, _frm):
    raise CaseTimeout()


def _worker_init(modname):
    global _MOD
    import importlib

    sys.setrecursionlimit(3000)
    _MOD = importlib.import_module(modname)
    signal.signal(signal.SIGALRM, _alarm)


def _worker_run_slow(case):
    return _worker_run(case, scale=4)


def _worker_run(case, scale=1):
    tmo = getattr(_MOD, "CASE_TIMEOUT", 60) * scale
    signal.alarm(tmo)
    try:
        return _MOD.run_impl(case)
    except CaseTimeout:
        return {"harness_error": "Hang"}
    except RecursionError:
        return {"harness_error": "RecursionError"}
    except BaseException as e:  # the driver itself failed: reported, never silently dropped
        return {"harness_error": f"{type(e).__name__}: {e}", "tb": traceback.format_exc()[-1500:]}
    finally:
        signal.alarm(0)


def run_impl_all(mod, cases):
    ctx = mp.get_context("fork")
    n = min(NPROC, max(1, len(cases)))
    with ctx.Pool(n, initializer=_worker_init, initargs=(mod.__name__,)) as pool:
        obss = pool.map(_worker_run, cases, chunksize=max(1, len(cases) // (n * 8)))
    # a case that ran into the wall-clock limit is run again, alone and with four times the limit: an overloaded machine
    # is not a hang of the implementation (a real hang hangs again and is reported)
    slow = [i for i, o in enumerate(obss) if isinstance(o, dict) and o.get("harness_error") == "Hang"]
    if slow:
        with ctx.Pool(min(2, len(slow)), initializer=_worker_init, initargs=(mod.__name__,)) as pool:
            for i, o in zip(slow, pool.map(_worker_run_slow, [cases[i] for i in slow], chunksize=1)):
                obss[i] = o
    return obss


# ----------------------------------------------------------------------------
# known findings
# ----------------------------------------------------------------------------
def load_known(pid):
    p = VERIF / "known_findings.json"
    if not p.exists():
        return []
    data = json.loads(p.read_text())
    return [e for e in data if e.get("property") == pid and e.get("status") == "known"]


# ----------------------------------------------------------------------------
# main driver for one property
# ----------------------------------------------------------------------------
def _monitor(mod, case, obs):
    """the property monitor; a monitor that raises is itself a failure of the check (never a traceback)"""
    try:
        return mod.monitor(case, obs)
    except Exception as e:  # noqa
        return f"monitor raised {type(e).__name__}: {e}"


def canonical_hash(x):
    return hashlib.sha1(json.dumps(x, sort_keys=True, default=str).encode()).hexdigest()


def _clip(x, limit=1000):
    """Observations of a run-away implementation can hold millions of events; the replay keeps the case (which
    reproduces everything) in full and clips over-long recorded lists."""
    if isinstance(x, dict):
        return {k: (_clip(v, limit) if k != "case" else v) for k, v in x.items()}
    if isinstance(x, list):
        if len(x) > limit:
            return [_clip(v, limit) for v in x[: limit // 2]] + [f"... {len(x) - limit} entries clipped ..."] + \
                   [_clip(v, limit) for v in x[-(limit // 2):]]
        return [_clip(v, limit) for v in x]
    if isinstance(x, str) and len(x) > 20 * limit:
        return x[: 10 * limit] + f"... {len(x) - 20 * limit} characters clipped ..." + x[-10 * limit:]
    return x


def write_replay(pid, kind, payload):
    d = REPLAYS / pid
    d.mkdir(parents=True, exist_ok=True)
    payload = _clip(payload)
    h = canonical_hash(payload)[:12]
    p = d / f"{kind}_{h}.json"
    p.write_text(json.dumps(payload, indent=1, default=str))
    return p


def check_property(mod, tier, seed, replay=None):
    t0 = time.time()
    pid = mod.ID
    violations = []  # (replay_path, suffix)
    known_lines = []
    notes = []

    ok_build, build_out = ensure_built(pid)
    bad = grep_gate(pid)
    if ok_build:
        theorems, assumptions, ok_audit, audit_out = audit_property_file(pid)
    else:
        src = (COQ / "properties" / f"{pid}.v").read_text() if (COQ / "properties" / f"{pid}.v").exists() else ""
        theorems, assumptions, ok_audit, audit_out = re.findall(r"^\s*Theorem\s+(\w+)", src, flags=re.M), {}, False, build_out
    allowed_axioms = set(getattr(mod, "ALLOWED_AXIOMS", []))
    discharged = 0
    axioms_seen = set()
    for th in theorems:
        ax = assumptions.get(th)
        if ax is None:
            continue
        names = {a.split(":")[0].strip() for a in ax}
        axioms_seen |= names
        if names <= allowed_axioms:
            discharged += 1
    proof_ok = ok_build and ok_audit and not bad and discharged == len(theorems) and len(theorems) > 0
    chk = None
    if tier == "thorough" and ok_build and not replay:
        chk = run_coqchk(pid)
        if not chk["ok"] or not set(a.split(":")[0].strip() for a in (chk["axioms"] or [])) <= allowed_axioms:
            proof_ok = False

    if replay:
        data = json.loads(Path(replay).read_text())
        case = data.get("case")
        if case is None:
            # a proof-broken replay names theorems, not an input: report the state of the proofs on this tree
            print("replay file without a case (%s): %s" % (data.get("kind"), data.get("relation_or_theorem")))
            print("build:", "ok" if ok_build else "FAILED", "| forbidden constructs:", bad or "none",
                  "| theorems closed: %d/%d" % (discharged, len(theorems)))
            if not proof_ok:
                print((audit_out or build_out)[-1500:])
            return 0 if proof_ok else 1
        obs = _single_impl(mod, case)
        print("case:", json.dumps(case, default=str))
        print("implementation observation:", json.dumps(obs, default=str))
        if ok_build and case is not None:
            print("model observation:", model_obs_text(mod, case, obs))
            mm, errs = run_correspondence(mod, [case], [obs])
            print("correspondence:", "MISMATCH" if mm or errs else "agree")
        else:
            mm, errs = [], []
        fail = _monitor(mod, case, obs)
        print("property predicate on implementation trace:", fail or "holds")
        return 1 if (fail or mm or errs) else 0

    rng = random.Random(seed)
    cases = mod.generate(rng, tier)
    obss = run_impl_all(mod, cases)
    t_impl = time.time() - t0

    harness_errors = [i for i, o in enumerate(obss) if isinstance(o, dict) and "harness_error" in o]
    mism, coq_errors = ([], [("build", build_out[-3000:])]) if not ok_build else run_correspondence(mod, cases, obss)

    known = load_known(pid)
    classifiers = getattr(mod, "classifiers", {})

    def is_known(case, obs, failure):
        for e in known:
            f = classifiers.get(e.get("classifier"))
            try:
                if f and f(case, obs, failure):
                    return e
            except Exception:  # noqa: a classifier that cannot read the observation does not recognise it
                continue
        return None

    mon_fail = []
    nontriv = set()
    for i, (c, o) in enumerate(zip(cases, obss)):
        if i in harness_errors:
            continue
        f = _monitor(mod, c, o)
        if f:
            mon_fail.append((i, f))
        try:
            if mod.nontrivial(c, o):
                nontriv.add(canonical_hash(c))
        except Exception:
            pass

    reported_known = set()
    # 1. concrete property failures on the implementation
    seen_kinds = set()
    for i, f in mon_fail:
        e = is_known(cases[i], obss[i], f)
        if e:
            if e["id"] not in reported_known:
                reported_known.add(e["id"])
                known_lines.append(f"KNOWN-FINDING: property={pid} {e['id']}: {e['what_fails']}")
            continue
        kind = re.sub(r"[0-9]+", "#", f)[:80]
        if kind in seen_kinds and len(violations) >= 3:
            continue
        seen_kinds.add(kind)
        case_s, obs_s = shrink(mod, cases[i], obss[i])
        p = write_replay(pid, "counterexample", {
            "property": pid, "kind": "counterexample", "seed": seed, "case": case_s,
            "impl_obs": obs_s, "model_obs": model_obs_text(mod, case_s, obs_s) if ok_build else None,
            "predicate_verdict": _monitor(mod, case_s, obs_s), "shrunk_from": cases[i] if case_s != cases[i] else None,
            "correspondence_mismatch": i in mism,
        })
        violations.append((p, ""))
        if len(violations) >= 5:
            break

    # 2. broken correspondence / proof without a concrete property failure
    mon_idx = {i for i, _ in mon_fail}
    unexplained = [i for i in mism if i not in mon_idx]
    unexplained += [i for i in harness_errors if i not in mon_idx and i not in unexplained]
    structural_break = (not proof_ok) or bool(coq_errors)
    if (unexplained or structural_break) and not violations:
        # search for a failing input with a larger budget (monitor only)
        found = None
        if hasattr(mod, "search"):
            found = mod.search(random.Random(seed + 7919), tier)
        else:
            rng2 = random.Random(seed + 7919)
            budget_end = time.time() + (120 if tier == "quick" else 600)
            for rnd in range(6):
                if time.time() > budget_end:
                    break
                cs = mod.generate(rng2, tier)
                os_ = run_impl_all(mod, cs)
                for c, o in zip(cs, os_):
                    if isinstance(o, dict) and "harness_error" in o:
                        continue
                    f = _monitor(mod, c, o)
                    if f and not is_known(c, o, f):
                        found = (c, o, f)
                        break
                if found:
                    break
        if found:
            c, o, f = found
            c, o = shrink(mod, c, o)
            p = write_replay(pid, "counterexample", {
                "property": pid, "kind": "counterexample", "seed": seed, "case": c, "impl_obs": o,
                "model_obs": model_obs_text(mod, c, o) if ok_build else None,
                "predicate_verdict": _monitor(mod, c, o), "found_by": "search after broken correspondence/proof",
            })
            violations.append((p, ""))
        else:
            if unexplained:
                written = 0
                for i in unexplained:
                    e = is_known(cases[i], obss[i], "correspondence")
                    if e:
                        if e["id"] not in reported_known:
                            reported_known.add(e["id"])
                            known_lines.append(f"KNOWN-FINDING: property={pid} {e['id']}: {e['what_fails']}")
                        continue
                    if written >= 3:
                        continue
                    written += 1
                    c, o = shrink(mod, cases[i], obss[i], by_mismatch=True) if i not in harness_errors else (cases[i], obss[i])
                    p = write_replay(pid, "correspondence-broken", {
                        "property": pid, "kind": "correspondence-broken",
                        "relation_or_theorem": f"{mod.COQ_CHECK} (model observation = implementation observation)",
                        "seed": seed, "case": c, "impl_obs": o,
                        "model_obs": model_obs_text(mod, c, o) if ok_build else None,
                        "predicate_verdict": None, "mismatching_cases_total": len(unexplained),
                    })
                    violations.append((p, " no-failing-input-found"))
            if structural_break and not violations:
                # never masked by known findings among the mismatches: a proof or a case file that does not check
                p = write_replay(pid, "proof-broken", {
                    "property": pid, "kind": "proof-broken", "case": None,
                    "relation_or_theorem": "properties/%s.v: %s" % (pid, ", ".join(theorems) or "(build failed)"),
                    "build_ok": ok_build, "audit_ok": ok_audit, "forbidden_constructs": bad,
                    "axioms_seen": sorted(axioms_seen), "coq_errors": coq_errors[:3],
                    "output_tail": (audit_out or build_out)[-3000:],
                })
                violations.append((p, " no-failing-input-found"))

    wall = time.time() - t0
    samples = []
    for i in list(range(min(2, len(cases)))) + ([len(cases) - 1] if len(cases) > 2 else []):
        samples.append({"case": cases[i], "impl_obs": obss[i]})
    try:
        dist = mod.distribution(cases, obss) if hasattr(mod, "distribution") else {}
    except Exception as e:  # noqa
        dist = {"distribution_error": f"{type(e).__name__}: {e}"}
    ev = {
        "property_id": pid,
        "tier": tier,
        "seed": seed,
        "level": "proof",
        "coverage": {
            "obligations": len(theorems),
            "discharged": discharged,
            "checker_cmd": "make -C /verif/coq (coqc 8.16.1, full .vo build) + coqc properties/%s.v with Print Assumptions under every theorem; "
                           "correspondence: coqc on generated coq/cases/%s/cases_*.v (Eval vm_compute in Base.mismatches ...)" % (pid, pid),
            "trusted_base": COMMON_TRUSTED + list(getattr(mod, "TRUSTED", []))
                            + ["axioms reported by Print Assumptions: " + (", ".join(sorted(axioms_seen)) or "none (every theorem: Closed under the global context)")],
            "theorems": {th: ("closed" if assumptions.get(th) == [] else assumptions.get(th, "NOT CHECKED")) for th in theorems},
            "evaluations": len(cases),
            "distinct_nontrivial": len(nontriv),
            "rule": mod.RULE,
            "traces_validated_against_impl": len([c for c in cases if model_applies(mod, c)]) - len(mism)
                                             - len([i for i in harness_errors if i not in mism and model_applies(mod, cases[i])]),
            "cases_judged_by_the_property_monitor_only": len([c for c in cases if not model_applies(mod, c)]),
            "correspondence_mismatches": len(mism),
            "monitor_failures": len(mon_fail),
            "harness_errors": len(harness_errors),
            "distribution": dist,
            "samples": samples,
            "exhaustive": False,
            "impl_wall_s": round(t_impl, 2),
            "coqchk": chk if chk is not None else "not run in the quick tier",
        },
        "assumptions": list(getattr(mod, "ASSUMPTIONS", [])),
        "wall_s": round(wall, 2),
        "violations": len(violations),
    }
    if discharged == 0:
        # the proof-level keys require at least one discharged obligation: report the count under another name and let
        # the exploration-style counts stand (the run is a failed one: see violations)
        ev["coverage"].pop("discharged")
        ev["coverage"]["obligations_discharged"] = 0
        ev["coverage"]["explanation"] = "the Coq development did not build / no theorem was accepted on this run"
    if hasattr(mod, "extra_evidence"):
        try:
            ev["coverage"].update(mod.extra_evidence(cases, obss))
        except Exception as e:  # noqa
            ev["coverage"]["extra_evidence_error"] = f"{type(e).__name__}: {e}"
    # evidence belongs to /repo itself: runs against a scratch copy (mutation experiments) write elsewhere
    evdir = EVIDENCE if str(REPO) == "/repo" else (VERIF / "work" / "evidence_scratch")
    evdir.mkdir(parents=True, exist_ok=True)
    (evdir / f"{pid}.json").write_text(json.dumps(ev, indent=1, default=str))

    for l in known_lines:
        print(l)
    for p, suffix in violations:
        print(f"VIOLATION property={pid} replay={p}{suffix}")
    log(f"[{pid}] tier={tier} seed={seed} cases={len(cases)} nontrivial={len(nontriv)} mismatches={len(mism)} "
        f"monitor_failures={len(mon_fail)} harness_errors={len(harness_errors)} theorems={discharged}/{len(theorems)} "
        f"wall={wall:.1f}s")
    if harness_errors[:1]:
        log("first harness error:", json.dumps(obss[harness_errors[0]])[:1500])
    if coq_errors[:1]:
        log("coq error:", coq_errors[0][1][-1500:])
    return 1 if violations else 0


def _single_impl(mod, case):
    ctx = mp.get_context("fork")
    with ctx.Pool(1, initializer=_worker_init, initargs=(mod.__name__,)) as pool:
        return pool.map(_worker_run, [case])[0]


def shrink(mod, case, obs, by_mismatch=False, max_steps=40):
    """Greedy delta debugging with the module's candidate generator (if any)."""
    cand = getattr(mod, "shrink_candidates", None)
    if cand is None:
        return case, obs

    def failing(c, o):
        if isinstance(o, dict) and "harness_error" in o:
            return False
        if by_mismatch:
            mm, errs = run_correspondence(mod, [c], [o])
            return bool(mm)
        return bool(_monitor(mod, c, o))

    steps = 0
    improved = True
    while improved and steps < max_steps:
        improved = False
        for c2 in cand(case):
            steps += 1
            if steps > max_steps:
                break
            try:
                o2 = _single_impl(mod, c2)
            except Exception:
                continue
            if failing(c2, o2):
                case, obs = c2, o2
                improved = True
                break
    return case, obs



def crash_report(pid, tier, seed, exc_text):
    """The harness itself (or the import of the implementation) raised: the correspondence could not be established.
    Reported as a violation without a failing input; the replay file holds the traceback."""
    p = write_replay(pid, "correspondence-broken", {
        "property": pid, "kind": "correspondence-broken", "case": None,
        "relation_or_theorem": "the correspondence harness of %s could not run on this tree (exception below): "
                               "model observation = implementation observation is not established" % pid,
        "seed": seed, "traceback": exc_text[-6000:],
    })
    try:
        evdir = EVIDENCE if str(REPO) == "/repo" else (VERIF / "work" / "evidence_scratch")
        evdir.mkdir(parents=True, exist_ok=True)
        (evdir / f"{pid}.json").write_text(json.dumps({
            "property_id": pid, "tier": tier, "seed": seed, "level": "proof",
            "coverage": {"evaluations": 0, "distinct_nontrivial": 0, "rule": "the run crashed before any case was judged",
                         "samples": [], "explanation": exc_text[-1500:]},
            "wall_s": 0.0, "violations": 1}, indent=1))
    except Exception:  # noqa
        pass
    print(f"VIOLATION property={pid} replay={p} no-failing-input-found")
    return 1
