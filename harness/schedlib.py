"""Harness compositions for the scheduler properties (C01-C05, C13 driver side, C20 part 5).

A case is a JSON-able description of a composition:

  {"comps": [ {"kind": "T", "start": us, "steps": [us, ...], "initpull": bool, "nout": k,
               "inputs": [ {"src": [comp_index, out_index], "chain": [adapter, ...]} , ...]},
              {"kind": "P", "nout": k, "inputs": [...]} , ...],      # listing order = list order
   "end": us}

adapter (listed from the INPUT towards the source, i.e. pull order):
  ["pass"] | ["fixed", d_us] | ["topull", n, extra_us] | ["topush"] | ["buf", "next"|"prev"|"linear"|"step"|"avg"|"sum"]

Time components ("T") advance by steps[k mod len] at their k-th update, pull every input at the
new time and publish every output at the new time.  Pull-based components ("P") pull every
one of their inputs at the requested time when one of their outputs is asked.

run_case executes the REAL finam (Composition.run) and records the event trace at the
component/slot boundaries:
  ["U", c, t]        component c updated, new time t
  ["P", c, i, t]     input i of component c is pulled for time t
  ["S", c, o, t]     output o of component c is asked for time t by a final input (not by a
                     push-based adapter refreshing its buffer); for pull-based c: callback called
  ["B", c, i, t]     the pull of input i of c ended at a push-based (buffering) adapter, asked for t
"""
from datetime import timedelta

from . import fin
from .fin import fm, T, D, us_of, err_class

DAY = 86400 * 10**6


def mk_adapter(a):
    k = a[0]
    if k == "pass":
        return fm.adapters.Scale(1.0)
    if k == "fixed":
        return fm.adapters.DelayFixed(D(a[1]))
    if k == "calfixed":
        # a CALENDAR delay (DelayFixed accepts dateutil relativedelta): outside the integer-time Coq model
        from dateutil.relativedelta import relativedelta
        return fm.adapters.DelayFixed(relativedelta(months=a[1]))
    if k == "topull":
        if a[2] == 0:
            return fm.adapters.DelayToPull(steps=a[1])      # the constructor's own default for the additional delay
        return fm.adapters.DelayToPull(steps=a[1], additional_delay=D(a[2]))
    if k == "topush":
        return fm.adapters.DelayToPush()
    if k == "buf":
        return {
            "next": fm.adapters.NextTime, "prev": fm.adapters.PreviousTime, "linear": fm.adapters.LinearTime,
            "step": fm.adapters.StepTime, "avg": fm.adapters.AvgOverTime, "sum": fm.adapters.SumOverTime,
        }[a[1]]()
    raise ValueError(a)


class TComp(fm.TimeComponent):
    def __init__(self, idx, spec, events, t0):
        super().__init__()
        self._name = f"C{idx}"
        self.idx = idx
        self.spec = spec
        self.events = events
        # "lazytime": the component learns its starting time only in the connect phase (as finam's CsvReader does when
        # it reads its first row); until then TimeComponent.time is None and its outputs have no info
        self._time = None if spec.get("lazytime") else T(spec["start"])
        self.cnt = 0
        self.calls = []
        self.received = []  # (input index, request us, delivered value)

    def _step(self):
        st = self.spec["steps"]
        by = self.spec.get("step_by")
        # "step_by": the step length is switched from OUTSIDE (by the update count of another component), i.e. it can
        # change between two updates of this component; the announced next time must follow
        k = self.cnt if by is None else self.peers[by].cnt
        return D(st[k % len(st)])

    def _next_time(self):
        # the SDK hook: TimeComponent.next_time (sdk/component.py) calls it
        return self.time + self._step()

    def _initialize(self):
        self.calls.append("I")
        for i, ispec in enumerate(self.spec["inputs"]):
            if ispec.get("cbin"):
                # a push-based slot (sdk CallbackInput: notified of every publication) that the component ALSO samples
                # at its step times, as finam's DebugPushConsumer / ScheduleLogger pull theirs; for the driver it is an
                # input like any other
                self.inputs.add(io=fm.CallbackInput(callback=self._notified, name=f"i{i}", time=self.time,
                                                    grid=fm.NoGrid(), units=None, **ispec.get("meta", {})))
                continue
            if self.spec.get("lazyin"):
                # "lazyin": the input is declared without metadata; the requested info is handed to the FIRST try_connect
                # call only (ConnectHelper documents that it keeps what could not be exchanged yet for the later calls)
                self.inputs.add(name=f"i{i}")
                continue
            self.inputs.add(name=f"i{i}", time=self.time, grid=fm.NoGrid(), units=None, **ispec.get("meta", {}))
        for o in range(self.spec["nout"]):
            if self.spec.get("lazytime"):
                self.outputs.add(name=f"o{o}")
                continue
            self.outputs.add(name=f"o{o}", time=self.time, grid=fm.NoGrid(), units="")
        for o in range(self.spec["nout"], self.spec["nout"] + self.spec.get("nstatic", 0)):
            # static outputs: published once at connect, indices nout .. nout+nstatic-1
            self.outputs.add(name=f"o{o}", static=True, time=None, grid=fm.NoGrid(), units="")
        pull = [f"i{i}" for i, _ in enumerate(self.spec["inputs"])] if self.spec.get("initpull") else []
        self.create_connector(pull_data=pull)

    def _notified(self, caller, time):
        self.notified = getattr(self, "notified", 0) + 1

    def value(self):
        # payload identifies (component, update count)
        return float(self.spec.get("uid", self.idx) * 100000 + self.cnt)

    def _connect(self, start_time):
        self.calls.append("C")
        nall = self.spec["nout"] + self.spec.get("nstatic", 0)
        infos = {}
        if self.spec.get("lazytime"):
            if self._time is None:
                self._time = T(self.spec["start"])
            infos = {f"o{o}": fm.Info(time=self.time, grid=fm.NoGrid(), units="") for o in range(self.spec["nout"])}
        push = {f"o{o}": self.value() + 0.0 * o for o in range(nall)}
        if self.spec.get("pap") and self.spec.get("initpull"):
            # "publish after pull": the initial data is provided only once every initial pull succeeded
            # the SDK's own test for "every initial pull is done" (as CallbackComponent and WeightedSum use it); a component
            # of this kind computes its initial data FROM what it pulled
            if not self.connector.all_data_pulled:
                push = {}
            else:
                self.init_sum = sum(fin.scalar_of(v) for v in self.connector.in_data.values())
        ex = {}
        if self.spec.get("lazyin") and not getattr(self, "_ex_sent", False):
            self._ex_sent = True
            tt = self.time if self.time is not None else T(self.spec["start"])
            ex = {f"i{i}": fm.Info(time=tt, grid=fm.NoGrid(), units=None, **ispec.get("meta", {}))
                  for i, ispec in enumerate(self.spec["inputs"]) if not ispec.get("cbin")}
        self.try_connect(start_time, push_infos=infos, push_data=push, exchange_infos=ex)

    def _validate(self):
        self.calls.append("V")

    def _update(self):
        self.calls.append("U")
        self._time = self._time + self._step()
        self.cnt += 1
        if self.spec.get("finish_after") is not None and self.cnt >= self.spec["finish_after"]:
            # a component may declare itself finished with its last value
            self.status = fm.ComponentStatus.FINISHED
        self.events.append(["U", self.idx, us_of(self.time)])
        for i, _ in enumerate(self.spec["inputs"]):
            self.events.append(["P", self.idx, i, us_of(self.time)])
            d = self.inputs[f"i{i}"].pull_data(self.time)
            self.received.append([i, us_of(self.time), fin.scalar_of(d)])
        if self.cnt % max(1, self.spec.get("pubevery", 1)) == 0:
            # a component may skip publications (components.CallbackGenerator does when its callback returns None)
            for o in range(self.spec["nout"]):
                self.outputs[f"o{o}"].push_data(self.value(), self.time)

    def _finalize(self):
        self.calls.append("F")


class PComp(fm.Component):
    def __init__(self, idx, spec, events, t0):
        super().__init__()
        self._name = f"C{idx}"
        self.idx = idx
        self.spec = spec
        self.events = events
        self.t0 = t0
        self.calls = []

    def _initialize(self):
        self.calls.append("I")
        for i, _ in enumerate(self.spec["inputs"]):
            self.inputs.add(name=f"i{i}", time=None, grid=fm.NoGrid(), units=None)
        for o in range(self.spec["nout"]):
            self.outputs.add(
                fm.CallbackOutput(callback=(lambda caller, time, o=o: self._get(o, time)), name=f"o{o}",
                                  time=T(self.t0), grid=fm.NoGrid(), units=""))
        self.create_connector()

    def _connect(self, start_time):
        self.calls.append("C")
        self.try_connect(start_time)

    def _validate(self):
        self.calls.append("V")

    def _update(self):
        self.calls.append("U")

    def _finalize(self):
        self.calls.append("F")

    def _get(self, o, time):
        self.events.append(["S", self.idx, o, us_of(time)])
        if self.status not in (fm.ComponentStatus.CONNECTED, fm.ComponentStatus.VALIDATED, fm.ComponentStatus.UPDATED):
            return None  # not connected yet -> FinamNoDataError in CallbackOutput
        s = 0.0
        for i, _ in enumerate(self.spec["inputs"]):
            self.events.append(["P", self.idx, i, us_of(time)])
            s = s + fin.scalar_of(self.inputs[f"i{i}"].pull_data(time))
        return s


class RComp(fm.Component):
    """A PUSH-based component without time step (kind "R"): notified through CallbackInputs, it samples the input that
    published and re-publishes the sum of its latest values on its ordinary (buffered) outputs with the time of the
    notification.  finam ships such components only as sinks (DebugPushConsumer, ScheduleLogger); with outputs they
    are legal (schedule._check_dead_links) and the driver walks through them like through pull-based ones."""

    def __init__(self, idx, spec, events, t0):
        super().__init__()
        self._name = f"C{idx}"
        self.idx = idx
        self.spec = spec
        self.events = events
        self.t0 = t0
        self.calls = []
        self.latest = {}
        self.published = None

    def _initialize(self):
        self.calls.append("I")
        for i, _ in enumerate(self.spec["inputs"]):
            self.inputs.add(io=fm.CallbackInput(callback=(lambda caller, time, i=i: self._changed(i, caller, time)),
                                                name=f"i{i}", time=T(self.t0), grid=fm.NoGrid(), units=None))
        for o in range(self.spec["nout"]):
            self.outputs.add(name=f"o{o}", time=T(self.t0), grid=fm.NoGrid(), units="")
        self.create_connector(pull_data=[f"i{i}" for i, _ in enumerate(self.spec["inputs"])])

    def _connect(self, start_time):
        self.calls.append("C")
        push = {}
        if self.connector.all_data_pulled and self.published is None:
            for i, _ in enumerate(self.spec["inputs"]):
                self.latest[i] = fin.scalar_of(self.connector.in_data[f"i{i}"])
            push = {f"o{o}": sum(self.latest.values()) for o in range(self.spec["nout"])}
            self.published = T(self.t0)
        self.try_connect(start_time, push_data=push)

    def _validate(self):
        self.calls.append("V")

    def _update(self):
        self.calls.append("U")

    def _finalize(self):
        self.calls.append("F")

    def _changed(self, i, caller, time):
        if self.status != fm.ComponentStatus.VALIDATED:
            return  # connect phase: the initial data is pulled by the connector
        self.events.append(["P", self.idx, i, us_of(time)])
        self.latest[i] = fin.scalar_of(caller.pull_data(time))
        if time > self.published:
            self.published = time
            self.events.append(["R", self.idx, us_of(time)])
            for o in range(self.spec["nout"]):
                self.outputs[f"o{o}"].push_data(sum(self.latest.values()), time)


class FinLog:
    """records adapter finalisation"""


def build(case):
    events = []
    comps_spec = case["comps"]
    starts = [c["start"] for c in comps_spec if c["kind"] == "T"]
    t0 = min(starts) if starts else 0
    comps = []
    for idx, spec in enumerate(comps_spec):
        comps.append({"T": TComp, "P": PComp, "R": RComp}[spec["kind"]](idx, spec, events, t0))
    for c in comps:
        c.peers = comps
        if case.get("samename"):
            c._name = "Node"     # components that were not given individual names share one (finam: the class name)
    composition = fm.Composition(comps, print_log=False)
    adapters = []
    fin_count = {}
    shared = {}
    n_shared = [0]
    link_list = [(idx, i) for idx, spec in enumerate(comps_spec) for i, _ in enumerate(spec["inputs"])]
    if case.get("link_order") is not None:
        link_list = [link_list[k] for k in case["link_order"]]
    for idx, i in link_list:
        spec = comps_spec[idx]
        if True:
            inp = spec["inputs"][i]
            sc, so = inp["src"]
            chain = [mk_adapter(a) for a in inp["chain"]]
            node = comps[sc].outputs[f"o{so}"]
            if so in comps_spec[sc].get("shared_out", []) and not inp.get("own"):
                # all links of this output branch behind ONE shared pass-through adapter at the output
                key = (sc, so)
                if key not in shared:
                    sd = dict((o, d) for o, d in comps_spec[sc].get("shared_delay", []))
                    shared[key] = mk_adapter(["fixed", sd[so]]) if so in sd else fm.adapters.Scale(1.0)
                    node >> shared[key]
                    _wrap_finalize(shared[key], fin_count, (-1 - sc, so, 0))
                    n_shared[0] += 1
                node = shared[key]
            for ad in reversed(chain):  # chain is listed in pull order; link from the source
                node = node >> ad
            node >> comps[idx].inputs[f"i{i}"]
            for k, ad in enumerate(chain):
                adapters.append((idx, i, k, ad))
                if inp["chain"][k][0] == "buf":
                    _wrap_buffer(ad, events, idx, i, k, inp["chain"])
                _wrap_finalize(ad, fin_count, (idx, i, k))
    for idx, spec in enumerate(comps_spec):
        if spec["kind"] in ("T", "R"):
            for o in range(spec["nout"] + spec.get("nstatic", 0)):
                _wrap_output(comps[idx].outputs[f"o{o}"], events, idx, o)
    return composition, comps, events, adapters, fin_count, t0, n_shared[0]


def _wrap_output(out, events, c, o):
    real = out.get_data

    def get_data(time, target):
        if not (isinstance(target, fm.IAdapter)):
            events.append(["S", c, o, us_of(time)])
        return real(time, target)

    out.get_data = get_data


def _wrap_buffer(ad, events, c, i, k, chain):
    # only the FIRST buffer in pull order terminates the consumer's pull
    if any(a[0] == "buf" for a in chain[:k]):
        return
    real = ad.get_data

    def get_data(time, target):
        events.append(["B", c, i, us_of(time)])
        return real(time, target)

    ad.get_data = get_data


def _wrap_finalize(ad, fin_count, key):
    real = ad.finalize

    def finalize():
        fin_count[key] = fin_count.get(key, 0) + 1
        return real()

    ad.finalize = finalize


def run_case(case, connect_only=False):
    composition, comps, events, adapters, fin_count, t0, n_shared = build(case)
    outcome = "ok"
    phase = "connect"
    stuck = []
    try:
        if case.get("autostart"):
            composition.connect()       # the composition determines its start itself: the earliest component's time
        else:
            composition.connect(T(t0) if any(c["kind"] == "T" for c in case["comps"]) else None)
        n_connect_events = len(events)
        phase = "run"
        if not connect_only:
            composition.run(end_time=T(case["end"]))
    except RecursionError:
        outcome = "RecursionError"
        n_connect_events = len(events) if phase == "connect" else n_connect_events
    except Exception as e:  # noqa
        outcome = err_class(e)
        n_connect_events = len(events) if phase == "connect" else n_connect_events
        if phase == "connect" and outcome == "CircularCoupling":
            import re as _re
            m = _re.search(r"Unconnected components: \[(.*?)\]", str(e))
            stuck = [int(x.strip()[1:]) for x in m.group(1).split(",") if x.strip()] if m and not case.get("samename") else None
    def _meta(info):
        try:
            return sorted((k, str(v)) for k, v in info.meta.items())
        except Exception as e:  # noqa
            return ["<" + type(e).__name__ + ">"]

    infos = []
    for c in comps:
        ci = []
        for i, _ in enumerate(c.spec["inputs"]):
            try:
                ci.append(_meta(c.inputs[f"i{i}"].info))
            except Exception as e:  # noqa
                ci.append(["<" + type(e).__name__ + ">"])
        co = []
        for name in c.outputs:
            try:
                co.append(_meta(c.outputs[name].info))
            except Exception as e:  # noqa
                co.append(["<" + type(e).__name__ + ">"])
        infos.append([ci, co])
    times = [us_of(c.time) if isinstance(c, TComp) else None for c in comps]
    status = [c.status.name for c in comps]
    return {
        "outcome": outcome,
        "phase": phase,
        "events": events[n_connect_events:],
        "connect_events": events[:n_connect_events],
        "times": times,
        "status": status,
        "calls": ["".join(c.calls) for c in comps],
        "fin": sorted([list(k) + [v] for k, v in fin_count.items()]),
        "n_adapters": len(adapters) + n_shared,
        "received": [c.received if isinstance(c, TComp) else None for c in comps],
        "init_times": [[idx, i, k, us_of(ad.initial_time)] for idx, i, k, ad in adapters if hasattr(ad, "initial_time")],
        "t0": t0,
        "stuck": stuck,
        "infos": infos,
    }
