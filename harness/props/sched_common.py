"""Shared parts of the scheduler checks (C01, C02, C03, C04): case generator, Gallina emitter,
reference computations on the implementation trace.  See harness/schedlib.py for the case format
and coq/theories/Sched.v for the model."""
from ..coqgen import B, C, L, N, P, Z
from .. import schedlib
from ..schedlib import DAY

COQ_IMPORTS = "From FV Require Import Base Sched."
COQ_CHECK = "sched_check"
COQ_MODEL_OBS = "sched_model"

HOUR = 3600 * 10**6
UNITS = [1, 7, 1000, HOUR, DAY, DAY + 1]
BUFS = ["next", "prev", "linear", "step", "avg", "sum"]

TRUSTED = [
    "harness components (harness/schedlib.py): a time component pulls every input at its new time and then publishes "
    "every output at that time; a pull-based component pulls all its inputs at the requested time; outputs and "
    "buffering adapters are modelled with unlimited history (justified by the C09/C11 theorems)",
    "instance-level wrappers of Output.get_data / Adapter.get_data / Adapter.finalize record the event trace",
]


# ----------------------------------------------------------------------------------------------
# Gallina emitter
# ----------------------------------------------------------------------------------------------
def coq_adapter(a):
    k = a[0]
    if k == "pass":
        return "APass"
    if k == "fixed":
        return C("AFixed", Z(a[1]))
    if k == "topull":
        return C("AToPull", N(a[1]), Z(a[2]))
    if k == "topush":
        return "AToPush"
    if k == "buf":
        return "ABuf"
    raise ValueError(a)


def coq_comp(c, comps=None):
    def chain_of(i):
        ch = list(i["chain"])
        if comps is not None and i["src"][1] in comps[i["src"][0]].get("shared_out", []) and not i.get("own"):
            sd = dict((o, d) for o, d in comps[i["src"][0]].get("shared_delay", []))
            # the shared adapter at the source output: pass-through, or ONE DelayFixed serving all consumers
            ch = ch + ([["fixed", sd[i["src"][1]]]] if i["src"][1] in sd else [["pass"]])
        return ch
    ins = L(C("mkIn", P(N(i["src"][0]), N(i["src"][1])), L(coq_adapter(a) for a in chain_of(i))) for i in c["inputs"])
    if c["kind"] == "T":
        kind = C("KTime", Z(c["start"]), L(Z(s) for s in c["steps"]), B(c.get("initpull", False)))
    else:
        kind = "KPull"
    return C("mkC", kind, N(c["nout"]), ins)


def fuel_for(case, obs):
    n = sum(1 for e in obs.get("events", []) if e[0] == "U")
    return min(n + 5, 4000)


def coq_case(case, obs):
    return P(L(coq_comp(c, case["comps"]) for c in case["comps"]), Z(case["end"]), N(fuel_for(case, obs)))


def is_sparse(case):
    return any(c.get("pubevery", 1) > 1 for c in case["comps"])


def coq_case_sp(case, obs):
    """case for FV.SchedSparse: (composition, publication periods, end, fuel)"""
    return P(L(coq_comp(c, case["comps"]) for c in case["comps"]),
             L(N(max(1, c.get("pubevery", 1))) for c in case["comps"]), Z(case["end"]), N(fuel_for(case, obs)))


def push_as_pull(case):
    """the composition with every push-based component (kind R) replaced by a pull-based one: same scheduling"""
    return dict(case, comps=[dict(c, kind="P") if c["kind"] == "R" else c for c in case["comps"]])


def coq_case_c01(case, obs):
    if any(c["kind"] == "R" for c in case["comps"]):
        return C("CPush", coq_case(push_as_pull(case), obs))
    return C("CSparse", coq_case_sp(case, obs)) if is_sparse(case) else C("CDense", coq_case(case, obs))


OUTCOMES = {"ok": "OOk", "CircularCoupling": "OCirc", "TimeError": "OTime", "NoDataError": "ONoData"}


def coq_obs(case, obs):
    evs = []
    push = any(c["kind"] == "R" for c in case.get("comps", []))
    for e in obs["events"]:
        if push and e[0] != "U":
            continue      # compositions with push-based components are compared by their update sequence (CPush)
        if e[0] == "U":
            evs.append(C("EU", N(e[1]), Z(e[2])))
        else:
            evs.append(C({"P": "EP", "S": "ES", "B": "EB"}[e[0]], N(e[1]), N(e[2]), Z(e[3])))
    times = L(Z(t if t is not None else 0) for t in obs["times"])
    # an outcome class the model cannot produce is emitted as OFuel: forces a mismatch
    oc = OUTCOMES.get(obs["outcome"], "OFuel") if obs.get("phase") == "run" else "OFuel"
    return P(oc, L(evs), times)


def run_impl(case):
    return schedlib.run_case(case)


# ----------------------------------------------------------------------------------------------
# generator
# ----------------------------------------------------------------------------------------------
def gen_chain(rng, unit, allow_buf=True, allow_topull=True, allow_topush=True, maxlen=4, delay_ok=True):
    n = rng.choice([0, 0, 1, 1, 1, 2, 2, 3, maxlen])
    chain = []
    for _ in range(n):
        r = rng.random()
        if r < 0.3:
            chain.append(["pass"])
        elif r < 0.55 and delay_ok:
            chain.append(["fixed", unit * rng.choice([0, 1, 1, 2, 3, 5, 11]) + rng.choice([0, 0, 0, 1])])
        elif r < 0.7 and allow_topull and delay_ok:
            chain.append(["topull", rng.choice([1, 1, 2, 3, 4]), unit * rng.choice([0, 0, 1, 2])])
        elif r < 0.78 and allow_topush:
            chain.append(["topush"])
        elif allow_buf:
            chain.append(["buf", rng.choice(BUFS)])
        else:
            chain.append(["pass"])
    # AvgOverTime / SumOverTime need strictly increasing request times (C12 domain p0 < p1): a delay adapter in
    # front of them (in pull order) can repeat a request time (clamping), so use another buffer kind there
    seen_delay = False
    for a in chain:
        if a[0] in ("fixed", "topull", "topush"):
            seen_delay = True
        if a[0] == "buf" and a[1] in ("avg", "sum") and seen_delay:
            a[1] = rng.choice(["next", "prev", "linear", "step"])
    # DelayToPull is a NoBranch adapter and keeps per-consumer state: at most one consumer (always true here,
    # every link has its own adapter instances)
    return chain


def gen_steps(rng, unit):
    m = rng.random()
    if m < 0.5:
        return [unit * rng.choice([1, 1, 2, 3, 5, 10])]
    if m < 0.8:
        return [unit * rng.choice([1, 2, 3, 7]), unit * rng.choice([1, 2, 5])]
    return [unit * rng.randint(1, 12) + rng.choice([0, 0, 1]) for _ in range(rng.randint(2, 5))]


def gen_dag(rng, cyclic=False, with_pull=True, shared_pull=False, late_start=True):
    """A random composition.  Dependencies go from lower to higher 'rank' (acyclic) unless cyclic."""
    unit = rng.choice(UNITS)
    n = rng.choice([2, 2, 3, 3, 3, 4, 4, 5, 6])
    kinds = []
    for k in range(n):
        kinds.append("P" if (with_pull and 0 < k and rng.random() < 0.25) else "T")
    if "T" not in kinds:
        kinds[0] = "T"
    rank = list(range(n))
    rng.shuffle(rank)  # listing order is independent of the dependency order
    comps = []
    for k in range(n):
        if kinds[k] == "T":
            start = 0 if (not late_start or rng.random() < 0.7) else unit * rng.choice([1, 2, 5])
            comps.append({"kind": "T", "start": start, "steps": gen_steps(rng, unit), "initpull": rng.random() < 0.4,
                          "nout": rng.choice([1, 1, 2]), "inputs": []})
        else:
            comps.append({"kind": "P", "nout": rng.choice([1, 1, 2]), "inputs": []})
    t0 = min(c["start"] for c in comps if c["kind"] == "T")
    p_readers = {k: 0 for k in range(n) if kinds[k] == "P"}
    for k in range(n):
        cands = [j for j in range(n) if j != k and (cyclic or rank[j] < rank[k])]
        if kinds[k] == "P":
            # no cycles made of pull-based components only: P reads only from lower rank
            cands = [j for j in range(n) if j != k and rank[j] < rank[k]]
        nin = rng.choice([0, 1, 1, 1, 2, 2, 3]) if cands else 0
        if kinds[k] == "P" and cands and nin == 0:
            nin = 1
        for _ in range(nin):
            j = rng.choice(cands)
            if kinds[j] == "P":
                if p_readers[j] >= 1 and not shared_pull:
                    tj = [x for x in cands if kinds[x] == "T"]
                    if not tj:
                        continue
                    j = rng.choice(tj)
                else:
                    p_readers[j] += 1
            src_is_p = kinds[j] == "P"
            late = (not src_is_p) and comps[j]["start"] != t0
            chain = gen_chain(
                rng, unit,
                allow_buf=not src_is_p,            # a push-based adapter after a pull-only output is a dead link
                allow_topull=(kinds[k] == "T"),    # see DESIGN: DelayToPull on an input of a pull-based component is
                                                   # shared by all readers of that component
            )
            if kinds[k] == "P":
                # a pull-based component may be asked twice for the same time (two links of one consumer): Avg/SumOverTime
                # on its inputs would see a repeated request time (zero-length interval, outside C12's p0 < p1)
                for a in chain:
                    if a[0] == "buf" and a[1] in ("avg", "sum"):
                        a[1] = rng.choice(["next", "prev", "linear", "step"])
            if late:
                # a delay adapter upstream of a buffering adapter asks a late-starting producer for its own start
                # time at the composition start (observation recorded in DESIGN, outside the properties' domain)
                seen_buf = False
                chain2 = []
                for a in chain:
                    if seen_buf and a[0] in ("fixed", "topull"):
                        continue
                    if a[0] == "buf":
                        seen_buf = True
                    chain2.append(a)
                chain = chain2
            so = rng.randrange(comps[j]["nout"])
            if src_is_p and kinds[k] == "T" and rng.random() < 0.35:
                # the same output of a pull-based component read twice by one consumer, the first link delayed by at
                # most the consumer's smallest step (so that the requests reaching the component stay monotone)
                d = rng.choice([1, min(comps[k]["steps"]) // 2 or 1, min(comps[k]["steps"])])
                so1 = so
                if comps[j]["nout"] >= 2 and rng.random() < 0.5:
                    so1 = (so + 1) % comps[j]["nout"]   # the delayed link reads ANOTHER output of the same component
                comps[k]["inputs"].append({"src": [j, so1], "chain": [["fixed", d]] + ([["pass"]] if rng.random() < 0.3 else [])})
                chain = [a for a in chain if a[0] == "pass"]
            comps[k]["inputs"].append({"src": [j, so], "chain": chain})
    # components that declare themselves FINISHED from some update on (no effect on the unchanged driver)
    for k in range(n):
        if kinds[k] == "T" and rng.random() < 0.15:
            comps[k]["finish_after"] = rng.choice([1, 2, 3, 5])
    # static outputs of time components (a model publishing a parameter next to its state), read by ordinary inputs
    for k in range(n):
        if kinds[k] == "T" and rng.random() < 0.25:
            comps[k]["nstatic"] = 1
            readers_k = [j for j in range(n) if j != k and kinds[j] == "T"]
            for j in rng.sample(readers_k, min(len(readers_k), rng.choice([1, 1, 2]))):
                comps[j]["inputs"].insert(rng.randrange(len(comps[j]["inputs"]) + 1),
                                          {"src": [k, comps[k]["nout"]], "chain": [["pass"]] if rng.random() < 0.3 else []})
    # some outputs of time components fan out behind ONE shared pass-through adapter (one target, several consumers)
    readers = {}
    for c in comps:
        for i in c["inputs"]:
            readers[tuple(i["src"])] = readers.get(tuple(i["src"]), 0) + 1
    for (j, o), cnt in readers.items():
        if kinds[j] == "T" and cnt >= 2 and rng.random() < 0.5:
            comps[j].setdefault("shared_out", []).append(o)
    maxstep = max(max(c["steps"]) for c in comps if c["kind"] == "T")
    end = t0 + rng.choice([0, 1, 2, 3, 5, 8]) * maxstep + rng.choice([0, 0, 1, unit // 2, -1])
    return {"comps": comps, "end": end}


def has_cycle(case):
    n = len(case["comps"])
    adj = {k: [i["src"][0] for i in case["comps"][k]["inputs"] if i["src"][1] < case["comps"][i["src"][0]]["nout"]]
           for k in range(n)}
    color = {}

    def dfs(u):
        color[u] = 1
        for v in adj[u]:
            if color.get(v) == 1:
                return True
            if v not in color and dfs(v):
                return True
        color[u] = 2
        return False

    return any(k not in color and dfs(k) for k in range(n))


def gen_ring(rng, sufficient=None):
    """A ring of 2-5 time components (optionally with chords / tails / a pull-based component on the ring) whose
    links carry fixed delays split over 1-3 adapters anywhere on the pulled part, mixed with pass-through adapters.
    sufficient=True: every cycle's delays sum to at least the sum of the largest steps; False: one link is short."""
    unit = rng.choice(UNITS)
    n = rng.choice([2, 2, 3, 3, 4, 5])
    comps = [{"kind": "T", "start": 0, "steps": gen_steps(rng, unit), "initpull": rng.random() < 0.3,
              "nout": 1, "inputs": []} for _ in range(n)]
    maxsteps = [max(c["steps"]) for c in comps]
    total = sum(maxsteps)
    if sufficient is None:
        sufficient = rng.random() < 0.6
    # ring k -> k+1 (k+1 reads from k); put the whole needed delay on one link or spread it
    mode = rng.choice(["one", "spread", "each"])
    need = [0] * n
    if mode == "one":
        need[rng.randrange(n)] = total
    elif mode == "spread":
        rest = total
        for k in range(n - 1):
            x = rng.randint(0, rest)
            need[k] = x
            rest -= x
        need[n - 1] = rest
    else:
        need = list(maxsteps)
    if not sufficient:
        k = rng.choice([i for i in range(n) if need[i] > 0] or [0])
        need[k] = max(0, need[k] - rng.choice([1, unit, need[k]]))
    else:
        k = rng.randrange(n)
        need[k] += rng.choice([0, 0, 1, unit])
    for k in range(n):
        src = (k - 1) % n
        parts = rng.choice([1, 1, 2, 3])
        ds = []
        rest = need[k]
        for p in range(parts - 1):
            x = rng.randint(0, rest)
            ds.append(x)
            rest -= x
        ds.append(rest)
        chain = [["fixed", d] for d in ds]
        for _ in range(rng.choice([0, 0, 1, 2])):
            chain.insert(rng.randrange(len(chain) + 1), ["pass"])
        if rng.random() < 0.15:
            chain.append(["buf", rng.choice(BUFS)])  # buffer at the source end: delays stay on the pulled part
        comps[k]["inputs"].append({"src": [src, 0], "chain": chain})
    # chords / tails (acyclic additions: only from lower to higher index with full delay, or a tail consumer)
    if rng.random() < 0.3:
        comps.append({"kind": "T", "start": 0, "steps": gen_steps(rng, unit), "initpull": False, "nout": 0,
                      "inputs": [{"src": [rng.randrange(n), 0], "chain": gen_chain(rng, unit, allow_topush=False)}]})
    if rng.random() < 0.3:
        comps.append({"kind": "T", "start": 0, "steps": gen_steps(rng, unit), "initpull": False, "nout": 1, "inputs": []})
        comps[rng.randrange(n)]["inputs"].append({"src": [len(comps) - 1, 0], "chain": gen_chain(rng, unit)})
    order = list(range(len(comps)))
    rng.shuffle(order)
    comps = permute(comps, order)
    maxstep = max(max(c["steps"]) for c in comps)
    end = rng.choice([1, 2, 3, 5]) * maxstep + rng.choice([0, 1, -1])
    return {"comps": comps, "end": end}


def permute(comps, order):
    """order[k] = old index of the component listed at position k"""
    pos = {old: new for new, old in enumerate(order)}
    out = []
    for old in order:
        c = dict(comps[old])
        c["inputs"] = [dict(i, src=[pos[i["src"][0]], i["src"][1]]) for i in c["inputs"]]
        out.append(c)
    return out


# ----------------------------------------------------------------------------------------------
# reference computations on the implementation trace (used by the monitors)
# ----------------------------------------------------------------------------------------------
def replay_times(case, obs):
    """Yield, for each update event, (index in events, component, new time, dict comp->time BEFORE the update)."""
    times = {k: c["start"] for k, c in enumerate(case["comps"]) if c["kind"] == "T"}
    for idx, e in enumerate(obs["events"]):
        if e[0] == "U":
            before = dict(times)
            yield idx, e[1], e[2], before
            times[e[1]] = e[2]


def nonmonotone_pull_component_requests(case, obs):
    """classifier for F16: TimeError during run and some input of a pull-based component saw a request time
    lower than an earlier one (connect-time requests included)."""
    if obs.get("outcome") != "TimeError" or obs.get("phase") != "run":
        return False
    last = {}
    for e in obs.get("connect_events", []) + obs["events"]:
        if e[0] == "P" and case["comps"][e[1]]["kind"] == "P":
            key = (e[1], e[2])
            if key in last and e[3] < last[key]:
                return True
            last[key] = e[3]
    return False


def shrink_candidates(case):
    comps = case["comps"]
    n = len(comps)
    # drop a component nobody reads from
    for k in range(n - 1, -1, -1):
        if any(i["src"][0] == k for c in comps for i in c["inputs"]):
            continue
        if sum(1 for c in comps if c["kind"] == "T") <= 1 and comps[k]["kind"] == "T":
            continue
        order = [j for j in range(n) if j != k]
        yield {"comps": permute(comps, order), "end": case["end"]}
    # drop an input
    for k in range(n):
        for i in range(len(comps[k]["inputs"]) - 1, -1, -1):
            if comps[k]["kind"] == "P" and len(comps[k]["inputs"]) == 1:
                continue
            c2 = [dict(c) for c in comps]
            c2[k]["inputs"] = comps[k]["inputs"][:i] + comps[k]["inputs"][i + 1:]
            yield {"comps": c2, "end": case["end"]}
    # drop an adapter
    for k in range(n):
        for i, inp in enumerate(comps[k]["inputs"]):
            for a in range(len(inp["chain"])):
                c2 = [dict(c) for c in comps]
                ins = [dict(x) for x in comps[k]["inputs"]]
                ins[i]["chain"] = inp["chain"][:a] + inp["chain"][a + 1:]
                c2[k]["inputs"] = ins
                yield {"comps": c2, "end": case["end"]}
    # simplify steps / initpull
    for k in range(n):
        if comps[k]["kind"] == "T" and len(comps[k]["steps"]) > 1:
            c2 = [dict(c) for c in comps]
            c2[k]["steps"] = comps[k]["steps"][:1]
            yield {"comps": c2, "end": case["end"]}
        if comps[k]["kind"] == "T" and comps[k].get("initpull"):
            c2 = [dict(c) for c in comps]
            c2[k]["initpull"] = False
            yield {"comps": c2, "end": case["end"]}


def distribution(cases, obss):
    from collections import Counter

    d = {
        "n_components": Counter(len(c["comps"]) for c in cases),
        "pull_based_components": Counter(sum(1 for x in c["comps"] if x["kind"] == "P") for c in cases),
        "adapter_kinds": Counter(a[0] if a[0] != "buf" else "buf:" + a[1]
                                 for c in cases for x in c["comps"] for i in x["inputs"] for a in i["chain"]),
        "chain_lengths": Counter(len(i["chain"]) for c in cases for x in c["comps"] for i in x["inputs"]),
        "cyclic": sum(1 for c in cases if has_cycle(c)),
        "outcomes": Counter((o.get("phase", "?") + ":" + o.get("outcome", "harness_error")) if isinstance(o, dict) else "?" for o in obss),
        "updates_per_case_bucket": Counter(min(sum(1 for e in o.get("events", []) if e[0] == "U") // 10 * 10, 100)
                                           for o in obss if isinstance(o, dict)),
    }
    return {k: (dict(v) if not isinstance(v, int) else v) for k, v in d.items()}


# ----------------------------------------------------------------------------------------------
# Python reference of the pull semantics, driven by the implementation's own trace (monitors)
# ----------------------------------------------------------------------------------------------
def is_static_src(comps, src):
    return src[1] >= comps[src[0]]["nout"]


class LinkTracker:
    """Tracks the DelayToPull request histories of every link from the observed "P" events and computes, by
    composing the adapters' documented time shifts in pull order, the time a link requires from its source."""

    def __init__(self, case, obs):
        self.case = case
        self.comps = case["comps"]
        self.t0 = obs["t0"]
        self.pulls = {}  # (c, i, pos) -> list of recorded request times (DelayToPull._pulls)

    def init_of(self, src):
        c = self.comps[src[0]]
        return c["start"] if c["kind"] == "T" else self.t0

    def shift(self, c, i, t, times, record):
        """Returns (time reaching the end of the pulled part, ended_at_buffer, cut_by_nodep)."""
        inp = self.comps[c]["inputs"][i]
        init = self.init_of(inp["src"])
        src = inp["src"][0]
        cut = False
        for pos, a in enumerate(inp["chain"]):
            k = a[0]
            if k == "buf":
                return t, True, cut
            if k == "fixed":
                t = max(t - a[1], init)
            elif k == "topull":
                key = (c, i, pos)
                pl = self.pulls.get(key) or [init]
                t_new = max(pl[0] - a[2], init)
                if record:
                    pl = pl + [t]
                    self.pulls[key] = pl[max(0, len(pl) - a[1]):]
                t = t_new
            elif k == "topush":
                cut = True
                if self.comps[src]["kind"] == "T":
                    t = min(t, times[src])
                else:
                    t = init
        return t, False, cut

    def record_pull(self, c, i, t, times):
        return self.shift(c, i, t, times, True)

    def required(self, c, i, t, times):
        """None if the link is cut by a dependency-breaking adapter on its pulled part."""
        r, buf, cut = self.shift(c, i, t, times, False)
        return None if cut else r

    def lagging_sources(self, c, t, times, depth=0):
        """time components that lack data component c needs for target time t (through pull-based ones)"""
        out = []
        if depth > len(self.comps) + 1:
            return out
        for i, inp in enumerate(self.comps[c]["inputs"]):
            if is_static_src(self.comps, inp["src"]):
                continue
            r = self.required(c, i, t, times)
            if r is None:
                continue
            s = inp["src"][0]
            if self.comps[s]["kind"] == "T":
                if times[s] < r:
                    out.append(s)
            else:
                out.extend(self.lagging_sources(s, r, times, depth + 1))
        return out


def next_time_of(case, c, cnt, times):
    st = case["comps"][c]["steps"]
    return times[c] + st[cnt[c] % len(st)]


def walk_trace(case, obs):
    """Generator over the run-phase trace: yields ("update", c, newtime, times_before, cnt_before, tracker) before
    the pulls of that update are replayed, and ("pull", c, i, t, observed_time_or_None, expected, tracker).
    [times] are the component clocks; [tracker.pubs] the newest publication of every time component (they differ for
    components that publish only at every p-th update) — what a SOURCE offers is judged by the latter."""
    comps = case["comps"]
    tr = LinkTracker(case, obs)
    times = {k: c["start"] for k, c in enumerate(comps) if c["kind"] == "T"}
    pubs = dict(times)
    cnt = {k: 0 for k in times}
    tr.pubs = pubs
    # connect-phase pulls that succeeded: exactly one per initpull input, for t0 (through pull-based components too)
    for k, c in enumerate(comps):
        if c["kind"] == "T" and c.get("initpull"):
            for i, _ in enumerate(c["inputs"]):
                _replay_pull(tr, k, i, obs["t0"], pubs)
    evs = obs["events"]
    n = len(evs)
    j = 0
    pending = None
    while j < n:
        e = evs[j]
        if e[0] == "U":
            if pending is not None:
                times[pending[0]] = pending[1]
                cnt[pending[0]] += 1
                if cnt[pending[0]] % max(1, comps[pending[0]].get("pubevery", 1)) == 0:
                    pubs[pending[0]] = pending[1]
            tr.pubs = dict(pubs)
            yield ("update", e[1], e[2], dict(times), dict(cnt), tr)
            pending = (e[1], e[2])
            j += 1
        elif e[0] == "P":
            c, i, t = e[1], e[2], e[3]
            exp, buf, cut = tr.record_pull(c, i, t, pubs)
            seen = evs[j + 1] if j + 1 < n and evs[j + 1][0] in ("S", "B") else None
            yield ("pull", c, i, t, seen, (exp, buf, cut), tr)
            j += 1
        else:
            j += 1


def _replay_pull(tr, c, i, t, times, depth=0):
    r, buf, cut = tr.record_pull(c, i, t, times)
    s = tr.comps[c]["inputs"][i]["src"][0]
    if not buf and tr.comps[s]["kind"] == "P" and depth < len(tr.comps) + 1:
        for j, _ in enumerate(tr.comps[s]["inputs"]):
            _replay_pull(tr, s, j, r, times, depth + 1)


def lifecycle_failure(case, obs):
    import re
    for k, calls in enumerate(obs["calls"]):
        if not re.fullmatch(r"IC+VU*F", calls):
            return f"component C{k} saw the call sequence {calls!r}, expected initialize connect+ validate update* finalize"
    for k, s in enumerate(obs["status"]):
        if s != "FINALIZED":
            return f"component C{k} ended in status {s}"
    fin = obs["fin"]
    if len(fin) != obs["n_adapters"] or any(x[3] != 1 for x in fin):
        return f"adapters finalized {fin}, expected each of the {obs['n_adapters']} adapters exactly once"
    return None


def replay_times_cnt(case, obs):
    """(event index, component, new time, times before, counts before) for every update event"""
    times = {k: c["start"] for k, c in enumerate(case["comps"]) if c["kind"] == "T"}
    cnt = {k: 0 for k in times}
    for idx, e in enumerate(obs["events"]):
        if e[0] == "U":
            yield idx, e[1], e[2], dict(times), dict(cnt)
            times[e[1]] = e[2]
            cnt[e[1]] += 1


def gen_pipeline(rng):
    """A(fast) -> B(slower) -> C(slowest): B is updated as an upstream dependency of C while it is ahead of A;
    the A->B link carries a chain mixing DelayToPull and DelayFixed (non-commuting shifts)."""
    unit = rng.choice(UNITS)
    sa = unit * rng.choice([1, 1, 2])
    sb = sa * rng.choice([3, 5, 10])
    scc = sb * rng.choice([2, 3])
    ch = [["topull", rng.choice([1, 2, 3]), unit * rng.choice([0, 1])], ["fixed", unit * rng.choice([1, 2, 3])]]
    if rng.random() < 0.5:
        ch.reverse()
    for _ in range(rng.choice([0, 0, 1])):
        ch.insert(rng.randrange(len(ch) + 1), ["pass"])
    comps = [{"kind": "T", "start": 0, "steps": [sa], "initpull": False, "nout": 1, "inputs": []},
             {"kind": "T", "start": 0, "steps": [sb], "initpull": rng.random() < 0.5, "nout": 1,
              "inputs": [{"src": [0, 0], "chain": ch}]},
             {"kind": "T", "start": 0, "steps": [scc], "initpull": False, "nout": 0,
              "inputs": [{"src": [1, 0], "chain": gen_chain(rng, unit, allow_topush=False, maxlen=2)}]}]
    order = list(range(3))
    rng.shuffle(order)
    return {"comps": permute(comps, order), "end": scc * rng.choice([1, 2, 3]) + rng.choice([0, 1])}


def gen_shared_equal(rng):
    """A pull-based component with a DelayToPull on its input, read by two consumers that run in lock step (equal
    steps and starts): the component is asked twice for the same time in one scheduler pass."""
    unit = rng.choice(UNITS)
    sa = unit * rng.choice([1, 2])
    sc_ = sa * rng.choice([1, 2, 3])
    comps = [{"kind": "T", "start": 0, "steps": [sa], "initpull": False, "nout": 1, "inputs": []},
             {"kind": "P", "nout": rng.choice([1, 2]),
              "inputs": [{"src": [0, 0], "chain": [["topull", rng.choice([1, 2]), 0]] + ([["pass"]] if rng.random() < 0.4 else [])}]},
             {"kind": "T", "start": 0, "steps": [sc_], "initpull": False, "nout": 0, "inputs": [{"src": [1, 0], "chain": []}]},
             {"kind": "T", "start": 0, "steps": [sc_], "initpull": False, "nout": 0, "inputs": [{"src": [1, 0], "chain": []}]}]
    if comps[1]["nout"] == 2:
        comps[3]["inputs"][0]["src"] = [1, 1]
    order = list(range(4))
    rng.shuffle(order)
    return {"comps": permute(comps, order), "end": sc_ * rng.choice([2, 3, 5])}


def gen_relay2(rng):
    """source -> pull-based relay with TWO outputs -> one consumer reading one output delayed (declared first) and
    the other directly: the relay is reached twice in one scheduler pass, for an earlier time first"""
    unit = rng.choice(UNITS)
    sa = unit * rng.choice([1, 1, 2])
    scc = sa * rng.choice([2, 3, 5])
    d = rng.choice([sa, 2 * sa, scc - sa, scc])
    d = max(1, min(d, scc))
    relay_in = [["pass"]] if rng.random() < 0.3 else []
    comps = [{"kind": "T", "start": 0, "steps": [sa], "initpull": False, "nout": 1, "inputs": []},
             {"kind": "P", "nout": 2, "inputs": [{"src": [0, 0], "chain": relay_in}]},
             {"kind": "T", "start": 0, "steps": [scc], "initpull": rng.random() < 0.3, "nout": 0,
              "inputs": [{"src": [1, 0], "chain": [["fixed", d]]}, {"src": [1, 1], "chain": [["pass"]] if rng.random() < 0.3 else []}]}]
    if rng.random() < 0.3:
        # both outputs read for the SAME time: the relay is reached twice with one and the same requirement
        comps[2]["inputs"][0]["chain"] = [["pass"]] if rng.random() < 0.5 else []
    order = list(range(3))
    rng.shuffle(order)
    return {"comps": permute(comps, order), "end": scc * rng.choice([2, 3, 4])}


def gen_pull_ring(rng):
    """A ring that passes through a pull-based component, with (part of) the resolving delay DOWNSTREAM of it:
    A -> [up] -> P(pull-based) -> [down] -> B -> A.  The driver must explore P for the time B will actually ask
    (B's next time minus `down`), not for B's own next time."""
    unit = rng.choice(UNITS)
    a = {"kind": "T", "start": 0, "steps": gen_steps(rng, unit), "initpull": False, "nout": 1, "inputs": []}
    b = {"kind": "T", "start": 0, "steps": gen_steps(rng, unit), "initpull": False, "nout": 1, "inputs": []}
    total = max(a["steps"]) + max(b["steps"])
    down = rng.choice([total, total, total + unit, rng.randint(1, total)])
    up = max(0, total - down) + rng.choice([0, 0, 1])

    def split(d):
        parts = rng.choice([1, 1, 2])
        ds, rest = [], d
        for _ in range(parts - 1):
            x = rng.randint(0, rest)
            ds.append(x)
            rest -= x
        ds.append(rest)
        ch = [["fixed", x] for x in ds]
        for _ in range(rng.choice([0, 0, 1])):
            ch.insert(rng.randrange(len(ch) + 1), ["pass"])
        return ch

    p = {"kind": "P", "nout": 1, "inputs": [{"src": [0, 0], "chain": split(up) if up else ([["pass"]] if rng.random() < 0.3 else [])}]}
    b["inputs"].append({"src": [1, 0], "chain": split(down)})
    a["inputs"].append({"src": [2, 0], "chain": [["pass"]] if rng.random() < 0.3 else []})
    comps = [a, p, b]
    if rng.random() < 0.3:  # an unrelated component keeps the least-advanced choice interesting
        comps.append({"kind": "T", "start": 0, "steps": gen_steps(rng, unit), "initpull": False, "nout": 0, "inputs": []})
    order = list(range(len(comps)))
    rng.shuffle(order)
    maxstep = max(max(c["steps"]) for c in comps if c["kind"] == "T")
    return {"comps": permute(comps, order), "end": rng.choice([2, 3, 5]) * maxstep + rng.choice([0, 1])}


def gen_shared_delay(rng):
    """One producer whose output fans out behind ONE shared DelayFixed to 2-3 consumers that start at DIFFERENT times
    (and optionally carry their own adapters): the delay adapter's initial time is the producer's, whoever asks."""
    unit = rng.choice(UNITS)
    sp = unit * rng.choice([1, 1, 2])
    d = sp * rng.choice([1, 2, 3, 4])
    prod = {"kind": "T", "start": 0, "steps": [sp], "initpull": False, "nout": 1, "inputs": [],
            "shared_out": [0], "shared_delay": [[0, d]]}
    comps = [prod]
    for k in range(rng.choice([2, 2, 3])):
        start = sp * rng.choice([0, 1, 2, 3, 5])
        comps.append({"kind": "T", "start": start, "steps": [sp * rng.choice([1, 2, 3])], "initpull": rng.random() < 0.5,
                      "nout": 0, "inputs": [{"src": [0, 0], "chain": [["pass"]] if rng.random() < 0.3 else []}]})
    if len({c["start"] for c in comps[1:]}) == 1:
        comps[1]["start"] += 2 * sp
    order = list(range(len(comps)))
    rng.shuffle(order)
    maxstep = max(max(c["steps"]) for c in comps)
    return {"comps": permute(comps, order), "end": max(c["start"] for c in comps) + rng.choice([2, 3, 5]) * maxstep}


def gen_two_relays(rng):
    """A consumer that depends on TWO different pull-based relays with different required times: one link direct, the
    other delayed (declared first or last), delay shorter than the consumer's step, sources finer than the consumer."""
    unit = rng.choice(UNITS)
    sa = unit * rng.choice([1, 1, 2])
    sb = unit * rng.choice([1, 1, 2])
    scc = max(sa, sb) * rng.choice([3, 4, 5])
    d = rng.choice([sa, 2 * sa, scc - sa, max(1, scc // 2)])
    d = max(1, min(d, scc - 1))
    comps = [{"kind": "T", "start": 0, "steps": [sa], "initpull": False, "nout": 1, "inputs": []},
             {"kind": "T", "start": 0, "steps": [sb], "initpull": False, "nout": 1, "inputs": []},
             {"kind": "P", "nout": 1, "inputs": [{"src": [0, 0], "chain": [["pass"]] if rng.random() < 0.3 else []}]},
             {"kind": "P", "nout": 1, "inputs": [{"src": [1, 0], "chain": []}]}]
    direct = {"src": [2, 0], "chain": [["pass"]] if rng.random() < 0.3 else []}
    delayed = {"src": [3, 0], "chain": [["fixed", d]]}
    ins = [direct, delayed] if rng.random() < 0.6 else [delayed, direct]
    comps.append({"kind": "T", "start": 0, "steps": [scc], "initpull": rng.random() < 0.3, "nout": 0, "inputs": ins})
    order = list(range(len(comps)))
    rng.shuffle(order)
    return {"comps": permute(comps, order), "end": scc * rng.choice([2, 3, 4])}


def gen_sparse(rng):
    """Sources that publish only at every p-th update (their clock runs on): read directly, through delay adapters,
    through time interpolation, or through a pull-based relay, by consumers of various steps; dense components mixed in.
    The driver must compare requirements with the time of the OUTPUT, not with the owner's clock."""
    unit = rng.choice(UNITS)
    n_src = rng.choice([1, 1, 2])
    comps = []
    for _ in range(n_src):
        comps.append({"kind": "T", "start": 0, "steps": [unit * rng.choice([1, 1, 2])], "initpull": False, "nout": 1,
                      "inputs": [], "pubevery": rng.choice([2, 3, 4, 5])})
    if rng.random() < 0.4:
        comps.append({"kind": "T", "start": 0, "steps": gen_steps(rng, unit), "initpull": False, "nout": 1, "inputs": []})
    srcs = list(range(len(comps)))
    if rng.random() < 0.4:
        comps.append({"kind": "P", "nout": 1, "inputs": [{"src": [rng.choice(srcs[:n_src]), 0], "chain": []}]})
        relay = len(comps) - 1
    else:
        relay = None
    for _ in range(rng.choice([1, 2, 2, 3])):
        ins = []
        for _ in range(rng.choice([1, 1, 2])):
            if (relay is not None and not any(i["src"][0] == relay for c in comps for i in c["inputs"])
                    and not any(i["src"][0] == relay for i in ins) and rng.random() < 0.6):
                # the relay is read over ONE link only (several readers at diverging times: known finding F16)
                ins.append({"src": [relay, 0], "chain": [["fixed", unit * rng.choice([1, 2, 3])]] if rng.random() < 0.5 else []})
                continue
            s0 = rng.choice(srcs)
            r = rng.random()
            if r < 0.35:
                ch = []
            elif r < 0.7:
                ch = [["fixed", unit * rng.choice([1, 2, 3, 5])]]
                if rng.random() < 0.3:
                    ch.insert(rng.randrange(2), ["pass"])
            elif r < 0.85:
                ch = [["buf", rng.choice(["next", "prev", "linear", "step"])]]
            else:
                ch = [["pass"]]
            ins.append({"src": [s0, 0], "chain": ch})
        comps.append({"kind": "T", "start": 0, "steps": gen_steps(rng, unit), "initpull": rng.random() < 0.3, "nout": 0,
                      "inputs": ins})
    order = list(range(len(comps)))
    rng.shuffle(order)
    maxstep = max(max(c["steps"]) for c in comps if c["kind"] == "T")
    return {"comps": permute(comps, order), "end": rng.choice([2, 3, 5, 8]) * maxstep + rng.choice([0, 1])}


def gen_relay2_ring(rng):
    """A ring through a pull-based relay with TWO outputs that both feed the same consumer:
    A -> P(o0, o1) -> C(i: o0 delayed D, j: o1 delayed D' or undelayed) -> A.  With one of the two links undelayed the
    cycle is unresolvable (circular coupling must be reported whichever link is declared first); with both delays
    sufficient the run completes."""
    unit = rng.choice(UNITS)
    sa = unit * rng.choice([1, 1, 2])
    scc = unit * rng.choice([1, 2, 3])
    need = sa + scc
    mode = rng.choice(["one_undelayed", "one_undelayed", "equal_sufficient"])
    d0 = need + rng.choice([0, 0, unit])
    # (different non-zero delays on the two links make the relay's input see non-monotone requests: known finding F16)
    d1 = {"one_undelayed": 0, "equal_sufficient": d0}[mode]
    l0 = {"src": [1, 0], "chain": [["fixed", d0]]}
    l1 = {"src": [1, 1], "chain": [["fixed", d1]] if d1 else ([["pass"]] if rng.random() < 0.3 else [])}
    ins = [l0, l1] if rng.random() < 0.6 else [l1, l0]
    comps = [{"kind": "T", "start": 0, "steps": [sa], "initpull": False, "nout": 1,
              "inputs": [{"src": [2, 0], "chain": [["pass"]] if rng.random() < 0.3 else []}]},
             {"kind": "P", "nout": 2, "inputs": [{"src": [0, 0], "chain": []}]},
             {"kind": "T", "start": 0, "steps": [scc], "initpull": False, "nout": 1, "inputs": ins}]
    order = list(range(3))
    rng.shuffle(order)
    return {"comps": permute(comps, order), "end": max(sa, scc) * rng.choice([2, 3, 5])}


# ----------------------------------------------------------------------------------------------
# calendar delays (monitor-only: the Coq model counts integer microseconds)
# ----------------------------------------------------------------------------------------------
def has_calendar(case):
    return any(a[0] == "calfixed" for c in case["comps"] for i in c["inputs"] for a in i["chain"])


def cal_shift(t_us, months):
    """t - relativedelta(months) in microseconds since 2000-01-01 (the oracle is dateutil itself)"""
    from dateutil.relativedelta import relativedelta
    from ..fin import T, us_of
    return us_of(T(t_us) - relativedelta(months=months))


def cal_expected_request(case, c, i, t):
    """the time that reaches the source of input i of component c for a pull at t: every delay adapter of the pulled
    part answers for max(t - delay, start time of the source)"""
    comps = case["comps"]
    inp = comps[c]["inputs"][i]
    src = comps[inp["src"][0]]
    init = src["start"] if src["kind"] == "T" else min(x["start"] for x in comps if x["kind"] == "T")
    for a in inp["chain"]:
        if a[0] == "fixed":
            t = max(init, t - a[1])
        elif a[0] == "calfixed":
            t = max(init, cal_shift(t, a[1]))
        elif a[0] == "pass":
            pass
        else:
            return None
    return t


def monitor_calendar(case, obs):
    """C13 for calendar delays: the shifted time is what is actually requested from the source, and the run does not
    fail for lack of data"""
    if obs["phase"] != "run":
        return f"connect phase failed with {obs['outcome']}"
    ev = obs["events"]
    for k, e in enumerate(ev):
        if e[0] == "P" and k + 1 < len(ev) and ev[k + 1][0] == "S":
            exp = cal_expected_request(case, e[1], e[2], e[3])
            if exp is not None and ev[k + 1][3] != exp:
                return (f"pull of C{e[1]}.i{e[2]} for {e[3]}: the source was asked for {ev[k + 1][3]}, "
                        f"max(t - delay, start) is {exp}")
    if obs["outcome"] != "ok":
        return f"run ended with {obs['outcome']}"
    return None


def gen_calendar_link(rng):
    """S (daily or finer) >> DelayFixed(relativedelta(months=m)) [>> more adapters] >> T, all starting on day 29-31 of a
    month, T stepping by days so that it pulls exactly one calendar delay after the start (where adding and subtracting
    a month are not inverse)."""
    day0 = rng.choice([28, 29, 30, 59, 89, 90, 364 + 30])  # Jan 29/30/31, Feb 29, Mar 30/31 of 2000, Jan 31 2001
    start = day0 * DAY
    months = rng.choice([1, 1, 1, 2, 12])
    chain = [["calfixed", months]]
    r = rng.random()
    if r < 0.25:
        chain.append(["fixed", rng.choice([1, 2]) * DAY])
    elif r < 0.5:
        chain.insert(0, ["fixed", rng.choice([1, 2]) * DAY])
    elif r < 0.65:
        chain.insert(rng.randrange(2), ["pass"])
    comps = [{"kind": "T", "start": start, "steps": [rng.choice([DAY, DAY, DAY // 2])], "initpull": False, "nout": 1, "inputs": []},
             {"kind": "T", "start": start, "steps": [rng.choice([DAY, DAY, 2 * DAY, 3 * DAY])], "initpull": rng.random() < 0.5,
              "nout": 0, "inputs": [{"src": [0, 0], "chain": chain}]}]
    if rng.random() < 0.5:
        comps.reverse()
        comps[0]["inputs"][0]["src"] = [1, 0]
    return {"comps": comps, "end": start + (31 * months + rng.choice([3, 6, 35])) * DAY}


def gen_calendar_ring(rng):
    """ring A -> B -> (C ->) A whose closing link carries a calendar delay of one month (far more than the steps),
    starting on day 29-31: must run to the end"""
    day0 = rng.choice([29, 30, 89, 90, 59])
    start = day0 * DAY
    n = rng.choice([2, 3])
    comps = [{"kind": "T", "start": start, "steps": [rng.choice([1, 2, 3]) * DAY], "initpull": False, "nout": 1, "inputs": []}
             for _ in range(n)]
    for k in range(n):
        comps[k]["inputs"].append({"src": [(k - 1) % n, 0], "chain": []})
    ch = [["calfixed", 1]]
    if rng.random() < 0.5:
        ch.append(["fixed", 2 * DAY])
    comps[0]["inputs"][0]["chain"] = ch
    order = list(range(n))
    rng.shuffle(order)
    return {"comps": permute(comps, order), "end": start + rng.choice([33, 40, 65]) * DAY}


def gen_branching(rng):
    """One output with several branches: a plain adapter that fans out to 2-3 consumers (shared adapter) next to
    branches of their own that start with a time interpolation / integration adapter (a no-branch adapter) or a
    delay adapter, linked in a random order: legal branching must be accepted whatever the link order."""
    unit = rng.choice(UNITS)
    sp = unit * rng.choice([1, 1, 2])
    comps = [{"kind": "T", "start": 0, "steps": [sp], "initpull": False, "nout": 1, "inputs": [], "shared_out": [0]}]
    for _ in range(rng.choice([2, 2, 3])):
        comps.append({"kind": "T", "start": 0, "steps": [sp * rng.choice([1, 2, 3])], "initpull": rng.random() < 0.3, "nout": 0,
                      "inputs": [{"src": [0, 0], "chain": [["pass"]] if rng.random() < 0.3 else []}]})
    for _ in range(rng.choice([1, 1, 2])):
        ch = rng.choice([[["buf", "linear"]], [["buf", "next"]], [["pass"], ["buf", "prev"]], [["fixed", sp]], [["buf", "step"], ["pass"]]])
        comps.append({"kind": "T", "start": 0, "steps": [sp * rng.choice([1, 2, 3])], "initpull": False, "nout": 0,
                      "inputs": [{"src": [0, 0], "chain": ch, "own": True}]})
    order = list(range(len(comps)))
    rng.shuffle(order)
    comps = permute(comps, order)
    nlinks = sum(len(c["inputs"]) for c in comps)
    lo = list(range(nlinks))
    rng.shuffle(lo)
    maxstep = max(max(c["steps"]) for c in comps)
    return {"comps": comps, "end": rng.choice([2, 3, 5]) * maxstep, "link_order": lo}


def gen_ring_staggered(rng, kind=None, src_late=None):
    """A delay-resolved ring (or a delayed plain link) whose components start at DIFFERENT times: the consumer behind
    the delay adapter(s) starts later (or earlier) than its source.  The lower bound of delayed requests is the
    SOURCE's start (the time of the info the source delivers), whoever asks."""
    unit = rng.choice(UNITS)
    n = rng.choice([2, 2, 3])
    comps = [{"kind": "T", "start": 0, "steps": [unit * rng.choice([1, 2, 3])], "initpull": False, "nout": 1, "inputs": []}
             for _ in range(n)]
    total = sum(max(c["steps"]) for c in comps)
    k0 = rng.randrange(n)           # the link into k0 carries the whole delay
    d = total + rng.choice([0, 0, unit])
    kind = kind or rng.choice(["fixed", "fixed", "split", "topull"])
    for k in range(n):
        src = (k - 1) % n
        if k == k0:
            if kind == "fixed":
                ch = [["fixed", d]]
            elif kind == "split":
                a = rng.randint(0, d)
                ch = [["fixed", a], ["fixed", d - a]]
            else:
                steps_k = max(comps[k]["steps"])
                ch = [["topull", max(1, -(-d // steps_k)) + 1, 0]]
            if rng.random() < 0.3:
                ch.insert(rng.randrange(len(ch) + 1), ["pass"])
        else:
            ch = [["pass"]] if rng.random() < 0.3 else []
        comps[k]["inputs"].append({"src": [src, 0], "chain": ch})
    # the consumer behind the delay starts later than its source (sometimes the other way round)
    off = unit * rng.choice([2, 4, 9, 1])
    if (rng.random() < 0.75) if src_late is None else not src_late:
        comps[k0]["start"] = off
    else:
        comps[(k0 - 1) % n]["start"] = off
    if rng.random() < 0.3:
        comps[k0]["initpull"] = True
    order = list(range(n))
    rng.shuffle(order)
    maxstep = max(max(c["steps"]) for c in comps)
    return {"comps": permute(comps, order), "end": off + rng.choice([3, 5, 8]) * maxstep}


def gen_lookahead(rng):
    """Links that move a request FORWARD in time (DelayFixed with a negative delay = look-ahead offset), alone, chained
    with an ordinary delay, and downstream of a pull-based relay: the driver must advance the source to the time that
    will really be requested, which lies beyond the consumer's own next time."""
    unit = rng.choice(UNITS)
    ss = unit * rng.choice([1, 1, 2])
    sc_ = ss * rng.choice([1, 2, 3, 5])
    ahead = unit * rng.choice([1, 2, 3, 7])
    comps = [{"kind": "T", "start": 0, "steps": [ss], "initpull": False, "nout": 1, "inputs": []}]
    r = rng.random()
    if r < 0.5:
        chain = [["fixed", -ahead]]
    elif r < 0.7:
        chain = [["fixed", -ahead], ["fixed", unit]]
    elif r < 0.85:
        chain = [["pass"], ["fixed", -ahead]]
    else:
        chain = [["fixed", unit * 2], ["fixed", -ahead]]
    if rng.random() < 0.3:
        comps.append({"kind": "P", "nout": 1, "inputs": [{"src": [0, 0], "chain": []}]})
        src = 1
    else:
        src = 0
    # (no connect-time pull through a look-ahead link: it would ask for data beyond the initial publication)
    comps.append({"kind": "T", "start": 0, "steps": [sc_], "initpull": False, "nout": 0,
                  "inputs": [{"src": [src, 0], "chain": chain}]})
    if rng.random() < 0.4:
        comps.append({"kind": "T", "start": 0, "steps": gen_steps(rng, unit), "initpull": False, "nout": 0,
                      "inputs": [{"src": [0, 0], "chain": [["pass"]] if rng.random() < 0.5 else []}]})
    order = list(range(len(comps)))
    rng.shuffle(order)
    return {"comps": permute(comps, order), "end": sc_ * rng.choice([2, 3, 5])}


def gen_ring_mixed(rng):
    """A ring resolved by a chain that MIXES DelayFixed and DelayToPull on one link, in both orders (the shifts do not
    commute: DelayToPull ignores its argument).  Constant steps, so that DelayToPull(n) shifts by n consumer steps."""
    unit = rng.choice(UNITS)
    n = rng.choice([2, 3])
    steps = [unit * rng.choice([1, 2, 3]) for _ in range(n)]
    comps = [{"kind": "T", "start": 0, "steps": [steps[k]], "initpull": False, "nout": 1, "inputs": []} for k in range(n)]
    total = sum(steps)
    k0 = rng.randrange(n)
    s0 = steps[k0]
    npull = rng.choice([1, 2, 3])
    rest = max(0, total - npull * s0)
    mode = rng.choice(["exact", "exact", "more", "short"])
    dfix = {"exact": rest, "more": rest + unit, "short": max(0, rest - unit)}[mode]
    ch = [["topull", npull, 0], ["fixed", dfix]]
    if rng.random() < 0.5:
        ch.reverse()
    if rng.random() < 0.3:
        ch.insert(rng.randrange(3), ["pass"])
    for k in range(n):
        comps[k]["inputs"].append({"src": [(k - 1) % n, 0], "chain": ch if k == k0 else ([["pass"]] if rng.random() < 0.3 else [])})
    order = list(range(n))
    rng.shuffle(order)
    return {"comps": permute(comps, order), "end": max(steps) * rng.choice([3, 5, 8])}


def has_ctrl(case):
    return any(c.get("step_by") is not None for c in case["comps"])


def gen_ctrl_step(rng):
    """A consumer whose step length is switched from outside (by a controller component's updates) between two of its
    own updates: the time it announces must be the time its update uses.  Monitor only (in the Coq model the step is a
    function of the component's own update count)."""
    unit = rng.choice(UNITS)
    sa = unit
    comps = [{"kind": "T", "start": 0, "steps": [sa], "initpull": False, "nout": 1, "inputs": []},
             {"kind": "T", "start": 0, "steps": [unit * rng.choice([1, 2, 3])], "initpull": False, "nout": 1, "inputs": []},
             # the consumer also READS the controller: the controller is updated as a dependency of the consumer, i.e.
             # between two evaluations of the consumer's announced time
             {"kind": "T", "start": 0, "steps": [unit * x for x in rng.sample([2, 3, 5, 7, 4], rng.choice([2, 3]))],
              "initpull": rng.random() < 0.3, "nout": 0, "step_by": 1,
              "inputs": [{"src": [0, 0], "chain": [["pass"]] if rng.random() < 0.3 else []}, {"src": [1, 0], "chain": []}]}]
    order = list(range(3))
    rng.shuffle(order)
    pos = {old: new for new, old in enumerate(order)}
    out = permute(comps, order)
    for c in out:
        if c.get("step_by") is not None:
            c["step_by"] = pos[c["step_by"]]
    return {"comps": out, "end": unit * rng.choice([15, 20, 30])}


def gen_relay_twice(rng):
    """ONE output of a pull-based relay read over TWO links by one reader (a delayed "previous" value and the current
    one), in either declaration order; the reader is a time component or a second relay in series."""
    unit = rng.choice(UNITS)
    sa = unit * rng.choice([1, 1, 2])
    scc = sa * rng.choice([2, 3, 5])
    d = max(1, min(rng.choice([sa, 2 * sa, scc - sa, scc]), scc))
    prev = {"src": [1, 0], "chain": [["fixed", d]]}
    now = {"src": [1, 0], "chain": [["pass"]] if rng.random() < 0.3 else []}
    # the delayed link is declared FIRST: the relay's input then sees non-decreasing requests (t-d, t, t'-d, ...);
    # the other order asks for t and then for t-d, which is the known finding F16 (history already released)
    ins = [prev, now]
    comps = [{"kind": "T", "start": 0, "steps": [sa], "initpull": False, "nout": 1, "inputs": []},
             {"kind": "P", "nout": 1, "inputs": [{"src": [0, 0], "chain": []}]}]
    if rng.random() < 0.3:
        comps.append({"kind": "P", "nout": 1, "inputs": ins})              # a second relay "smoothing" the first
        comps.append({"kind": "T", "start": 0, "steps": [scc], "initpull": False, "nout": 0, "inputs": [{"src": [2, 0], "chain": []}]})
    else:
        comps.append({"kind": "T", "start": 0, "steps": [scc], "initpull": rng.random() < 0.3, "nout": 0, "inputs": ins})
    order = list(range(len(comps)))
    rng.shuffle(order)
    return {"comps": permute(comps, order), "end": scc * rng.choice([2, 3, 4])}


def with_listeners(rng, case, p=0.5):
    """turns some inputs of time components into PUSH-BASED slots (sdk CallbackInput) which the component samples at its
    step times all the same.  Only where the link may carry notifications (schedule._check_dead_links): the source is a
    time component.  The scheduler and the model treat such an input like any other."""
    for c in case["comps"]:
        if c["kind"] != "T":
            continue
        for inp in c["inputs"]:
            if case["comps"][inp["src"][0]]["kind"] == "T" and rng.random() < p:
                inp["cbin"] = True
    return case


# ----------------------------------------------------------------------------------------------
# push-based components WITH outputs (kind "R", schedlib.RComp): outside the Coq model (its components are time-stepped
# or pull-based); judged by the property monitors only
# ----------------------------------------------------------------------------------------------
def has_push_comp(case):
    return any(c["kind"] == "R" for c in case.get("comps", []))


def gen_push_merger(rng):
    """a push-based merger R (CallbackInputs in, ordinary Output out) between time components: on a ring
    A >> R >> B (>> C) >> A with an optional tail T >> R, the link R >> B undelayed (must be reported as circular
    coupling) or through a sufficient DelayFixed (must complete); or on a plain path A >> R >> B with a second source"""
    unit = rng.choice(UNITS)
    def steps():
        return [unit * rng.choice([1, 2, 3, 4, 5]) for _ in range(rng.choice([1, 1, 2, 3]))]
    ring = rng.random() < 0.6
    nring = rng.choice([2, 2, 3]) if ring else 2
    names = list(range(nring))           # A=0, B=1, (C=2)
    comps = [{"kind": "T", "start": 0, "steps": steps(), "initpull": False, "nout": 1, "inputs": []} for _ in names]
    tail = rng.random() < 0.75
    r_inputs = [{"src": [0, 0], "chain": [["pass"]] if rng.random() < 0.3 else []}]
    if tail:
        comps.append({"kind": "T", "start": 0, "steps": [unit * rng.choice([1, 1, 7, 100])], "initpull": False,
                      "nout": 1, "inputs": []})
        r_inputs.append({"src": [len(comps) - 1, 0], "chain": []})
        if rng.random() < 0.5:
            r_inputs.reverse()
    comps.append({"kind": "R", "nout": 1, "inputs": r_inputs})
    r = len(comps) - 1
    need = sum(max(c["steps"]) for c in comps[:nring])
    delayed = (rng.random() < 0.5) if ring else (rng.random() < 0.3)
    comps[1]["inputs"].append({"src": [r, 0], "chain": [["fixed", need]] if delayed else []})
    if ring:
        for k in range(1, nring):
            comps[(k + 1) % nring]["inputs"].append({"src": [k, 0], "chain": []})
    order = list(range(len(comps)))
    rng.shuffle(order)
    case = {"comps": permute(comps, order), "end": unit * rng.choice([12, 20, 30]),
            "push_merger": {"ring": ring, "delayed": delayed}}
    return case


def monitor_push_merger(case, obs):
    comps = case["comps"]
    pm = case["push_merger"]
    if obs["phase"] != "run":
        return f"connect phase failed with {obs['outcome']}"
    if pm["ring"] and not pm["delayed"]:
        if obs["outcome"] != "CircularCoupling":
            return (f"an undelayed ring through the push-based component is not reported as circular coupling "
                    f"(outcome {obs['outcome']}, {sum(1 for e in obs['events'] if e[0] == 'U')} updates were made)")
        return None
    pub = {k: c["start"] for k, c in enumerate(comps) if c["kind"] == "T"}
    rpub = {k: obs["t0"] for k, c in enumerate(comps) if c["kind"] == "R"}
    cur = None
    for e in obs["events"]:
        if e[0] == "U":
            pub[e[1]] = e[2]
            cur = e
        elif e[0] == "R":
            rpub[e[1]] = e[2]
        elif e[0] == "S" and comps[e[1]]["kind"] == "T":
            if e[3] > pub[e[1]]:
                return f"output C{e[1]}.o{e[2]} is asked for {e[3]} but has published only up to {pub[e[1]]} (during {cur})"
        elif e[0] == "S" and comps[e[1]]["kind"] == "R":
            if e[3] > rpub[e[1]]:
                return (f"output C{e[1]}.o{e[2]} of the push-based component is asked for {e[3]} but has published only "
                        f"up to {rpub[e[1]]} (during {cur})")
            for j, inp in enumerate(comps[e[1]]["inputs"]):
                s = inp["src"][0]
                if pub[s] < e[3]:
                    return (f"{cur}: the push-based component C{e[1]} is read for {e[3]} although its source C{s} "
                            f"(input i{j}) has published only up to {pub[s]}")
    if obs["outcome"] != "ok":
        return f"run ended with {obs['outcome']}"
    for k, c in enumerate(comps):
        if c["kind"] == "T" and obs["times"][k] < case["end"]:
            return f"C{k} ended at {obs['times'][k]} before the end time {case['end']}"
    return None


def with_lazy_time(case):
    """every time component learns its starting time only in the connect phase (finam's CsvReader: first row of the
    file); the composition can then only be started with an explicit start time.  Same schedule as with known times."""
    for c in case["comps"]:
        if c["kind"] == "T":
            c["lazytime"] = True
    return case


def gen_lazy_infos(rng):
    """metadata that becomes known only in the connect phase on BOTH sides: two or three producers that push the infos of
    their outputs in the connect phase (lazytime) and consumers with several inputs, fed by different producers, that
    declare their inputs without metadata and hand the requested infos to their FIRST try_connect call only.  Which
    input can be exchanged in which connect round depends on the listing order; the outcome must not (seeded C05_s)."""
    unit = rng.choice(UNITS)
    npro = rng.choice([2, 2, 3])
    comps = [{"kind": "T", "start": 0, "steps": [unit * rng.choice([1, 2, 3])], "initpull": False, "nout": 1, "inputs": [],
              "lazytime": True} for _ in range(npro)]
    ncon = 1 if npro == 3 else rng.choice([1, 2])
    for _ in range(ncon):
        srcs = rng.sample(range(npro), rng.choice([2, npro]))
        comps.append({"kind": "T", "start": 0, "steps": [unit * rng.choice([1, 2, 3])], "initpull": rng.random() < 0.5,
                      "nout": 0, "lazyin": True, "lazytime": rng.random() < 0.3,
                      "inputs": [{"src": [s_, 0], "chain": [["pass"]] if rng.random() < 0.25 else []} for s_ in srcs]})
    order = list(range(len(comps)))
    rng.shuffle(order)
    return {"comps": permute(comps, order), "end": unit * rng.choice([4, 6, 9])}


def gen_connect_chain(rng):
    """a chain of 3-5 time components, each needing its predecessor's initial data in the connect phase; the components
    carry the SAME name (nobody called with_name: finam names a component after its class)"""
    unit = rng.choice(UNITS)
    n = rng.choice([3, 4, 4, 5])
    comps = []
    for k in range(n):
        # "pap": the initial data is published only once the own initial pull succeeded (as a CallbackComponent does)
        comps.append({"kind": "T", "start": 0, "steps": [unit * rng.choice([1, 2, 3])], "initpull": k > 0, "nout": 1,
                      "pap": k > 0 and rng.random() < 0.8,
                      "inputs": [] if k == 0 else [{"src": [k - 1, 0], "chain": [["pass"]] if rng.random() < 0.3 else []}]})
    if rng.random() < 0.6:
        # the last one also reads the head of the chain: its two initial pulls are served in different connect rounds
        comps[-1]["inputs"].insert(rng.randrange(2), {"src": [0, 0], "chain": []})
        comps[-1]["pap"] = True
    order = list(range(n))
    rng.shuffle(order)
    return {"comps": permute(comps, order), "end": unit * rng.choice([4, 6, 9]), "samename": rng.random() < 0.7}


def gen_shared_and_own(rng):
    """one output read by two consumers behind ONE shared pass-through adapter (branching at the adapter) AND by further
    consumers behind their own chains, one of them a time-interpolation / integration adapter (which must not branch):
    a legal wiring whichever link is created first"""
    unit = rng.choice(UNITS)
    sp = unit * rng.choice([1, 1, 2])
    comps = [{"kind": "T", "start": 0, "steps": [sp], "initpull": False, "nout": 1, "inputs": [], "shared_out": [0]}]
    for _ in range(2):
        comps.append({"kind": "T", "start": 0, "steps": [sp * rng.choice([1, 2, 3])], "initpull": rng.random() < 0.3,
                      "nout": 0, "inputs": [{"src": [0, 0], "chain": [["pass"]] if rng.random() < 0.3 else []}]})
    for k in range(rng.choice([1, 1, 2])):
        ch = [["buf", rng.choice(["next", "prev", "linear", "step", "avg", "sum"])]] if k == 0 else \
            rng.choice([[], [["pass"]], [["fixed", sp]]])
        if k == 0 and rng.random() < 0.3:
            ch = [["pass"]] + ch
        comps.append({"kind": "T", "start": 0, "steps": [sp * rng.choice([1, 2, 3])], "initpull": False, "nout": 0,
                      "inputs": [{"src": [0, 0], "chain": ch, "own": True}]})
    order = list(range(len(comps)))
    rng.shuffle(order)
    maxstep = max(max(c["steps"]) for c in comps)
    return {"comps": permute(comps, order), "end": rng.choice([2, 3, 5]) * maxstep}


def gen_topush_behind_pull(rng):
    """a DelayToPush directly (or through a pass-through adapter) behind a pull-based component: it never sees a push,
    keeps answering for the initial time, and the link is no dependency"""
    unit = rng.choice(UNITS)
    src = {"kind": "T", "start": 0, "steps": [unit * rng.choice([1, 1, 2])], "initpull": False, "nout": 1, "inputs": []}
    relay = {"kind": "P", "nout": 1, "inputs": [{"src": [0, 0], "chain": [["pass"]] if rng.random() < 0.3 else []}]}
    ch = [["topush"]] + ([["pass"]] if rng.random() < 0.3 else [])
    if rng.random() < 0.3:
        ch = [["pass"]] + ch
    cons = {"kind": "T", "start": unit * rng.choice([0, 0, 1]), "steps": [unit * rng.choice([2, 3, 5])], "initpull": False,
            "nout": 0, "inputs": [{"src": [1, 0], "chain": ch}]}
    comps = [src, relay, cons]
    if rng.random() < 0.5:
        comps.append({"kind": "T", "start": 0, "steps": [unit * rng.choice([2, 5])], "initpull": False, "nout": 0,
                      "inputs": [{"src": [0, 0], "chain": [["topush"]]}]})
    order = list(range(len(comps)))
    rng.shuffle(order)
    return {"comps": permute(comps, order), "end": unit * rng.choice([12, 20])}
