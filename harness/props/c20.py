"""C20 — static slots are time independent; pull-based components are served on demand.

Correspondence (three case kinds, one Coq model file FV.Static):

* "so":  a real static ``fm.Output`` with 1-3 inputs is driven by scripted pushes / requests
         (request times: datetimes and ``None``; ops before the info exchange; repeated pushes).
* "si":  1-3 real static ``fm.Input`` on one static output; every call that reaches
         ``Output.get_data`` is counted at the output boundary.
* "net": real compositions: time-stepped producers (arbitrary step streams), static producers,
         one or two layers of pull-based components (``fm.components.WeightedSum`` and a harness
         component built from ``fm.Component`` + ``fm.CallbackOutput``), adapters (Scale, DelayFixed, DelayToPull on links into the merger)
         on the links, time-stepped consumers.  mode "run": ``Composition.connect`` + ``Composition.run``
         (the real scheduler decides the order); mode "script": ``Composition.connect`` and then scripted
         producer updates / consumer requests in arbitrary order (repeated, decreasing, out-of-range
         request times).  Instance-level wrappers record, at the slot boundaries, every publication,
         info exchange, connector fetch and consumer request together with the trace of the request:
         the time arriving at every adapter / output on the way, the time handed to every provider
         callback, the times at which the pull-based components pull their inputs and what they get.
         The Coq model FV.Static.nrun replays exactly the recorded boundary ops and must reproduce
         every result (value with tolerance 2^-30, or error class) and every trace.
"""
from fractions import Fraction

from ..coqgen import B, C, L, N, NONE, P, Q, Some, Z
from .. import fin
from ..fin import fm, T, D, us_of, err_class
from .. import schedlib as _schedlib
from . import sched_common as _sc
from . import c04 as _c04

ID = "C20"
TITLE = "Static slots are time independent; pull-based components are served on demand"
COQ_IMPORTS = "From FV Require Import Base Sched Static C20Mix."
COQ_CHECK = "c20_check2"
COQ_MODEL_OBS = "c20_model2"
CASE_TIMEOUT = 60
RULE = (
    "so/si: scripted op sequences on real static outputs / inputs (requests with datetimes and None, second "
    "pushes, ops before the info exchange); net: compositions with 1-3 time-stepped producers (step streams "
    "fixed / alternating / random from 1us..days), static producers, 1-4 pull-based components in one or two "
    "layers (WeightedSum, harness CallbackOutput component with 1-2 outputs; fan-out, diamonds, two outputs of "
    "one pull-based component read by one consumer), Scale / DelayFixed adapters on any link, DelayToPull (steps 1-3, extra delay) on links into a WeightedSum whose output one consumer reads twice, 1-2 time-stepped "
    "consumers; run through Composition.run or scripted after Composition.connect.  non-trivial = a net case "
    "in which a consumer read through a pull-based component from a producer whose step stream differs from "
    "the consumer's (at least 3 successful reads), or a static case with >= 3 requests after an accepted "
    "publication; distinct by canonical case hash"
)
TRUSTED = [
    "instance-level wrappers (get_data / callback / push_data / get_info / pull_data / _validate) record ops and traces "
    "at the slot boundaries; the Coq case is the recorded op sequence",
    "units are modelled as positive rational SI factors of one dimension (m, mm, km, dimensionless); pint is an oracle",
    "IEEE rounding: values compared with tolerance |m-o| <= 2^-30*max(1,|m|)",
]
ASSUMPTIONS = [
    "static payload tokens: the i-th push carries the value i+1; delivered publication identified by value",
    "harness pull-based component: callback pulls each of its inputs at the requested time and returns bias + sum",
    "scheduler-level guarantee through pull-based components is checked here by the monitor on every run "
    "(newest publication >= time arriving at a producer output; no error); its proof lives in the scheduler model",
]

DAY = 86400 * 10**6
HOUR = 3600 * 10**6
UNIT_F = {"": Fraction(1), "m": Fraction(1), "mm": Fraction(1, 1000), "km": Fraction(1000)}


def _fr(x):
    return Fraction(x[0], x[1])


def _fj(fr):
    fr = Fraction(fr)
    return [fr.numerator, fr.denominator]


# ----------------------------------------------------------------------------
# generators
# ----------------------------------------------------------------------------
def _gen_times(rng):
    base = rng.choice([0, 0, DAY, 5])
    return [None, base, base + 1, base + rng.choice([2, 7, HOUR, DAY]), base - rng.choice([1, DAY]), base + 400 * DAY]


PAYLOADS = ["scalar", "scalar", "grid", "masked"]
MEMS = [None, None, 0, "below", "huge"]


def _gen_conv(rng, payload, k):
    """per input: None (same units / grid), "km" / "mm" (compatible units), "flip" (grid differing only in
    axes_increase), or both ("km+flip")"""
    opts = [None, "km", "mm"] + (["flip", "flip", "km+flip"] if payload != "scalar" else [])
    return [rng.choice(opts) if rng.random() < 0.7 else None for _ in range(k)]


def _gen_so(rng):
    k = rng.choice([1, 1, 2, 3])
    times = _gen_times(rng)
    ops = []
    n = rng.randint(3, 14)
    exch_at = 0 if rng.random() < 0.7 else rng.randint(0, 4)
    for i in range(n):
        if i == exch_at:
            ops.append(["exch"])
        r = rng.random()
        if r < 0.3:
            ops.append(["push", rng.choice(times)])
        else:
            ops.append(["get", rng.randrange(k), rng.choice(times), rng.random() < 0.3])
    if ["exch"] not in ops:
        ops.append(["exch"])
        ops.append(["get", 0, None, False])
    payload = rng.choice(PAYLOADS)
    return {"kind": "so", "k": k, "ops": ops, "payload": payload, "conv": _gen_conv(rng, payload, k), "mem": rng.choice(MEMS)}


def _gen_si(rng):
    k = rng.choice([1, 2, 2, 3])
    times = _gen_times(rng)
    ops = []
    n = rng.randint(3, 14)
    exch_at = 0 if rng.random() < 0.8 else rng.randint(0, 3)
    for i in range(n):
        if i == exch_at:
            ops.append(["exch"])
        r = rng.random()
        if r < 0.25:
            ops.append(["push", rng.choice(times)])
        else:
            ops.append(["pull", rng.randrange(k), rng.choice(times)])
    if ["exch"] not in ops:
        ops.append(["exch"])
        ops.append(["pull", 0, None])
    payload = rng.choice(PAYLOADS)
    return {"kind": "si", "k": k, "ops": ops, "payload": payload, "conv": _gen_conv(rng, payload, k), "mem": rng.choice([None, None, 0])}


def _dy(rng, small=False):
    """a small dyadic rational"""
    den = rng.choice([1, 1, 2, 4, 8])
    num = rng.randint(0 if small else -8, 16)
    return _fj(Fraction(num, den))


def _steps(rng, unit):
    mode = rng.random()
    if mode < 0.35:
        return [unit * rng.randint(1, 7)]
    if mode < 0.65:
        return [unit * rng.randint(1, 7), unit * rng.randint(1, 7)]
    return [unit * rng.randint(1, 12) for _ in range(rng.choice([3, 4, 5]))]


def _adapters(rng, unit, src_static, p=0.45):
    ads = []
    if rng.random() < p:
        for _ in range(rng.choice([1, 1, 2, 3])):
            if src_static or rng.random() < 0.4:
                ads.append(["scale", _fj(Fraction(rng.choice([1, 2, 3, 1, -1]), rng.choice([1, 2, 4])))])
            else:
                ads.append(["delay", unit * rng.choice([0, 1, 2, 3, 5, 11]) + rng.choice([0, 0, 0, 1])])
    return ads


def _gen_net(rng, mode, allow_diverging=False):
    unit = rng.choice([1, 1, 1000, HOUR, DAY, DAY])
    t0 = rng.choice([0, 0, DAY, 5])
    dimL = rng.choice(["m", "mm", "km"])
    prods = []
    pstat = []
    srcs = {"L": [], "1": []}  # available sources by dimension:  (src ref, is_static)
    for pi in range(rng.choice([1, 2, 2, 3])):
        outs = []
        for oi in range(rng.choice([2, 2, 3])):
            u = "" if oi == 1 else rng.choice(["m", "mm", "km", dimL, ""])
            outs.append({"unit": u, "a": _dy(rng), "b": _dy(rng)})
            srcs["1" if u == "" else "L"].append((["p", pi, oi], False))
        if rng.random() < 0.45:
            # a static parameter output owned by the time-stepped producer
            u = rng.choice(["", "", dimL, "m"])
            outs.append({"unit": u, "static": True, "v": _dy(rng)})
            srcs["1" if u == "" else "L"].append((["p", pi, len(outs) - 1], True))
            pstat.append(["p", pi, len(outs) - 1])
        prods.append({"steps": _steps(rng, unit), "outs": outs})
    stats = []
    if rng.random() < 0.5:
        for si in range(rng.choice([1, 2])):
            u = rng.choice(["", "", "m", "km"])
            so = {"unit": u, "v": _dy(rng)}
            if rng.random() < 0.5:
                # info of the static output carries a time: before / at / after the composition start
                so["stamp"] = t0 + rng.choice([-365 * DAY, -unit, 0, unit, 2 * unit, 3 * DAY])
            stats.append({"outs": [so]})
            srcs["1" if u == "" else "L"].append((["s", si, 0], True))

    def edge(dim=None, prefer=None, nostatic=False):
        pool = (srcs["L"] + srcs["1"]) if dim is None else srcs[dim]
        if nostatic == "all":
            pool = [x for x in pool if not x[1]]
        elif nostatic:
            pool = [x for x in pool if x[0][0] != "s"]
        if prefer:
            pp = [x for x in pool if x[0][0] == "w" and x[0][1] in prefer]
            if pp and rng.random() < 0.8:
                pool = pp
        s, st = rng.choice(pool)
        return {"src": s, "ad": _adapters(rng, unit, st)}

    pulls = []
    nl1 = rng.choice([1, 1, 2])
    nl2 = rng.choice([0, 0, 1, 1, 2])
    new_l1 = []
    for wi in range(nl1 + nl2):
        if wi == nl1:
            for dd, nn in new_l1:
                srcs[dd].extend(nn)
        prefer = list(range(nl1)) if wi >= nl1 else None
        if rng.random() < 0.6:
            dim = "L" if (any(not x[1] for x in srcs["L"]) and rng.random() < 0.8) else "1"
            ins = []
            npair = rng.choice([1, 2, 2, 3])
            for k in range(npair):
                # (a static value input in the last position would leave the merger's output info without a
                #  time: outside the domain)
                ins.append(edge(dim, prefer, nostatic=("all" if k == npair - 1 else True)))
                ins.append(edge("1", prefer if rng.random() < 0.3 else None))
            pulls.append({"type": "ws", "ins": ins})
            new = [(["w", wi, 0], False)]
            d = dim
        else:
            nout = rng.choice([1, 1, 2])
            ins = [edge(None, prefer) for _ in range(rng.choice([1, 1, 2, 3]))]
            pulls.append({"type": "cb", "outs": [_dy(rng) for _ in range(nout)], "ins": ins})
            new = [(["w", wi, oi], False) for oi in range(nout)]
            d = "1"
        # layer-1 outputs become visible to layer 2 only (=> no cycles, depth <= 2)
        if wi < nl1:
            new_l1.append((d, new))
    allw = [(["w", wi, oi], False) for wi, pc in enumerate(pulls) for oi in range(1 if pc["type"] == "ws" else len(pc["outs"]))]
    cons = []
    for ci in range(rng.choice([1, 1, 2])):
        ins = []
        for _ in range(rng.choice([1, 2, 2, 3])):
            r = rng.random()
            if r < 0.75:
                s, st = rng.choice(allw)
                ins.append({"edge": {"src": s, "ad": _adapters(rng, unit, False)}, "static": False})
            elif r < 0.87 or not (stats or pstat):
                e = edge()
                ins.append({"edge": e, "static": False})
            else:
                allst = [["s", si, 0] for si in range(len(stats))] + pstat
                ins.append({"edge": {"src": list(rng.choice(allst)), "ad": _adapters(rng, unit, True, 0.3)}, "static": rng.random() < 0.5})
        cons.append({"steps": _steps(rng, unit), "ins": ins, "pull_at_connect": rng.random() < 0.6})
    case = {"kind": "net", "mode": mode, "t0": t0, "prods": prods, "stats": stats, "pulls": pulls, "cons": cons}
    if not allow_diverging and rng.random() < 0.3:
        # state-dependent delay (DelayToPull) on links from producers INTO a WeightedSum, and the merger read
        # twice by one consumer (directly and through Scale): needs the merger's one-pull-per-time memo
        for wi, w in enumerate(pulls):
            if w["type"] != "ws":
                continue
            hit = False
            for e in w["ins"]:
                o = prods[e["src"][1]]["outs"][e["src"][2]] if e["src"][0] == "p" else None
                if o is not None and not o.get("static") and rng.random() < 0.6:
                    e["ad"].insert(rng.randint(0, len(e["ad"])), ["dtp", [rng.choice([1, 1, 2, 3]), unit * rng.choice([0, 0, 1, 2])]])
                    hit = True
            if hit and rng.random() < 0.7:
                c = rng.choice(cons)
                c["ins"].append({"edge": {"src": ["w", wi, 0], "ad": []}, "static": False})
                c["ins"].append({"edge": {"src": ["w", wi, 0], "ad": [["scale", [1, 2]]]}, "static": False})
    if mode == "run" and not allow_diverging and rng.random() < 0.2:
        # a producer that starts later than the composition, named last in a WeightedSum (its start becomes the
        # initial time of the merger's output), DelayFixed of >= 1 consumer step downstream, connect-time pull:
        # the connect-time request is clamped to a time for which the merger has not pulled anything yet
        wss = [wi for wi, w in enumerate(pulls) if w["type"] == "ws" and w["ins"][-2]["src"][0] == "p"
               and not prods[w["ins"][-2]["src"][1]]["outs"][w["ins"][-2]["src"][2]].get("static")]
        if wss:
            wi = rng.choice(wss)
            prods[pulls[wi]["ins"][-2]["src"][1]]["off"] = unit * rng.choice([1, 2, 3])
            st = _steps(rng, unit)
            case["cons"] = cons = [{"steps": st, "pull_at_connect": True,
                                    "ins": [{"edge": {"src": ["w", wi, 0], "ad": [["delay", st[0] * rng.choice([1, 1, 2])]]}, "static": False}]}]
    if mode == "run":
        if not allow_diverging:
            _make_converging(case)
        st = cons[0]["steps"]
        nupd = rng.randint(4, 10)
        case["end"] = t0 + sum(st[i % len(st)] for i in range(nupd)) + rng.choice([0, 0, 1, -1])
    else:
        script = []
        ptime = [t0] * len(prods)
        pcnt = [0] * len(prods)
        last = t0
        for _ in range(rng.randint(6, 24)):
            if rng.random() < 0.4:
                p = rng.randrange(len(prods))
                st = prods[p]["steps"]
                ptime[p] += st[pcnt[p] % len(st)]
                pcnt[p] += 1
                script.append(["upd", p])
            else:
                c = rng.randrange(len(cons))
                i = rng.randrange(len(cons[c]["ins"]))
                hi = min(ptime)
                r = rng.random()
                if r < 0.3:
                    t = last  # repeat: memo hit
                elif r < 0.75:
                    t = rng.randint(last, hi) if last <= hi else last
                elif r < 0.85:
                    t = rng.randint(t0, max(ptime))  # may decrease / exceed some producer
                elif r < 0.95:
                    t = max(ptime) + rng.choice([1, unit])
                else:
                    t = t0 - rng.choice([1, unit])
                last = max(last, min(t, hi)) if t >= t0 else last
                script.append(["pull", c, i, t])
        case["script"] = script
    return case


def _request_signatures(case):
    """for every pull-based component: the set of (consumer step stream, delays on the way) under which
    it is asked for data.  More than one element = it is read at diverging times (known finding F16)."""
    sigs = {wi: set() for wi in range(len(case["pulls"]))}

    def visit(edge, who, sig):
        if edge["src"][0] != "w":
            return
        sig = sig + tuple(a[1] for a in edge["ad"] if a[0] == "delay")
        wi = edge["src"][1]
        sigs[wi].add((who, sig))
        for e in case["pulls"][wi]["ins"]:
            visit(e, who, sig)

    for c in case["cons"]:
        for x in c["ins"]:
            if not x["static"]:
                visit(x["edge"], tuple(c["steps"]), ())
    return sigs


def _diverging(case):
    return any(len(v) > 1 for v in _request_signatures(case).values())


def _make_converging(case):
    """restrict a generated composition to the domain in which every pull-based component sees one
    sequence of request times: no delay adapters downstream of a pull-based component, equal consumer steps"""
    if not _diverging(case):
        return case
    for c in case["cons"]:
        for x in c["ins"]:
            if x["edge"]["src"][0] == "w":
                x["edge"]["ad"] = [a for a in x["edge"]["ad"] if a[0] != "delay"]
    for w in case["pulls"]:
        for e in w["ins"]:
            if e["src"][0] == "w":
                e["ad"] = [a for a in e["ad"] if a[0] != "delay"]
    if _diverging(case):
        for c in case["cons"][1:]:
            c["steps"] = list(case["cons"][0]["steps"])
    assert not _diverging(case)
    return case


def _net(prods, pulls, cons, stats=(), mode="run", t0=0, end=None, script=None):
    c = {"kind": "net", "mode": mode, "t0": t0, "prods": prods, "stats": list(stats), "pulls": pulls, "cons": cons}
    if mode == "run":
        c["end"] = end
    else:
        c["script"] = script
    return c


def _po(unit, a, b):
    return {"unit": unit, "a": _fj(Fraction(a)), "b": _fj(Fraction(b))}


def _e(src, *ad):
    return {"src": list(src), "ad": [list(a) for a in ad]}


CORPUS = [
    {"kind": "so", "k": 1, "ops": [["exch"], ["get", 0, None, False], ["push", 0], ["get", 0, None, False], ["get", 0, 0, True],
                                    ["push", DAY], ["get", 0, 400 * DAY, False], ["get", 0, -1, False]]},
    {"kind": "so", "k": 2, "ops": [["push", 0], ["get", 1, 0, False], ["exch"], ["push", None], ["push", None], ["get", 1, DAY, False], ["get", 0, None, True]]},
    {"kind": "si", "k": 2, "ops": [["exch"], ["pull", 0, 0], ["push", 0], ["pull", 0, DAY], ["pull", 0, None], ["pull", 1, None],
                                    ["push", 5], ["pull", 1, 7], ["pull", 0, 7]]},
    # F12 (fixed): WeightedSum behind DelayFixed: the clamp repeats the connect-time request -> memo hit
    _net([{"steps": [DAY], "outs": [_po("m", 0, 1), _po("", Fraction(1, 2), 0)]}],
         [{"type": "ws", "ins": [_e(("p", 0, 0)), _e(("p", 0, 1))]}],
         [{"steps": [2 * DAY], "ins": [{"edge": _e(("w", 0, 0), ("delay", 5 * DAY)), "static": False}], "pull_at_connect": True}],
         end=8 * DAY),
    # F12 (fixed): fan-out of the WeightedSum output to two inputs with equal request times
    _net([{"steps": [DAY], "outs": [_po("m", 0, 1), _po("", Fraction(1, 2), 0)]},
          {"steps": [3 * DAY], "outs": [_po("m", 0, 2), _po("", Fraction(1, 4), 0)]}],
         [{"type": "ws", "ins": [_e(("p", 0, 0)), _e(("p", 0, 1)), _e(("p", 1, 0)), _e(("p", 1, 1))]}],
         [{"steps": [2 * DAY], "ins": [{"edge": _e(("w", 0, 0)), "static": False}, {"edge": _e(("w", 0, 0)), "static": False}],
           "pull_at_connect": True}],
         end=6 * DAY),
    # mixed units (mm / m): the common units are those of the inputs, value in SI is the sum
    _net([{"steps": [DAY], "outs": [_po("mm", 0, 1), _po("", Fraction(1, 2), 0)]},
          {"steps": [3 * DAY], "outs": [_po("m", 0, 2), _po("", Fraction(1, 4), 0)]}],
         [{"type": "ws", "ins": [_e(("p", 0, 0)), _e(("p", 0, 1)), _e(("p", 1, 0)), _e(("p", 1, 1))]}],
         [{"steps": [2 * DAY], "ins": [{"edge": _e(("w", 0, 0)), "static": False}], "pull_at_connect": True}],
         end=12 * DAY),
    # F9 (fixed): two outputs of one pull-based component read by one consumer; diamond through a shared one
    _net([{"steps": [3, 5], "outs": [_po("m", 1, 1), _po("", 1, Fraction(1, 4))]}],
         [{"type": "cb", "outs": [_fj(1), _fj(2)], "ins": [_e(("p", 0, 0), ("delay", 2))]}],
         [{"steps": [2], "ins": [{"edge": _e(("w", 0, 0)), "static": False}, {"edge": _e(("w", 0, 1)), "static": False}],
           "pull_at_connect": False}],
         end=20),
    _net([{"steps": [7], "outs": [_po("m", 1, 1), _po("", 1, Fraction(1, 4))]}],
         [{"type": "cb", "outs": [_fj(0)], "ins": [_e(("p", 0, 1))]},
          {"type": "ws", "ins": [_e(("p", 0, 0)), _e(("w", 0, 0))]},
          {"type": "cb", "outs": [_fj(5)], "ins": [_e(("w", 0, 0), ("scale", [3, 1]))]}],
         [{"steps": [2, 3], "ins": [{"edge": _e(("w", 1, 0)), "static": False}, {"edge": _e(("w", 2, 0), ("scale", [1, 2])), "static": False}],
           "pull_at_connect": True}],
         end=30),
    # the same diamond with a delay on one branch: the shared component is read at diverging times (known finding F16)
    _net([{"steps": [7], "outs": [_po("m", 1, 1), _po("", 1, Fraction(1, 4))]}],
         [{"type": "cb", "outs": [_fj(0)], "ins": [_e(("p", 0, 1))]},
          {"type": "ws", "ins": [_e(("p", 0, 0)), _e(("w", 0, 0))]},
          {"type": "cb", "outs": [_fj(5)], "ins": [_e(("w", 0, 0), ("scale", [3, 1]))]}],
         [{"steps": [2, 3], "ins": [{"edge": _e(("w", 1, 0)), "static": False}, {"edge": _e(("w", 2, 0), ("delay", 4)), "static": False}],
           "pull_at_connect": True}],
         end=30),
    # static weights, static consumer input, test_pull_based_component style chain
    _net([{"steps": [DAY], "outs": [_po("km", 2, 1), _po("", 1, 0)]}],
         [{"type": "ws", "ins": [_e(("p", 0, 0)), _e(("s", 0, 0))]}],
         [{"steps": [5 * HOUR], "ins": [{"edge": _e(("w", 0, 0)), "static": False}, {"edge": _e(("s", 0, 0), ("scale", [2, 1])), "static": True}],
           "pull_at_connect": True}],
         stats=[{"outs": [{"unit": "", "v": _fj(Fraction(3, 4))}]}], end=3 * DAY),
    # scripted: repeated / decreasing / out-of-range requests on a WeightedSum
    _net([{"steps": [10], "outs": [_po("m", 0, 1), _po("", 1, 1)]}],
         [{"type": "ws", "ins": [_e(("p", 0, 0)), _e(("p", 0, 1))]}],
         [{"steps": [1], "ins": [{"edge": _e(("w", 0, 0)), "static": False}], "pull_at_connect": False}],
         mode="script", script=[["pull", 0, 0, 0], ["pull", 0, 0, 0], ["upd", 0], ["pull", 0, 0, 4], ["pull", 0, 0, 6], ["pull", 0, 0, 6],
                                ["pull", 0, 0, 11], ["pull", 0, 0, 6], ["upd", 0], ["pull", 0, 0, 20], ["pull", 0, 0, 0], ["pull", 0, 0, 20]]),
]


# seeded mutants C20_c / C20_d: conversion on a static link must happen on EVERY read; a spilled first value
# must not make a second publication acceptable
CORPUS.append({"kind": "si", "k": 1, "payload": "scalar", "conv": ["km"], "mem": None,
               "ops": [["exch"], ["push", 0], ["pull", 0, 0], ["pull", 0, DAY], ["pull", 0, None]]})
CORPUS.append({"kind": "si", "k": 2, "payload": "masked", "conv": ["flip", "km+flip"], "mem": 0,
               "ops": [["exch"], ["pull", 0, None], ["push", 0], ["pull", 0, 5], ["pull", 1, None], ["pull", 0, None], ["pull", 1, 7], ["push", 9], ["pull", 1, 7]]})
CORPUS.append({"kind": "so", "k": 2, "payload": "scalar", "conv": [None, "mm"], "mem": 0,
               "ops": [["exch"], ["push", 0], ["get", 0, None, False], ["push", DAY], ["get", 1, DAY, False], ["push", None], ["get", 0, 0, True]]})
CORPUS.append({"kind": "so", "k": 1, "payload": "masked", "conv": ["km+flip"], "mem": "below",
               "ops": [["exch"], ["push", None], ["push", None], ["get", 0, None, False], ["get", 0, 400 * DAY, False], ["get", 0, 0, True]]})
CORPUS.append({"kind": "so", "k": 3, "payload": "grid", "conv": ["flip", None, "km"], "mem": "huge",
               "ops": [["exch"], ["push", 0], ["push", 0], ["get", 0, None, False], ["get", 1, 5, False], ["get", 2, None, False]]})

# seeded mutant C20_b: a time-stepped model publishes a static parameter next to its state; read by ordinary
# (non-static) inputs of a time-stepped consumer, by a static input, and as static weight / value of a WeightedSum
CORPUS.append(_net(
    [{"steps": [2 * DAY], "outs": [_po("m", 0, 1), _po("", 1, Fraction(1, 2)),
                                   {"unit": "m", "static": True, "v": _fj(42)}, {"unit": "", "static": True, "v": _fj(Fraction(3, 4))}]}],
    [],
    [{"steps": [3 * DAY], "ins": [{"edge": _e(("p", 0, 2)), "static": False}, {"edge": _e(("p", 0, 0)), "static": False},
                                  {"edge": _e(("p", 0, 2), ("scale", [2, 1])), "static": True}], "pull_at_connect": True}],
    end=12 * DAY))
CORPUS.append(_net(
    [{"steps": [5, 3], "outs": [_po("mm", 1, 1), _po("", 1, 0),
                                {"unit": "m", "static": True, "v": _fj(2)}, {"unit": "", "static": True, "v": _fj(Fraction(1, 4))}]}],
    [{"type": "ws", "ins": [_e(("p", 0, 2)), _e(("p", 0, 1)), _e(("p", 0, 0)), _e(("p", 0, 3))]}],
    [{"steps": [4], "ins": [{"edge": _e(("w", 0, 0)), "static": False}, {"edge": _e(("p", 0, 3)), "static": False}], "pull_at_connect": False}],
    end=30))

# round-4 seeded regression (WeightedSum without its per-time memo): DelayToPull on a link INTO the merger, the
# merger read twice by ONE consumer (directly and through Scale) - the second read of an update must not advance
# the DelayToPull history
for _pc in (False, True):
    CORPUS.append(_net(
        [{"steps": [DAY], "outs": [_po("m", 0, 1), _po("", 1, 0)]}],
        [{"type": "ws", "ins": [_e(("p", 0, 0), ("dtp", [1, 0])), _e(("p", 0, 1))]}],
        [{"steps": [3 * DAY], "ins": [{"edge": _e(("w", 0, 0)), "static": False},
                                      {"edge": _e(("w", 0, 0), ("scale", [1, 2])), "static": False}], "pull_at_connect": _pc}],
        end=12 * DAY))
CORPUS.append(_net(
    [{"steps": [2, 3], "outs": [_po("mm", 1, 1), _po("", 1, Fraction(1, 2))]}, {"steps": [4], "outs": [_po("m", 2, 1), _po("", 2, 0)]}],
    [{"type": "ws", "ins": [_e(("p", 0, 0), ("scale", [2, 1]), ("dtp", [2, 1])), _e(("p", 0, 1), ("dtp", [1, 0])),
                            _e(("p", 1, 0), ("dtp", [3, 2]), ("delay", 1)), _e(("p", 1, 1))]}],
    [{"steps": [5, 2], "ins": [{"edge": _e(("w", 0, 0)), "static": False}, {"edge": _e(("w", 0, 0)), "static": False},
                               {"edge": _e(("w", 0, 0), ("scale", [3, 1])), "static": False}], "pull_at_connect": True}],
    end=40))

# stale connect-phase memo of the WeightedSum: X from day 0, Y starts on day 2 and is named last, DelayFixed(1 d)
# downstream, consumer with connect-time pull: the run-phase request for day 2 must pull X for day 2
CORPUS.append(_net(
    [{"steps": [DAY], "outs": [_po("m", 0, 10), _po("", 1, 0)]},
     {"steps": [DAY], "off": 2 * DAY, "outs": [_po("m", 1000, 0), _po("", 1, 0)]}],
    [{"type": "ws", "ins": [_e(("p", 0, 0)), _e(("p", 0, 1)), _e(("p", 1, 0)), _e(("p", 1, 1))]}],
    [{"steps": [DAY], "ins": [{"edge": _e(("w", 0, 0), ("delay", DAY)), "static": False}], "pull_at_connect": True}],
    end=5 * DAY))

# mask of the sum must not depend on the naming order: plain array first / masked array first
for _ord in ([0, 1], [1, 0]):
    CORPUS.append({"kind": "cells", "order": _ord, "step": 1, "nreq": 2, "prods": [
        {"unit": "m", "v": _fj(10), "dv": _fj(1), "w": _fj(Fraction(1, 2)), "mask_v": None, "mask_w": None},
        {"unit": "m", "v": _fj(100), "dv": _fj(1), "w": _fj(2), "mask_v": [False, False, True, False, False, False], "mask_w": None}]})

# seeded variant C20_l: the info of a static output carries a time stamp that differs from the composition's
# start ("valid since 1999" / an Info shared with a later starting component): still exactly one publication
for _st in (-365 * DAY, 2 * DAY):
    CORPUS.append(_net(
        [{"steps": [DAY], "outs": [_po("m", 0, 1), _po("", 1, 0)]}],
        [{"type": "ws", "ins": [_e(("p", 0, 0)), _e(("s", 0, 0))]}],
        [{"steps": [2 * DAY], "ins": [{"edge": _e(("w", 0, 0)), "static": False}, {"edge": _e(("s", 0, 0)), "static": False},
                                      {"edge": _e(("s", 1, 0), ("scale", [2, 1])), "static": True}], "pull_at_connect": True}],
        stats=[{"outs": [{"unit": "", "v": _fj(Fraction(3, 4)), "stamp": _st}]}, {"outs": [{"unit": "km", "v": _fj(5), "stamp": _st + DAY}]}],
        end=6 * DAY))

# known finding F16: one pull-based component read by two consumers with different steps
F16_CASE = _net([{"steps": [7], "outs": [_po("m", 1, 1), _po("", 1, 0)]}],
                [{"type": "ws", "ins": [_e(("p", 0, 0)), _e(("p", 0, 1))]}],
                [{"steps": [7], "ins": [{"edge": _e(("w", 0, 0)), "static": False}], "pull_at_connect": False},
                 {"steps": [2], "ins": [{"edge": _e(("w", 0, 0)), "static": False}], "pull_at_connect": False}],
                end=14)
CORPUS.append(F16_CASE)


def _nonmonotone_pull_input(obs):
    """some input of a pull-based component received a request time lower than an earlier one"""
    last = {}
    for op in obs.get("ops", []):
        log = op[5] if op[0] == "fetch" else (op[4] if op[0] == "pull" else [])
        for x in log or []:
            if x[0] == 3:
                k = (x[1], x[2])
                if k in last and x[3] < last[k]:
                    return True
                last[k] = max(last.get(k, x[3]), x[3])
    return False


def _cls_f16(case, obs, failure):
    if case.get("kind") == "sched":
        return _sc.nonmonotone_pull_component_requests(case["sched"], obs["sched"])
    if case.get("kind") != "net" or case.get("mode") != "run":
        return False
    if not isinstance(failure, str) or "TimeError" not in failure:
        return False
    if not _diverging(case):
        return False
    # the run died with the first error: it must be a TimeError and the trace must show the mechanism
    errs = [op for op in obs.get("ops", []) if op[0] == "pull" and (op[3] is None or op[3][0] != "ok")]
    after = False
    for op in obs.get("ops", []):
        if op[0] == "phase":
            after = True
        elif after and op[0] == "pull" and (op[3] is None or op[3][0] != "ok"):
            if op[3] != ["TimeError"]:
                return False
    return obs.get("outcome") == "TimeError" and _nonmonotone_pull_input(obs)


classifiers = {"shared_pull_component_nonmonotone_requests": _cls_f16}


def generate(rng, tier):
    n = 330 if tier == "quick" else 6000
    cases = list(CORPUS)
    for i in range(n):
        r = i % 11
        if r == 0:
            cases.append(_gen_so(rng))
        elif r == 1:
            cases.append(_gen_si(rng))
        elif r in (2, 3, 4):
            cases.append(_gen_net(rng, "script"))
        else:
            # ~10% of the run-mode compositions may read a pull-based component at diverging times (F16)
            cases.append(_gen_net(rng, "run", allow_diverging=(i % 77 == 5)))
    # gridded mergers with missing cells, masked and plain inputs in every naming order
    for i in range(24 if tier == "quick" else 400):
        cases.append(_gen_cells(rng))
    # scheduler level: compositions with pull-based components run by the real driver against the scheduler model
    m = 60 if tier == "quick" else 1500
    for i in range(m):
        r = i % 6
        if r in (0, 1, 2):
            cases.append({"kind": "sched", "sched": _sc.gen_pull_ring(rng)})
        elif r == 3:
            cases.append({"kind": "sched", "sched": (_sc.gen_relay2 if i % 12 == 3 else _sc.gen_relay_twice)(rng)})
        else:
            c = _sc.gen_dag(rng)
            if any(x["kind"] == "P" for x in c["comps"]):
                cases.append({"kind": "sched", "sched": c})
    return cases


# ----------------------------------------------------------------------------
# implementation drivers
# ----------------------------------------------------------------------------
def _res_of(fn):
    try:
        d = fn()
        return ["ok", d]
    except Exception as e:  # noqa
        return [err_class(e)]


def _tok(d):
    return int(round(fin.scalar_of(d)))


def _time(t):
    return None if t is None else T(t)


GARBAGE = 4000  # a delivered value that is not the (converted) value of any publication


def _static_grids():
    g = fm.UniformGrid((3, 4))
    gf = fm.UniformGrid((3, 4), axes_increase=[True, False])
    return g, gf


def _payload(kind, tok):
    """the tok-th publication (units m, in the output's grid)"""
    import numpy as np

    if kind == "scalar":
        return float(tok)
    arr = np.arange(6, dtype=float).reshape(2, 3) + 100.0 * tok
    if kind == "masked":
        return np.ma.masked_array(arr, mask=[[False, True, False], [False, False, False]])
    return arr


def _expected(kind, tok, conv):
    """what an input with conversion [conv] must receive for publication tok: (array, mask, unit name)"""
    import numpy as np

    arr = np.ma.asarray(_payload(kind, tok))
    data = np.atleast_1d(np.ma.getdata(arr)).astype(float)
    mask = np.atleast_1d(np.ma.getmaskarray(arr))
    unit = "m"
    for c in (conv or "").split("+"):
        if c == "km":
            data, unit = data / 1000.0, "km"
        elif c == "mm":
            data, unit = data * 1000.0, "mm"
        elif c == "flip":
            data, mask = np.flip(data, axis=1), np.flip(mask, axis=1)
    return data, mask, unit


def _decode(d, kind, conv, npush):
    """token of the publication whose (converted) value was delivered, GARBAGE if none"""
    import numpy as np

    mag = np.ma.asarray(fin.magnitude(d))
    data = np.ma.getdata(mag)
    mask = np.ma.getmaskarray(mag)
    if data.ndim >= 1 and data.shape[0] == 1:
        data, mask = data[0], mask[0]
    data, mask = np.atleast_1d(data), np.atleast_1d(mask)
    for tok in range(1, npush + 1):
        e, m, u = _expected(kind, tok, conv)
        if e.shape != data.shape or not np.array_equal(m, mask):
            continue
        if fm.UNITS.Unit(u) != d.units:
            continue
        if np.allclose(np.where(m, 0.0, e), np.where(mask, 0.0, data), rtol=1e-12, atol=0.0):
            return tok
    return GARBAGE


def _static_link(case, static_inputs):
    """real static output + k inputs with the case's conversions, memory limit, notification counters"""
    import tempfile

    kind = case.get("payload", "scalar")
    convs = case.get("conv") or [None] * case["k"]
    g, gf = _static_grids()
    out = fm.Output(name="Out", static=True)
    inputs = [fm.Input(name=f"In{i}", static=static_inputs) for i in range(case["k"])]
    for inp in inputs:
        out >> inp
    for inp in inputs:
        inp.ping()
    out.push_info(fm.Info(time=None, grid=fm.NoGrid() if kind == "scalar" else g, units="m"))
    infos = []
    for c in convs:
        parts = (c or "").split("+")
        unit = "km" if "km" in parts else ("mm" if "mm" in parts else "m")
        grid = fm.NoGrid() if kind == "scalar" else (gf if "flip" in parts else g)
        infos.append(fm.Info(time=None, grid=grid, units=unit))
    tmp = tempfile.mkdtemp(prefix="verif_c20_")
    size = 8 if kind == "scalar" else 48
    mem = case.get("mem")
    limit = {None: None, 0: 0, "below": size - 1, "huge": 10**12}[mem]
    out.memory_limit = limit
    out.memory_location = tmp
    notes = [0]
    for inp in inputs:
        real = inp.source_updated

        def source_updated(time, real=real):
            notes[0] += 1
            return real(time)

        inp.source_updated = source_updated
    return out, inputs, infos, tmp, notes, kind, convs


def _run_so(case):
    import os
    import shutil

    out, inputs, infos, tmp, notes, kind, convs = _static_link(case, False)
    res = []
    npush = 0
    try:
        for op in case["ops"]:
            if op[0] == "exch":
                for inp, info in zip(inputs, infos):
                    inp.exchange_info(info)
                res.append(["exch", len(os.listdir(tmp)), notes[0]])
            elif op[0] == "push":
                npush += 1
                v = _payload(kind, npush)
                r = _res_of(lambda: out.push_data(v, _time(op[1])))
                res.append(["push", npush, [r[0]], len(os.listdir(tmp)), notes[0]])
            else:
                inp = inputs[op[1]]
                if op[3]:
                    r = _res_of(lambda: _decode(out.get_data(_time(op[2]), inp), kind, None, npush))
                else:
                    r = _res_of(lambda: _decode(inp.pull_data(_time(op[2])), kind, convs[op[1]], npush))
                res.append(["get", op[2], r, len(os.listdir(tmp)), notes[0]])
        out.finalize()
        left = len(os.listdir(tmp))
    finally:
        shutil.rmtree(tmp, ignore_errors=True)
    return {"res": res, "files_after_finalize": left}


def _run_si(case):
    import os
    import shutil

    out, inputs, infos, tmp, notes, kind, convs = _static_link(case, True)
    fetches = [0]
    real_get = out.get_data

    def get_data(time, target):
        fetches[0] += 1
        return real_get(time, target)

    out.get_data = get_data
    res = []
    npush = 0
    try:
        for op in case["ops"]:
            if op[0] == "exch":
                for inp, info in zip(inputs, infos):
                    inp.exchange_info(info)
                res.append(["exch", fetches[0]])
            elif op[0] == "push":
                npush += 1
                v = _payload(kind, npush)
                r = _res_of(lambda: out.push_data(v, _time(op[1])))
                res.append(["push", npush, [r[0]], fetches[0]])
            else:
                r = _res_of(lambda: _decode(inputs[op[1]].pull_data(_time(op[2])), kind, convs[op[1]], npush))
                res.append(["pull", op[1], op[2], r, fetches[0]])
        out.finalize()
    finally:
        shutil.rmtree(tmp, ignore_errors=True)
    return {"res": res}


class _Rec:
    def __init__(self):
        self.ops = []
        self.log = []
        self.depth = 0


def _q(d):
    return _fj(Fraction(fin.scalar_of(d)))


class _Prod(fm.TimeComponent):
    def __init__(self, spec, t0):
        super().__init__()
        self._time = T(t0 + spec.get("off", 0))   # a producer may start later than the composition
        self.spec = spec
        self.k = 0

    def _next_time(self):
        st = self.spec["steps"]
        return self.time + D(st[self.k % len(st)])

    def _vals(self, static):
        return {f"O{i}": float(_fr(o["v"]) if o.get("static") else _fr(o["a"]) + _fr(o["b"]) * self.k)
                for i, o in enumerate(self.spec["outs"]) if static or not o.get("static")}

    def _initialize(self):
        for i, o in enumerate(self.spec["outs"]):
            if o.get("static"):
                # a static parameter published once, next to the time dependent outputs
                self.outputs.add(name=f"O{i}", static=True, time=None, grid=fm.NoGrid(), units=o["unit"])
            else:
                self.outputs.add(name=f"O{i}", time=self.time, grid=fm.NoGrid(), units=o["unit"])
        self.create_connector()

    def _connect(self, start_time):
        self.try_connect(start_time, push_data=self._vals(True))

    def _validate(self):
        pass

    def _update(self):
        st = self.spec["steps"]
        self._time += D(st[self.k % len(st)])
        self.k += 1
        for name, v in self._vals(False).items():
            self.outputs[name].push_data(v, self.time)
        if self.k == 1:
            # a further publication on a static output must be refused
            for i, o in enumerate(self.spec["outs"]):
                if o.get("static") and self.outputs[f"O{i}"].has_targets:
                    try:
                        self.outputs[f"O{i}"].push_data(float(_fr(o["v"])) + 1.0, self.time)
                    except fm.errors.FinamStaticDataError:
                        pass

    def _finalize(self):
        pass


class _Stat(fm.Component):
    def __init__(self, spec):
        super().__init__()
        self.spec = spec

    def _initialize(self):
        for i, o in enumerate(self.spec["outs"]):
            # a static slot may carry a time stamp in its info ("valid since", or an Info shared with a
            # time component); it is still published exactly once and served for every request time
            stamp = T(o["stamp"]) if o.get("stamp") is not None else None
            self.outputs.add(name=f"O{i}", static=True, time=stamp, grid=fm.NoGrid(), units=o["unit"])
        self.create_connector()

    def _connect(self, start_time):
        self.try_connect(start_time, push_data={f"O{i}": float(_fr(o["v"])) for i, o in enumerate(self.spec["outs"])})

    def _validate(self):
        pass

    def _update(self):
        pass

    def _finalize(self):
        pass


class _PullC(fm.Component):
    """harness pull-based component: every output's provider pulls all inputs at the requested time"""

    def __init__(self, spec, t0):
        super().__init__()
        self.spec = spec
        self.t0 = t0

    def _initialize(self):
        for i in range(len(self.spec["ins"])):
            self.inputs.add(name=f"I{i}", time=None, grid=fm.NoGrid(), units=None)
        for oi in range(len(self.spec["outs"])):
            self.outputs.add(fm.CallbackOutput(callback=(lambda caller, time, oi=oi: self._cb(oi, time)), name=f"O{oi}",
                                               time=T(self.t0), grid=fm.NoGrid(), units=""))
        self.create_connector()

    def _connect(self, start_time):
        self.try_connect(start_time)

    def _validate(self):
        pass

    def _update(self):
        pass

    def _finalize(self):
        pass

    def _cb(self, oi, time):
        # like WeightedSum: no data before the component's own connect phase is through
        if self.status not in (fm.ComponentStatus.CONNECTED, fm.ComponentStatus.VALIDATED):
            return None
        s = float(_fr(self.spec["outs"][oi]))
        for i in range(len(self.spec["ins"])):
            s += fin.scalar_of(self.inputs[f"I{i}"].pull_data(time))
        return s


class _Cons(fm.TimeComponent):
    def __init__(self, spec, t0):
        super().__init__()
        self._time = T(t0)
        self.spec = spec
        self.k = 0

    def _next_time(self):
        st = self.spec["steps"]
        return self.time + D(st[self.k % len(st)])

    def _initialize(self):
        for i, x in enumerate(self.spec["ins"]):
            if x["static"]:
                self.inputs.add(name=f"I{i}", static=True, time=None, grid=fm.NoGrid(), units=None)
            else:
                self.inputs.add(name=f"I{i}", time=self.time, grid=fm.NoGrid(), units=None)
        pd = [f"I{i}" for i in range(len(self.spec["ins"]))] if self.spec["pull_at_connect"] else None
        self.create_connector(pull_data=pd)

    def _connect(self, start_time):
        self.try_connect(start_time)

    def _validate(self):
        pass

    def _update(self):
        st = self.spec["steps"]
        self._time += D(st[self.k % len(st)])
        self.k += 1
        for i in range(len(self.spec["ins"])):
            self.inputs[f"I{i}"].pull_data(self.time)

    def _finalize(self):
        pass


def _topology(case):
    """node ids, edges with global keys / adapter ids — from the case only"""
    nodes = []  # dicts: kind, ref, ...
    nid = {}
    for pi, p in enumerate(case["prods"]):
        for oi, o in enumerate(p["outs"]):
            nid[("p", pi, oi)] = len(nodes)
            if o.get("static"):
                nodes.append({"kind": "stat", "unit": o["unit"], "v": o["v"], "p": pi})
            else:
                nodes.append({"kind": "out", "unit": o["unit"], "p": pi, "o": oi})
    for si, s in enumerate(case["stats"]):
        for oi, o in enumerate(s["outs"]):
            nid[("s", si, oi)] = len(nodes)
            nodes.append({"kind": "stat", "unit": o["unit"], "v": o["v"]})
    for wi, w in enumerate(case["pulls"]):
        if w["type"] == "ws":
            nid[("w", wi, 0)] = len(nodes)
            nodes.append({"kind": "ws", "w": wi})
        else:
            for oi, b in enumerate(w["outs"]):
                nid[("w", wi, oi)] = len(nodes)
                nodes.append({"kind": "cb", "w": wi, "bias": b})
    edges = []  # global list: key = index
    aid = [0]

    def mk(e, owner):
        ads = []
        for a in e["ad"]:
            ads.append({"id": aid[0], "kind": a[0], "par": a[1]})
            aid[0] += 1
        ed = {"key": len(edges), "src": nid[tuple(e["src"])], "ads": ads, "owner": owner}
        edges.append(ed)
        return ed

    pull_edges = []
    for wi, w in enumerate(case["pulls"]):
        pull_edges.append([mk(e, ("w", wi, i)) for i, e in enumerate(w["ins"])])
    cons_edges = []
    for ci, c in enumerate(case["cons"]):
        for i, x in enumerate(c["ins"]):
            ed = mk(x["edge"], ("c", ci, i))
            ed["static"] = x["static"]
            ed["c"] = ci
            cons_edges.append(ed)
    for n in nodes:
        n["keys"] = []
    for ed in edges:
        n = nodes[ed["src"]]
        if ed["key"] not in n["keys"]:
            n["keys"].append(ed["key"])
    return nodes, nid, edges, pull_edges, cons_edges, aid[0]


def _unit_name(u):
    for name in UNIT_F:
        if fm.UNITS.Unit(name or "dimensionless") == u:
            return name
    return str(u)


def _run_net(case):
    from finam.components.mergers import WeightedSum

    nodes, nid, edges, pull_edges, cons_edges, nad = _topology(case)
    rec = _Rec()
    t0 = case["t0"]
    prods = [_Prod(p, t0) for p in case["prods"]]
    stats = [_Stat(s) for s in case["stats"]]
    pulls = []
    for w in case["pulls"]:
        if w["type"] == "ws":
            pulls.append(WeightedSum(inputs=[f"N{k}" for k in range(len(w["ins"]) // 2)]))
        else:
            pulls.append(_PullC(w, t0))
    cons = [_Cons(c, t0) for c in case["cons"]]
    comps = prods + stats + pulls + cons
    composition = fm.Composition(comps, print_log=False)

    def out_obj(ref):
        k, i, j = ref
        if k == "p":
            return prods[i].outputs[f"O{j}"]
        if k == "s":
            return stats[i].outputs[f"O{j}"]
        if case["pulls"][i]["type"] == "ws":
            return pulls[i].outputs["WeightedSum"]
        return pulls[i].outputs[f"O{j}"]

    def in_obj(owner):
        k, i, j = owner
        if k == "c":
            return cons[i].inputs[f"I{j}"]
        if case["pulls"][i]["type"] == "ws":
            return pulls[i].inputs[f"N{j // 2}" + ("_weight" if j % 2 else "")]
        return pulls[i].inputs[f"I{j}"]

    adapters = {}
    refs = {v: k for k, v in nid.items()}
    for ed in edges:
        cur = out_obj(refs[ed["src"]])
        for a in ed["ads"]:
            if a["kind"] == "scale":
                ada = fm.adapters.Scale(float(_fr(a["par"])))
            elif a["kind"] == "dtp":
                ada = fm.adapters.DelayToPull(steps=a["par"][0], additional_delay=D(a["par"][1]))
            else:
                ada = fm.adapters.DelayFixed(D(a["par"]))
            adapters[a["id"]] = ada
            cur = cur >> ada
        cur >> in_obj(ed["owner"])

    # ---- boundary wrappers ------------------------------------------------
    def wrap_output(out, n, is_cb, static):
        real_get = out.get_data

        def get_data(time, target):
            rec.log.append([0, n, us_of(time)])
            return real_get(time, target)

        out.get_data = get_data
        if is_cb:
            real_cb = out.callback

            def cb(caller, time):
                rec.log.append([1, n, us_of(time)])
                return real_cb(caller, time)

            out.callback = cb
        else:
            real_push = out.push_data

            def push_data(data, time):
                tt = us_of(time) if time is not None else 0
                try:
                    r = real_push(data, time)
                except Exception as e:  # noqa
                    rec.ops.append(["pub", n, tt, _fj(Fraction(float(data))), [err_class(e)]])
                    raise
                rec.ops.append(["pub", n, tt, _fj(Fraction(float(data))), ["ok"]])
                return r

            out.push_data = push_data
        real_gi = out.get_info

        def get_info(info):
            r = real_gi(info)
            rec.ops.append(["info", n])
            return r

        out.get_info = get_info

    for n, nd in enumerate(nodes):
        wrap_output(out_obj(refs[n]), n, nd["kind"] in ("ws", "cb"), nd["kind"] == "stat")

    def wrap_adapter(ada, a):
        real_get = ada.get_data

        def get_data(time, target):
            rec.log.append([2, a, us_of(time)])
            return real_get(time, target)

        ada.get_data = get_data

    for a, ada in adapters.items():
        wrap_adapter(ada, a)

    def wrap_input(inp, kind, x, y):
        """kind 'c': consumer edge index x;  kind 'w': input y of pull component x"""
        real = inp.pull_data

        def pull_data(time, target=None):
            top = rec.depth == 0
            if top:
                rec.log = []
            rec.depth += 1
            res = None
            try:
                d = real(time, target)
                res = ["ok", _q(d)]
                return d
            except Exception as e:  # noqa
                res = [err_class(e)]
                raise
            finally:
                rec.depth -= 1
                if top:
                    if kind == "c":
                        rec.ops.append(["pull", x, us_of(time), res, rec.log])
                    else:
                        rec.ops.append(["fetch", x, y, us_of(time), res, rec.log])
                    rec.log = []
                elif kind == "w":
                    rec.log.append([3, x, y, us_of(time), res])

        inp.pull_data = pull_data

    def wrap_validate(comp, wi):
        if case["pulls"][wi]["type"] == "ws":
            real = comp._validate

            def _validate():
                rec.ops.append(["valid", wi])
                return real()

            comp._validate = _validate
        else:
            real_c = comp._connect
            done = []

            def _connect(start_time):
                real_c(start_time)
                if comp.status == fm.ComponentStatus.CONNECTED and not done:
                    done.append(1)
                    rec.ops.append(["valid", wi])   # the harness component starts answering

            comp._connect = _connect

    obs = {"ops": rec.ops, "outcome": "ok"}
    try:
        for ci, ed in enumerate(cons_edges):
            wrap_input(in_obj(ed["owner"]), "c", ci, None)
        for wi, eds in enumerate(pull_edges):
            for i, ed in enumerate(eds):
                wrap_input(in_obj(ed["owner"]), "w", wi, i)
            wrap_validate(pulls[wi], wi)
        composition.connect(T(t0))
        rec.ops.append(["phase"])
        obs["inits"] = {str(a): us_of(ada.initial_time) if getattr(ada, "initial_time", None) is not None else None
                        for a, ada in adapters.items() if hasattr(ada, "initial_time")}
        obs["uout"] = {str(wi): _unit_name(pulls[wi].outputs["WeightedSum"].info.units)
                       for wi, w in enumerate(case["pulls"]) if w["type"] == "ws"}
        if case["mode"] == "run":
            composition.run(start_time=T(t0), end_time=T(case["end"]))
        else:
            user = []
            for op in case["script"]:
                try:
                    if op[0] == "upd":
                        prods[op[1]].update()
                    else:
                        cons[op[1]].inputs[f"I{op[2]}"].pull_data(T(op[3]))
                    user.append("ok")
                except Exception as e:  # noqa
                    user.append(err_class(e))
            obs["user"] = user
    except Exception as e:  # noqa
        obs["outcome"] = err_class(e)
        if "inits" not in obs:
            obs["inits"] = {str(a): us_of(ada.initial_time) if getattr(ada, "initial_time", None) is not None else None
                            for a, ada in adapters.items() if hasattr(ada, "initial_time")}
            obs["uout"] = {}
            for wi, w in enumerate(case["pulls"]):
                if w["type"] == "ws":
                    try:
                        obs["uout"][str(wi)] = _unit_name(pulls[wi].outputs["WeightedSum"].info.units)
                    except Exception:  # noqa
                        pass
    return obs


# ----------------------------------------------------------------------------
# gridded WeightedSum with missing cells ("cells" cases)
# ----------------------------------------------------------------------------
CELL_SHAPE = (2, 3)   # cells of UniformGrid((3, 4))


def _gen_cells(rng):
    """2-3 producers of gridded value / weight fields; some publish masked arrays (mask in the data, FLEX info),
    others plain arrays; the WeightedSum names them in a random order"""
    n = rng.choice([2, 2, 3])
    prods = []
    for i in range(n):
        mv = [rng.random() < 0.3 for _ in range(6)] if rng.random() < 0.6 else None
        if mv is not None and (all(mv) or not any(mv)):
            mv[rng.randrange(6)] = not mv[0]
        mw = [rng.random() < 0.25 for _ in range(6)] if rng.random() < 0.2 else None
        if mw is not None and all(mw):
            mw[0] = False
        prods.append({"unit": rng.choice(["m", "m", "mm", "km"]), "v": _dy(rng), "dv": _dy(rng), "w": _dy(rng, small=True),
                      "mask_v": mv, "mask_w": mw})
    if all(p["mask_v"] is not None for p in prods):
        prods[rng.randrange(n)]["mask_v"] = None     # at least one plain array
    order = list(range(n))
    rng.shuffle(order)
    return {"kind": "cells", "prods": prods, "order": order, "step": rng.choice([1, 1, 2]), "nreq": rng.randint(1, 3)}


class _GProd(fm.TimeComponent):
    def __init__(self, spec, grid):
        super().__init__()
        self._time = T(0)
        self.spec = spec
        self.grid = grid
        self.k = 0

    def _next_time(self):
        return self.time + D(DAY)

    def _arr(self, base, mask):
        import numpy as np

        a = np.arange(6, dtype=float).reshape(CELL_SHAPE) / 4.0 + float(base)
        if mask is not None:
            return np.ma.masked_array(a, mask=np.array(mask, dtype=bool).reshape(CELL_SHAPE), fill_value=-9999.0)
        return a

    def _vals(self):
        sp = self.spec
        return {"V": self._arr(_fr(sp["v"]) + _fr(sp["dv"]) * self.k, sp["mask_v"]), "W": self._arr(_fr(sp["w"]), sp["mask_w"])}

    def _initialize(self):
        self.outputs.add(name="V", time=self.time, grid=self.grid, units=self.spec["unit"])
        self.outputs.add(name="W", time=self.time, grid=self.grid, units="")
        self.create_connector()

    def _connect(self, start_time):
        self.try_connect(start_time, push_data=self._vals())

    def _validate(self):
        pass

    def _update(self):
        self._time += D(DAY)
        self.k += 1
        for name, v in self._vals().items():
            self.outputs[name].push_data(v, self.time)

    def _finalize(self):
        pass


class _GCons(fm.TimeComponent):
    def __init__(self, step, sink):
        super().__init__()
        self._time = T(0)
        self.step = step
        self.sink = sink

    def _next_time(self):
        return self.time + D(self.step * DAY)

    def _initialize(self):
        self.inputs.add(name="In", time=self.time, grid=None, units=None)
        self.create_connector()

    def _connect(self, start_time):
        self.try_connect(start_time)

    def _validate(self):
        pass

    def _update(self):
        self._time += D(self.step * DAY)
        self.sink(self.inputs["In"].pull_data(self.time))

    def _finalize(self):
        pass


def _cells_of(d):
    """flattened cells of a delivered array: exact rationals, None where the cell is missing"""
    import numpy as np

    mag = np.ma.asarray(fin.magnitude(d))
    data = np.ma.getdata(mag).reshape(-1)
    mask = np.ma.getmaskarray(mag).reshape(-1)
    return [None if m else _fj(Fraction(float(x))) for x, m in zip(data, mask)]


def _run_cells(case):
    from finam.components.mergers import WeightedSum

    grid = fm.UniformGrid((3, 4))
    prods = [_GProd(p, grid) for p in case["prods"]]
    names = [f"N{i}" for i in case["order"]]
    ws = WeightedSum(inputs=names)
    reqs = []
    cur = {}
    got = []
    cons = _GCons(case["step"], lambda d: got.append(_cells_of(d)))
    comp = fm.Composition(prods + [ws, cons], print_log=False)
    for i, p in enumerate(prods):
        p.outputs["V"] >> ws.inputs[f"N{i}"]
        p.outputs["W"] >> ws.inputs[f"N{i}_weight"]
    ws.outputs["WeightedSum"] >> cons.inputs["In"]
    obs = {"reqs": reqs, "got": got, "outcome": "ok"}

    def wrap(inp, name):
        real = inp.pull_data

        def pull_data(time, target=None):
            d = real(time, target)
            cur[name] = _cells_of(d)
            return d

        inp.pull_data = pull_data

    for name in ws.inputs:
        wrap(ws.inputs[name], name)
    real_cb = ws.outputs["WeightedSum"].callback

    def cb(caller, time):
        cur.clear()
        r = real_cb(caller, time)
        if ws.status == fm.ComponentStatus.VALIDATED:
            reqs.append([cur.get(nm) for n in names for nm in (n, n + "_weight")])
        return r

    ws.outputs["WeightedSum"].callback = cb
    try:
        comp.connect(T(0))
        obs["uout"] = _unit_name(ws.outputs["WeightedSum"].info.units)
        comp.run(start_time=T(0), end_time=T(case["nreq"] * case["step"] * DAY))
    except Exception as e:  # noqa
        obs["outcome"] = err_class(e)
    return obs


def _coq_cells(a):
    return L(NONE if x is None else Some(Q(_fr(x))) for x in a) if a is not None else "[]"


def _coq_case_cells(case, obs):
    us = [UNIT_F[case["prods"][i]["unit"]] for i in case["order"]]
    uout = UNIT_F.get(obs.get("uout", "m"), Fraction(1))
    return C("CaseCells", L(Q(u) for u in us), Q(uout), N(6), L(L(_coq_cells(a) for a in r) for r in obs["reqs"]))


def _coq_obs_cells(case, obs):
    got = list(obs["got"])
    while len(got) < len(obs["reqs"]):
        got.append([])    # a request that did not deliver: forces a mismatch
    return C("ObsCells", L(_coq_cells(a) for a in got[:max(len(obs["reqs"]), len(got))]))


def _mon_cells(case, obs):
    if obs.get("outcome") != "ok":
        return f"gridded WeightedSum composition failed with {obs.get('outcome')}"
    if len(obs["reqs"]) != len(obs["got"]):
        return f"{len(obs['reqs'])} merger computations for {len(obs['got'])} consumer requests"
    us = [UNIT_F[case["prods"][i]["unit"]] for i in case["order"]]
    uout = UNIT_F.get(obs.get("uout", "m"), Fraction(1))
    for r, (ins, out) in enumerate(zip(obs["reqs"], obs["got"])):
        if any(a is None for a in ins):
            return f"request {r}: the merger did not pull all of its inputs"
        for k in range(6):
            terms = [(ins[2 * j][k], ins[2 * j + 1][k]) for j in range(len(us))]
            missing = any(v is None or w is None for v, w in terms)
            if missing != (out[k] is None):
                names = [f"N{i}" for i in case["order"]]
                return (f"request {r}, cell {k}: inputs named {names}: the cell is {'missing' if missing else 'present'} in the terms "
                        f"but {'missing' if out[k] is None else 'holds ' + str(_fr(out[k]))} in the sum")
            if not missing:
                exp = sum(_fr(v) * _fr(w) * u for (v, w), u in zip(terms, us)) / uout
                if not _close(_fr(out[k]), exp):
                    return f"request {r}, cell {k}: sum is {_fr(out[k])}, sum of value*weight is {exp}"
    return None



def run_impl(case):
    if case["kind"] == "sched":
        return {"sched": _schedlib.run_case(case["sched"])}
    if case["kind"] == "so":
        return _run_so(case)
    if case["kind"] == "si":
        return _run_si(case)
    if case["kind"] == "cells":
        return _run_cells(case)
    return _run_net(case)


# ----------------------------------------------------------------------------
# Gallina emitter
# ----------------------------------------------------------------------------
ERR = {"TimeError": "ETime", "NoDataError": "ENoData", "StaticDataError": "EStatic", "DataError": "EData"}


def _cerr(name):
    return C("Err", ERR.get(name, "EOther"))


def _optZ(t):
    return NONE if t is None else Some(Z(t))


def _coq_res_tok(r):
    return C("Ok", N(r[1])) if r[0] == "ok" else _cerr(r[0])


def _coq_res_unit(r):
    return C("Ok", "tt") if r[0] == "ok" else _cerr(r[0])


def _coq_res_q(r):
    if r is None:
        return _cerr("harness")
    return C("Ok", Q(_fr(r[1]))) if r[0] == "ok" else _cerr(r[0])


def _coq_edge(ed, inits):
    chain = []
    for a in reversed(ed["ads"]):  # Coq lists the chain from the input towards the source
        init = inits.get(str(a["id"]))
        if a["kind"] == "scale":
            chain.append(P(N(a["id"]), C("SPlain", C("AScale", Q(_fr(a["par"]))))))
        elif a["kind"] == "dtp":
            chain.append(P(N(a["id"]), C("SDelayPull", N(a["par"][0]), Z(a["par"][1]), Z(init if init is not None else 0))))
        else:
            chain.append(P(N(a["id"]), C("SPlain", C("ADelay", Z(a["par"]), Z(init if init is not None else 0)))))
    return C("mkE", N(ed["key"]), L(chain), N(ed["src"]))


def coq_case(case, obs):
    if case["kind"] == "sched":
        return "(C20Sched " + _sc.coq_case(case["sched"], obs["sched"]) + ")"
    return "(C20Stat " + _coq_case_stat(case, obs) + ")"


def _coq_case_stat(case, obs):
    if case["kind"] == "cells":
        return _coq_case_cells(case, obs)
    if case["kind"] == "so":
        ops = []
        npush = 0
        for op in case["ops"]:
            if op[0] == "exch":
                ops.append("SExch")
            elif op[0] == "push":
                npush += 1
                ops.append(C("SPush", N(npush)))
            else:
                ops.append(C("SGet", _optZ(op[2])))
        size = 8 if case.get("payload", "scalar") == "scalar" else 48
        limit = {None: None, 0: 0, "below": size - 1, "huge": 10**12}[case.get("mem")]
        return C("CaseSOM", N(case["k"]), _optZ(limit), Z(size), L(ops))
    if case["kind"] == "si":
        ops = []
        npush = 0
        for op in case["ops"]:
            if op[0] == "exch":
                ops.append("IExch")
            elif op[0] == "push":
                npush += 1
                ops.append(C("IPush", N(npush)))
            else:
                ops.append(C("IPull", N(op[1]), _optZ(op[2])))
        return C("CaseSI", N(case["k"]), L(ops))
    nodes, nid, edges, pull_edges, cons_edges, nad = _topology(case)
    inits = obs.get("inits", {})
    uout = obs.get("uout", {})
    cn = []
    for nd in nodes:
        if nd["kind"] == "out":
            cn.append(C("NOut", Q(UNIT_F[nd["unit"]]), L(N(k) for k in nd["keys"])))
        elif nd["kind"] == "stat":
            cn.append(C("NStat", Q(UNIT_F[nd["unit"]]), N(len(nd["keys"]))))
        elif nd["kind"] == "ws":
            u = UNIT_F.get(uout.get(str(nd["w"]), ""), Fraction(1))
            cn.append(C("NWS", Q(u), N(len(nd["keys"])), L(_coq_edge(e, inits) for e in pull_edges[nd["w"]])))
        else:
            cn.append(C("NCb", N(len(nd["keys"])), Q(_fr(nd["bias"])), L(_coq_edge(e, inits) for e in pull_edges[nd["w"]])))
    ce = [P(_coq_edge(e, inits), B(e["static"])) for e in cons_edges]
    wnode = {}
    for k, v in nid.items():
        if k[0] == "w" and k[2] == 0:
            wnode[k[1]] = v
    ops = []
    for op in obs["ops"]:
        if op[0] == "info":
            ops.append(C("OInfo", N(op[1])))
        elif op[0] == "pub":
            ops.append(C("OPub", N(op[1]), Z(op[2]), Q(_fr(op[3]))))
        elif op[0] == "fetch":
            ops.append(C("OFetch", N(wnode[op[1]]), N(op[2]), Z(op[3])))
        elif op[0] == "valid":
            for k, v in sorted(nid.items(), key=lambda kv: kv[1]):
                if k[0] == "w" and k[1] == op[1]:
                    ops.append(C("OValid", N(v)))
        elif op[0] == "pull":
            ops.append(C("OPull", N(op[1]), Z(op[2])))
    return C("CaseNet", L(cn), L(ce), L(ops))


def _coq_log(log):
    return L(P(N(x[0]), N(x[1]), Z(x[2])) for x in log if x[0] != 3)


def coq_obs(case, obs):
    if case["kind"] == "sched":
        return "(O20Sched " + _sc.coq_obs(case["sched"], obs["sched"]) + ")"
    return "(O20Stat " + _coq_obs_stat(case, obs) + ")"


def _coq_obs_stat(case, obs):
    if case["kind"] == "cells":
        return _coq_obs_cells(case, obs)
    if case["kind"] == "so":
        out = []
        for r in obs["res"]:
            fn = P(N(r[-2]), N(r[-1]))
            if r[0] == "exch":
                out.append(P("XNone", fn))
            elif r[0] == "push":
                out.append(P(C("XPush", _coq_res_unit(r[2])), fn))
            else:
                out.append(P(C("XGet", _coq_res_tok(r[2])), fn))
        return C("ObsSOM", L(out))
    if case["kind"] == "si":
        out = []
        for r in obs["res"]:
            if r[0] == "exch":
                out.append(P("XNone", N(r[1])))
            elif r[0] == "push":
                out.append(P(C("XPush", _coq_res_unit(r[2])), N(r[3])))
            else:
                out.append(P(C("XGet", _coq_res_tok(r[3])), N(r[4])))
        return C("ObsSI", L(out))
    out = []
    ok0 = P(C("Ok", Q(0)), "[]")
    for op in obs["ops"]:
        if op[0] == "info":
            out.append(ok0)
        elif op[0] == "pub":
            out.append(ok0 if op[4][0] == "ok" else P(_cerr(op[4][0]), "[]"))
        elif op[0] == "fetch":
            out.append(P(_coq_res_q(op[4]), _coq_log(op[5])))
        elif op[0] == "valid":
            w = case["pulls"][op[1]]
            out.extend([ok0] * (1 if w["type"] == "ws" else len(w["outs"])))
        elif op[0] == "pull":
            out.append(P(_coq_res_q(op[3]), _coq_log(op[4])))
    return C("ObsNet", L(out))


# ----------------------------------------------------------------------------
# property monitor (predicate on the implementation's own trace)
# ----------------------------------------------------------------------------
def _mon_so(case, obs):
    exch = False
    held = None
    for op, r in zip(case["ops"], obs["res"]):
        if held is not None and r[-1] != case["k"]:
            return f"targets of a static output were notified {r[-1]} times for one accepted publication to {case['k']} target(s)"
        if op[0] == "exch":
            exch = True
        elif op[0] == "push":
            if not exch:
                continue
            if held is None:
                if r[2] != ["ok"]:
                    return f"first publication on a static output refused: {r[2]}"
                held = r[1]
            elif r[2] != ["StaticDataError"]:
                return f"further publication on a static output answered {r[2]} instead of FinamStaticDataError"
        else:
            if exch and held is not None and r[2] != ["ok", held]:
                return f"static output holding publication {held} answered {r[2]} to a request for time {op[2]}"
            if held is None and r[2][0] == "ok":
                return f"static output without a publication answered {r[2]}"
    return None


def _mon_si(case, obs):
    exch = False
    held = None
    cache = {}
    fetches = 0
    for op, r in zip(case["ops"], obs["res"]):
        if op[0] == "exch":
            exch = True
        elif op[0] == "push":
            if exch and held is None and r[2] == ["ok"]:
                held = r[1]
        else:
            i = op[1]
            if i in cache:
                if r[3] != ["ok", cache[i]]:
                    return f"static input {i} with cached value {cache[i]} answered {r[3]} for time {op[2]}"
                if r[4] != fetches:
                    return f"static input {i} fetched from its source again although it holds a cached value"
            else:
                if r[4] != fetches + 1:
                    return f"static input {i} without cached value made {r[4] - fetches} fetches for one pull"
                if r[3][0] == "ok":
                    if held is None or r[3][1] != held:
                        return f"static input {i} delivered {r[3]} but the source holds {held}"
                    cache[i] = r[3][1]
            fetches = r[4]
    return None


TOL = Fraction(1, 2**30)


def _close(a, b):
    return abs(a - b) <= TOL * max(1, abs(a), abs(b))


class _Walk:
    """Checks one request trace against the declarative reading of C20 (times) and, for values,
    against what the pull-based components themselves received."""

    def __init__(self, case, obs):
        self.case = case
        self.nodes, self.nid, self.edges, self.pull_edges, self.cons_edges, _ = _topology(case)
        self.inits = obs.get("inits", {})
        self.uout = obs.get("uout", {})
        self.pubs = {n: [] for n, nd in enumerate(self.nodes) if nd["kind"] == "out"}
        self.statv = {}
        self.memo = {}      # ws node -> (time, value) | "unknown"
        self.memo_note = None
        self.stale = None
        self.dtp = {}       # DelayToPull adapter id -> pull history | "unknown"
        self.fetched = {}   # ws index -> {i: value}
        self.valid = set()
        self.run_phase = False
        self.fail = None
        self.reads_through_pull = 0

    def bad(self, msg):
        if self.fail is None:
            self.fail = msg

    def edge(self, ed, t, log, pos):
        """returns (pos, acceptable values or None)"""
        scale = Fraction(1)
        dtps = []
        for a in reversed(ed["ads"]):
            if pos >= len(log) or log[pos][:3] != [2, a["id"], t]:
                self.bad(f"adapter {a['id']} of edge {ed['key']} expected to be asked for time {t}, trace has {log[pos] if pos < len(log) else 'nothing'}")
                for i, _s, _t in dtps:
                    self.dtp[i] = "unknown"
                return None, None
            pos += 1
            init = self.inits.get(str(a["id"]))
            if a["kind"] == "delay":
                t = max(t - a["par"], init) if init is not None else t - a["par"]
            elif a["kind"] == "dtp":
                # DelayToPull: the time of the steps-th last (successful) pull minus the extra delay, >= initial time
                h = self.dtp.get(a["id"])
                dtps.append((a["id"], a["par"][0], t))
                if h == "unknown" or init is None:
                    t = log[pos][2] if pos < len(log) else t
                else:
                    h = h or [init]
                    self.dtp[a["id"]] = h
                    t = max(h[0] - a["par"][1], init)
            else:
                scale *= _fr(a["par"])
        pos, vals = self._node(ed, t, log, pos, scale)
        for i, steps, torig in dtps:
            h = self.dtp.get(i)
            if pos is None or vals == "error" or h == "unknown" or h is None:
                self.dtp[i] = "unknown"
            else:
                self.dtp[i] = (h + [torig])[-steps:]
        return pos, vals

    def _node(self, ed, t, log, pos, scale):
        n = ed["src"]
        nd = self.nodes[n]
        if pos >= len(log) or log[pos][:3] != [0, n, t]:
            self.bad(f"node {n} expected to be asked for time {t} (edge {ed['key']}), trace has {log[pos] if pos < len(log) else 'nothing'}")
            return None, None
        pos += 1
        vals = None
        if nd["kind"] == "out":
            pubs = self.pubs[n]
            if self.run_phase and (not pubs or pubs[-1][0] < t):
                self.bad(f"during run: output node {n} asked for time {t} but its newest publication is {pubs[-1][0] if pubs else None}")
            if pubs and pubs[0][0] <= t <= pubs[-1][0]:
                dmin = min(abs(p[0] - t) for p in pubs)
                vals = [p[1] for p in pubs if abs(p[0] - t) == dmin]
        elif nd["kind"] == "stat":
            if n in self.statv:
                vals = [self.statv[n]]
        else:
            if pos >= len(log) or log[pos][:3] != [1, n, t]:
                self.bad(f"provider of pull-based node {n} expected to be invoked with time {t}, trace has {log[pos] if pos < len(log) else 'nothing'}")
                return None, None
            pos += 1
            wi = nd["w"]
            eds = self.pull_edges[wi]
            again = None
            if nd["kind"] == "ws":
                memo = self.memo.get(n)
                nxt = log[pos] if pos < len(log) else None
                first = eds[0]
                starts_pull = nxt is not None and (
                    (first["ads"] and nxt[:2] == [2, first["ads"][-1]["id"]]) or (not first["ads"] and nxt[:2] == [0, first["src"]]))
                if wi not in self.valid:
                    f = self.fetched.get(wi, {})
                    if len(f) == len(eds):
                        # connect phase: answered from the start-time data, never remembered under t
                        vals = [self.wsum(wi, [f[i] for i in range(len(eds))])]
                    return pos, self.scaled(vals, scale)
                hit = memo is not None and memo != "unknown" and memo[0] == t
                if memo is None and not starts_pull:
                    exp = self.expect_node(n, t)
                    self.stale = (f"WeightedSum node {n} answered the request for time {t} without pulling its inputs "
                                  f"although it never pulled them for that time (answer taken from the connect phase)"
                                  + (f"; sum of value*weight for time {t} is {[str(x) for x in exp]}" if exp else ""))
                    self.memo[n] = "unknown"
                    return pos, self.scaled(exp, scale)
                if memo == "unknown":
                    hit = not starts_pull
                if hit and not starts_pull:
                    vals = [memo[1]] if memo != "unknown" else None
                    return pos, self.scaled(vals, scale)
                if hit:
                    # the memo should have answered; follow what the component really did and judge the outcome
                    self.memo_note = (f"WeightedSum node {n} was asked again for time {t} and pulled its inputs again "
                                      f"(one pull of every input per request time)")
                    again = memo[1]
            ins = []
            for i, e in enumerate(eds):
                pos, acc = self.edge(e, t, log, pos)
                if pos is None:
                    return None, None
                if pos >= len(log) or log[pos][:4] != [3, wi, i, t]:
                    self.bad(f"pull-based component {wi} expected to pull its input {i} at time {t}, trace has {log[pos] if pos < len(log) else 'nothing'}")
                    return None, None
                r = log[pos][4]
                pos += 1
                if r is None or r[0] != "ok":
                    if nd["kind"] == "ws":
                        pass
                    return pos, "error"
                v = _fr(r[1])
                if acc is not None and acc != "error" and not any(_close(v, a) for a in acc):
                    self.bad(f"input {i} of pull-based component {wi} received {v} for time {t}, expected one of {acc}")
                ins.append(v)
            if nd["kind"] == "ws":
                v = self.wsum(wi, ins)
                if again is not None and not _close(v, again):
                    self.bad(f"WeightedSum node {n}: a repeated request for time {t} was answered with {v}, the first answer "
                             f"for that time was {again} (inputs pulled again; a DelayToPull link then answers for another time)")
                self.memo[n] = (t, v)
                vals = [v]
            else:
                vals = [_fr(nd["bias"]) + sum(ins)]
        return pos, self.scaled(vals, scale)

    def start_times(self, n, depth=0):
        """possible info times of the output of node n (= what a delay adapter downstream clamps to)"""
        nd = self.nodes[n]
        t0 = self.case["t0"]
        if nd["kind"] == "out":
            return {t0 + self.case["prods"][nd["p"]].get("off", 0)}
        if nd["kind"] == "cb":
            return {t0}
        if nd["kind"] == "ws" and depth < 4:
            # the merger hands on the info of one of its value inputs
            out = set()
            for e in self.pull_edges[nd["w"]][0::2]:
                out |= self.start_times(e["src"], depth + 1)
            return out
        return set()

    def check_inits(self):
        """a delay adapter clamps to the starting time of its SOURCE (max(t - d, init) with init = time of the
        info delivered by the source), not to anything on the requesting side"""
        for ed in self.edges:
            exp = self.start_times(ed["src"])
            for a in ed["ads"]:
                init = self.inits.get(str(a["id"]))
                if a["kind"] in ("delay", "dtp") and init is not None and exp and init not in exp:
                    self.bad(f"delay adapter {a['id']} on edge {ed['key']} clamps requests to {init}, "
                             f"its source node {ed['src']} starts at {sorted(exp)}")

    # log-free expectation from the publications (used to explain a skipped pull)
    def expect_edge(self, ed, t):
        scale = Fraction(1)
        for a in reversed(ed["ads"]):
            init = self.inits.get(str(a["id"]))
            if a["kind"] == "delay":
                t = max(t - a["par"], init) if init is not None else t - a["par"]
            elif a["kind"] == "dtp":
                return None
            else:
                scale *= _fr(a["par"])
        return self.scaled(self.expect_node(ed["src"], t), scale)

    def expect_node(self, n, t, depth=0):
        nd = self.nodes[n]
        if depth > 4:
            return None
        if nd["kind"] == "out":
            pubs = self.pubs[n]
            if pubs and pubs[0][0] <= t <= pubs[-1][0]:
                dmin = min(abs(p[0] - t) for p in pubs)
                return [p[1] for p in pubs if abs(p[0] - t) == dmin]
            return None
        if nd["kind"] == "stat":
            return [self.statv[n]] if n in self.statv else None
        ins = [self.expect_edge(e, t) for e in self.pull_edges[nd["w"]]]
        if any(x is None or len(x) != 1 for x in ins):
            return None
        ins = [x[0] for x in ins]
        if nd["kind"] == "ws":
            return [self.wsum(nd["w"], ins)]
        return [_fr(nd["bias"]) + sum(ins)]

    @staticmethod
    def scaled(vals, scale):
        if vals is None or vals == "error":
            return vals
        return [v * scale for v in vals]

    def wsum(self, wi, ins):
        """sum of value*weight in SI, expressed in the output's units"""
        eds = self.pull_edges[wi]
        tot = Fraction(0)
        for k in range(len(eds) // 2):
            tot += ins[2 * k] * ins[2 * k + 1] * self.unit_of(eds[2 * k]["src"])
        return tot / UNIT_F.get(self.uout.get(str(wi), ""), Fraction(1))

    def unit_of(self, n):
        nd = self.nodes[n]
        if nd["kind"] in ("out", "stat"):
            return UNIT_F[nd["unit"]]
        if nd["kind"] == "ws":
            return UNIT_F.get(self.uout.get(str(nd["w"]), ""), Fraction(1))
        return Fraction(1)

    def through_pull(self, ed):
        return self.nodes[ed["src"]]["kind"] in ("ws", "cb")

    def run(self, obs):
        cache = {}
        for op in obs["ops"]:
            if op[0] == "phase":
                self.run_phase = self.case["mode"] == "run"
                self.after_connect = True
                self.check_inits()
            elif op[0] == "pub":
                n = op[1]
                nd = self.nodes[n]
                if nd["kind"] == "out":
                    if op[4] == ["ok"]:
                        self.pubs[n].append((op[2], _fr(op[3])))
                else:
                    if op[4] == ["ok"]:
                        if n in self.statv:
                            self.bad(f"static output node {n} accepted a second publication")
                        self.statv[n] = _fr(op[3])
                    elif n in self.statv and op[4] != ["StaticDataError"]:
                        self.bad(f"static output node {n}: further publication answered {op[4]}")
            elif op[0] == "valid":
                self.valid.add(op[1])
            elif op[0] == "fetch":
                wi, i, t, r, log = op[1:6]
                ed = self.pull_edges[wi][i]
                if r is not None and r[0] == "ok":
                    pos, acc = self.edge(ed, t, log, 0)
                    self.fetched.setdefault(wi, {})[i] = _fr(r[1])
                else:
                    self.mark_unknown(log)
            elif op[0] == "pull":
                ci, t, r, log = op[1:5]
                ed = self.cons_edges[ci]
                if self.run_phase and (r is None or r[0] != "ok"):
                    # diagnose: was a producer output asked for a time beyond its newest publication?
                    self.edge(ed, t, log, 0)
                    if self.fail is None or "newest publication" not in self.fail:
                        self.fail = None
                        self.bad(f"during run: consumer input {ci} request for time {t} failed with {r}")
                if r is None or r[0] != "ok":
                    self.mark_unknown(log)
                    continue
                v = _fr(r[1])
                if ed["static"]:
                    if ci in cache:
                        if log:
                            self.bad(f"static consumer input {ci} fetched again although it holds a cached value")
                        if not _close(v, cache[ci]):
                            self.bad(f"static consumer input {ci} changed its value from {cache[ci]} to {v}")
                        continue
                    cache[ci] = v
                pos, acc = self.edge(ed, t, log, 0)
                if self.fail and not self.stale:
                    return self.fail
                if pos is not None and pos != len(log):
                    self.bad(f"consumer input {ci} request for time {t}: unexpected extra trace entries {log[pos:pos + 3]}")
                if acc == "error":
                    self.bad(f"consumer input {ci} got {v} although an input pull of a pull-based component failed")
                elif acc is not None and not any(_close(v, a) for a in acc):
                    self.bad(f"consumer input {ci} request for time {t} received {v}, expected one of {[str(a) for a in acc]} "
                             f"(sum of value*weight of what the pull-based components received)")
                if self.through_pull(ed):
                    self.reads_through_pull += 1
            if self.stale:
                # prefer the message that names the stale answer
                if self.fail is None or "received" in self.fail:
                    self.fail = self.stale + (f" - {self.fail}" if self.fail else "")
                self.stale = None
            if self.fail is None and self.memo_note:
                self.bad(self.memo_note)
            if self.fail:
                return self.fail
        if self.fail:
            return self.fail
        if self.case["mode"] == "run" and obs.get("outcome") != "ok":
            return f"Composition.connect/run of a valid composition failed with {obs.get('outcome')}"
        if obs.get("outcome") != "ok" and not any(op[0] == "phase" for op in obs["ops"]):
            refused = [op for op in obs["ops"] if op[0] == "pub" and op[4] != ["ok"] and self.nodes[op[1]]["kind"] == "stat"]
            return (f"Composition.connect of a valid composition failed with {obs.get('outcome')}"
                    + (f" (static output node {refused[0][1]} was published {1 + len(refused)} times)" if refused else ""))
        return None

    def mark_unknown(self, log):
        kinds = {a["id"]: a["kind"] for e in self.edges for a in e["ads"]}
        for x in log or []:
            if x[0] == 2 and kinds.get(x[1]) == "dtp":
                self.dtp[x[1]] = "unknown"
        for x in log or []:
            if x[0] == 1 and self.nodes[x[1]]["kind"] == "ws":
                self.memo[x[1]] = "unknown"


def monitor(case, obs):
    if case["kind"] == "sched":
        # served on demand: every pull during an update succeeds, the source had published at or beyond the time
        # actually requested (also through pull-based components), and cycles resolved by delays run
        return _c04.monitor(case["sched"], obs["sched"])
    if case["kind"] == "so":
        return _mon_so(case, obs)
    if case["kind"] == "si":
        return _mon_si(case, obs)
    if case["kind"] == "cells":
        return _mon_cells(case, obs)
    return _Walk(case, obs).run(obs)


def nontrivial(case, obs):
    if case["kind"] == "sched":
        return any(e[0] == "S" and case["sched"]["comps"][e[1]]["kind"] == "P" for e in obs["sched"].get("events", []))
    if case["kind"] == "so":
        seen = False
        n = 0
        for op, r in zip(case["ops"], obs["res"]):
            if op[0] == "push" and r[2] == ["ok"]:
                seen = True
            elif op[0] == "get" and seen:
                n += 1
        return n >= 3
    if case["kind"] == "si":
        return sum(1 for r in obs["res"] if r[0] == "pull" and r[3][0] == "ok") >= 3
    if case["kind"] == "cells":
        return bool(obs.get("got")) and any(p["mask_v"] or p["mask_w"] for p in case["prods"])
    w = _Walk(case, obs)
    w.run(obs)
    if w.reads_through_pull < 3:
        return False
    cs = {tuple(c["steps"]) for c in case["cons"]}
    ps = {tuple(p["steps"]) for p in case["prods"]}
    return bool(ps - cs)


def distribution(cases, obss):
    from collections import Counter

    kinds = Counter(c["kind"] + ("/" + c["mode"] if c["kind"] == "net" else "") for c in cases)
    pairs = [(c, o) for c, o in zip(cases, obss) if c["kind"] != "sched"]
    cases, obss = [c for c, _ in pairs], [o for _, o in pairs]
    pulls = Counter(w["type"] for c in cases if c["kind"] == "net" for w in c["pulls"])
    npull = Counter(len(c["pulls"]) for c in cases if c["kind"] == "net")
    ads = Counter(a[0] for c in cases if c["kind"] == "net"
                  for e in [x["edge"] for k in c["cons"] for x in k["ins"]] + [e for w in c["pulls"] for e in w["ins"]] for a in e["ad"])
    res = Counter()
    memo = 0
    for c, o in zip(cases, obss):
        if c["kind"] != "net" or "ops" not in o:
            continue
        for op in o["ops"]:
            if op[0] == "pull":
                res[(op[3] or ["harness"])[0]] += 1
    outcomes = Counter(o.get("outcome") for c, o in zip(cases, obss) if c["kind"] == "net")
    return {"case_kinds": dict(kinds), "pull_component_types": dict(pulls), "pull_components_per_case": dict(npull),
            "adapters": dict(ads), "consumer_request_results": dict(res), "net_outcomes": dict(outcomes)}


def shrink_candidates(case):
    import copy

    if case["kind"] == "sched":
        for c in _sc.shrink_candidates(case["sched"]):
            yield {"kind": "sched", "sched": c}
        return

    if case["kind"] == "cells":
        if case["nreq"] > 1:
            yield dict(case, nreq=1)
        if case["step"] > 1:
            yield dict(case, step=1)
        if len(case["prods"]) > 2:
            for i in range(len(case["prods"])):
                ps = [p for j, p in enumerate(case["prods"]) if j != i]
                order = [o - (1 if o > i else 0) for o in case["order"] if o != i]
                yield dict(case, prods=ps, order=order)
        for i, p in enumerate(case["prods"]):
            for key in ("mask_w", "mask_v"):
                if p[key] is not None and sum(p[key]) > 1:
                    m = list(p[key])
                    m[m.index(True)] = False
                    ps = copy.deepcopy(case["prods"])
                    ps[i][key] = m
                    yield dict(case, prods=ps)
            if p["mask_w"] is not None and p["mask_v"] is not None:
                ps = copy.deepcopy(case["prods"])
                ps[i]["mask_w"] = None
                yield dict(case, prods=ps)
            if p["unit"] != "m":
                ps = copy.deepcopy(case["prods"])
                ps[i]["unit"] = "m"
                yield dict(case, prods=ps)
        return

    if case["kind"] in ("so", "si"):
        ops = case["ops"]
        for i in range(len(ops) - 1, -1, -1):
            yield dict(case, ops=ops[:i] + ops[i + 1:])
        return
    if case["mode"] == "script":
        sc = case["script"]
        for i in range(len(sc) - 1, -1, -1):
            yield dict(case, script=sc[:i] + sc[i + 1:])
    else:
        span = case["end"] - case["t0"]
        if span > 1:
            yield dict(case, end=case["t0"] + span // 2)
    if len(case["cons"]) > 1:
        for i in range(len(case["cons"])):
            c = copy.deepcopy(case)
            del c["cons"][i]
            if c["mode"] == "script":
                c["script"] = [[o[0], o[1] - (1 if o[1] > i else 0)] + o[2:] if o[0] == "pull" else o for o in c["script"] if not (o[0] == "pull" and o[1] == i)]
            yield c
    for ci, cc in enumerate(case["cons"]):
        if len(cc["ins"]) > 1 and case["mode"] == "run":
            for i in range(len(cc["ins"])):
                c = copy.deepcopy(case)
                del c["cons"][ci]["ins"][i]
                yield c
    # drop adapters
    def all_edges(c):
        for k in c["cons"]:
            for x in k["ins"]:
                yield x["edge"]
        for w in c["pulls"]:
            for e in w["ins"]:
                yield e
    n = sum(1 for _ in all_edges(case))
    for j in range(n):
        c = copy.deepcopy(case)
        e = list(all_edges(c))[j]
        if e["ad"]:
            e["ad"] = e["ad"][1:]
            yield c
