"""C14 — grid index-to-coordinate mapping is consistent for every layout.

Correspondence: real UniformGrid / RectilinearGrid / EsriGrid objects are built through the public
constructors for an exhaustive sweep of small configurations (dimension, axis lengths incl.
length-1 axes, order, axes_reversed, axes_increase, data location); every public array property
(dims, data_shape, data_size, point/cell counts, axes, cell_axes, data_axes, points, cells,
cell_types, cells_connectivity, cell_centers, data_points, gen_node_centers, and the same of the
to_unstructured() cast) is compared element-wise with the Coq model Grid.observe (coordinates as
exact Fractions of the floats; the axes are dyadic so the float arithmetic is exact).
Memo cases drive random read / set-location / copy sequences on RectilinearGrid objects.
"""
import itertools
from fractions import Fraction

import numpy as np

from ..coqgen import B, C, L, N, NONE, P, Some
from ..fin import fm

ID = "C14"
COQ_IMPORTS = "From FV Require Import Base Grid."
COQ_CHECK = "c14_check"
COQ_MODEL_OBS = "c14_model"
RULE = (
    "exhaustive sweep: dims in {1..3}^d (quick) / {1..4}^d (thorough), d=1..3 incl. length-1 axes, both orders, "
    "both axes_reversed, all axes_increase vectors, both data locations, for UniformGrid, RectilinearGrid "
    "(irregular dyadic axes, given decreasing where axes_increase is false) and EsriGrid (all ncols,nrows, both orders), "
    "plus malformed constructions (non-monotonic axes, wrong lengths) and random sequences on living grid objects "
    "(reads of data_shape, data_size, data_points, data_axes, points, cells, cell_centers, cell_axes, "
    "to_unstructured().data_points/.data_shape; accepted and rejected data_location changes; shallow and deep copies; "
    "in-place edits by the receiver of arrays returned by the grid, by a copy or by its unstructured cast, followed by "
    "a read of the grid), "
    "every read compared with the model and with a freshly built grid at the current location; non-trivial = the layout differs from the default (order F, not reversed, all "
    "increasing, CELLS) in at least one flag and the grid has >= 2 data elements, or (memo case) a location change "
    "after a read; distinct by canonical case hash"
)
TRUSTED = [
    "Grid.v models gen_points at the rank of the grid (the code pads to 3-D with length-1 axes); np.allclose, float "
    "rounding of coordinates are outside the model (axes are dyadic, compared exactly)",
]
ASSUMPTIONS = [
    "in-place edits by the receiver are generated only for arrays the grid computes on access (points, data_points, "
    "cell_centers, cells) and arrays of derived objects (to_unstructured() points/cells/data_points/cell_centers/"
    "cell_types, the same reads on a shallow copy).  Kept OUT of the domain because the unchanged tree returns them by "
    "reference or as views of the stored axes (editing them does change the grid): `axes`; every `data_axes` entry of a "
    "grid with POINTS data; `data_axes` / `cell_axes` entries of single-node axes (CELLS); a shallow copy() shares the "
    "axes arrays with the original.  Also not generated: RectilinearGrid(axes=g.data_axes) for a POINTS grid g with a "
    "decreasing axis reverses g's stored axis in place (constructor keeps float arrays, check_axes_monotonicity reverses "
    "in place)",
    "coordinates are exact rationals; the implementation's floats are converted with fractions.Fraction",
    "domain of the theorems: every axis has length >= 1; C14_cells_valid / C14_centers_mean: at most 3 non-degenerate axes",
]
CASE_TIMEOUT = 60


def fr(x):
    f = Fraction(x)
    return [f.numerator, f.denominator]


def _fq(p):
    return Fraction(p[0], p[1])


# ---------------------------------------------------------------------------------------------
# generator
# ---------------------------------------------------------------------------------------------
SPACINGS = [Fraction(1), Fraction(1, 2), Fraction(3, 2)]
ORIGINS = [Fraction(0), Fraction(-5, 4), Fraction(7, 2)]
IRREG = [Fraction(1, 2), Fraction(2), Fraction(1, 4), Fraction(3, 2)]


def _rect_axis(n, k, inc):
    """irregular increasing dyadic axis number k with n points; given decreasing when not inc"""
    x = Fraction(-3 + 2 * k, 2)
    ax = []
    for i in range(n):
        ax.append(x)
        x += IRREG[(i + k) % len(IRREG)]
    return ax if inc else ax[::-1]


def _grid_case(cls, dims, order, rev, inc, loc):
    d = len(dims)
    if cls == "uniform":
        return {"kind": "grid", "cls": cls, "dims": list(dims), "spacing": [fr(SPACINGS[i]) for i in range(d)],
                "origin": [fr(ORIGINS[i]) for i in range(d)], "inc": list(inc) if inc is not None else None,
                "order": order, "rev": rev, "loc": loc}
    if cls == "rect":
        return {"kind": "grid", "cls": cls, "axes": [[fr(x) for x in _rect_axis(n, k, inc[k])] for k, n in enumerate(dims)],
                "order": order, "rev": rev, "loc": loc}
    return {"kind": "grid", "cls": "esri", "ncols": dims[0], "nrows": dims[1], "cs": fr(Fraction(1, 2)),
            "xll": fr(Fraction(3, 4)), "yll": fr(Fraction(-2)), "order": order, "rev": True, "loc": "CELLS"}


def _sweep(nmax):
    out = []
    for cls in ("uniform", "rect"):
        for d in (1, 2, 3):
            for dims in itertools.product(range(1, nmax + 1), repeat=d):
                for order in "FC":
                    for rev in (False, True):
                        for inc in itertools.product((True, False), repeat=d):
                            for loc in ("CELLS", "POINTS"):
                                out.append(_grid_case(cls, dims, order, rev, inc, loc))
    for nc in range(1, nmax + 1):
        for nr in range(1, nmax + 1):
            for order in "CF":
                out.append(_grid_case("esri", (nc, nr), order, True, None, "CELLS"))
    return out


PROPS = {"data_axes": 0, "points": 1, "cell_centers": 2, "u_data_points": 3, "cell_axes": 4, "cells": 5, "u_data_shape": 6}


def read_prop(o, name):
    """public property `name` of a living grid object, canonicalised"""
    if name == "data_axes":
        return qmat(list(o.data_axes))
    if name == "points":
        return qmat(o.points)
    if name == "cell_centers":
        return qmat(o.cell_centers)
    if name == "u_data_points":
        return qmat(o.to_unstructured().data_points)
    if name == "cell_axes":
        return qmat(list(o.cell_axes))
    if name == "cells":
        return nmat(o.cells)
    return nrow(o.to_unstructured().data_shape)


# arrays that may be edited in place by their receiver: everything the grid computes on access and everything
# owned by a derived object.  NOT in this list (returned by reference / as views of the stored axes on the unchanged
# tree, see ASSUMPTIONS): axes, data_axes of point data, data_axes / cell_axes entries of single-node axes.
EDITABLE = ["points", "data_points", "cell_centers", "cells", "u_points", "u_cells", "u_data_points", "u_cell_centers",
            "u_cell_types"]


def fetch_editable(o, name):
    if name.startswith("u_"):
        u = o.to_unstructured()
        return {"u_points": lambda: u.points, "u_cells": lambda: u.cells, "u_data_points": lambda: u.data_points,
                "u_cell_centers": lambda: u.cell_centers, "u_cell_types": lambda: u.cell_types}[name]()
    return getattr(o, name)


def _memo_case(rng):
    cls = rng.choice(["uniform", "rect", "rect", "esri"])
    d = rng.choice([1, 2, 2, 3])
    if cls == "esri":
        base = _grid_case("esri", (rng.randint(1, 3), rng.randint(1, 3)), rng.choice("CF"), True, None, "CELLS")
    else:
        dims = [rng.randint(1, 3) for _ in range(d)]
        base = _grid_case(cls, dims, rng.choice("CF"), rng.random() < 0.5, [rng.random() < 0.6 for _ in range(d)],
                          rng.choice(["CELLS", "POINTS"]))
    ops = []
    nobj = 1
    for _ in range(rng.randint(3, 14)):
        k = rng.randrange(nobj) if rng.random() < 0.95 else nobj + rng.randrange(2)
        r = rng.random()
        if r < 0.15:
            ops.append(["shape", k])
        elif r < 0.27:
            ops.append(["size", k])
        elif r < 0.42:
            ops.append(["points", k])
        elif r < 0.54:
            ops.append(["prop", k, rng.choice(sorted(PROPS))])
        elif r < 0.66:
            # the receiver edits, in place, an array it got from the grid, from a copy of it or from its cast;
            # the grid itself must not change: read it again
            ops.append(["edit", k, rng.choice(EDITABLE), rng.random() < 0.3])
            ops.append(rng.choice([["points", k], ["prop", k, "points"], ["prop", k, "u_data_points"],
                                   ["prop", k, "cell_centers"], ["prop", k, "cells"]]))
        elif r < 0.85:
            ops.append(["set", k, rng.choice(["CELLS", "POINTS"])])
        else:
            ops.append(["copy", k, rng.random() < 0.3])
            if k < nobj:
                nobj += 1
    base = dict(base)
    base["kind"] = "memo"
    base["ops"] = ops
    return base


def _memo(base, ops):
    c = dict(base)
    c["kind"] = "memo"
    c["ops"] = ops
    return c


_U23 = _grid_case("uniform", (3, 4), "F", False, (True, True), "CELLS")
CORPUS = [
    # finding F6 (fixed): read data_shape / data_size, change the location, read again
    _memo(_U23, [["shape", 0], ["size", 0], ["set", 0, "POINTS"], ["shape", 0], ["size", 0], ["points", 0]]),
    _memo(_grid_case("rect", (2, 3, 2), "C", True, (True, False, True), "POINTS"),
          [["size", 0], ["copy", 0, False], ["set", 1, "CELLS"], ["size", 1], ["shape", 1], ["shape", 0], ["size", 0]]),
    _memo(_grid_case("esri", (2, 3), "C", True, None, "CELLS"),
          [["shape", 0], ["set", 0, "POINTS"], ["shape", 0], ["set", 0, "CELLS"], ["size", 0], ["shape", 3]]),
    # seeded defect C14_g: the unstructured cast (or a returned array) is edited in place, the grid is read again
    _memo(_grid_case("uniform", (3, 2), "F", False, (True, True), "POINTS"),
          [["prop", 0, "points"], ["edit", 0, "u_points", False], ["prop", 0, "points"], ["points", 0],
           ["prop", 0, "u_data_points"], ["prop", 0, "data_axes"]]),
    _memo(_grid_case("esri", (3, 2), "C", True, None, "CELLS"),
          [["edit", 0, "u_points", False], ["prop", 0, "points"], ["prop", 0, "cell_centers"], ["prop", 0, "u_data_points"],
           ["copy", 0, False], ["prop", 1, "points"]]),
    _memo(_grid_case("rect", (2, 3, 2), "C", True, (True, False, True), "CELLS"),
          [["edit", 0, "points", False], ["prop", 0, "points"], ["edit", 0, "cells", True], ["prop", 0, "cells"],
           ["edit", 0, "cell_centers", False], ["points", 0], ["edit", 0, "u_data_points", False], ["prop", 0, "u_data_points"],
           ["set", 0, "POINTS"], ["edit", 0, "data_points", False], ["points", 0], ["prop", 0, "u_data_points"]]),
    # seeded defect C16_d: data_points read once, location switched on the object / on a copy, read again
    _memo(_U23, [["points", 0], ["set", 0, "POINTS"], ["points", 0], ["shape", 0], ["prop", 0, "u_data_points"],
                 ["copy", 0, False], ["set", 1, "CELLS"], ["points", 1], ["prop", 1, "data_axes"], ["points", 0]]),
    _memo(_grid_case("rect", (3, 2, 2), "C", True, (False, True, True), "POINTS"),
          [["points", 0], ["prop", 0, "data_axes"], ["prop", 0, "cells"], ["copy", 0, True], ["set", 1, "CELLS"],
           ["points", 1], ["prop", 1, "data_axes"], ["prop", 1, "u_data_shape"], ["prop", 1, "cell_centers"],
           ["set", 0, "CELLS"], ["points", 0], ["prop", 0, "u_data_points"]]),
    # the grids of tests/data/test_grid_spec.py
    _grid_case("uniform", (3, 2), "C", False, (True, False), "CELLS"),
    _grid_case("uniform", (3, 2, 2), "F", False, (True, True, True), "CELLS"),
    _grid_case("esri", (3, 2), "C", True, None, "CELLS"),
    # malformed constructions
    {"kind": "grid", "cls": "rect", "axes": [[fr(0), fr(2), fr(1)], [fr(0), fr(1)]], "order": "F", "rev": False, "loc": "CELLS",
     "malformed": True},
    {"kind": "grid", "cls": "rect", "axes": [[fr(0), fr(1)], [fr(1), fr(1)]], "order": "C", "rev": True, "loc": "POINTS",
     "malformed": True},
    {"kind": "grid", "cls": "uniform", "dims": [2, 3], "spacing": [fr(1)], "origin": [fr(0), fr(0)], "inc": None,
     "order": "F", "rev": False, "loc": "CELLS", "malformed": True},
    {"kind": "grid", "cls": "uniform", "dims": [2, 3], "spacing": [fr(1), fr(1)], "origin": [fr(0), fr(0)], "inc": [True],
     "order": "F", "rev": False, "loc": "CELLS", "malformed": True},
    {"kind": "grid", "cls": "uniform", "dims": [2, 3], "spacing": [fr(1), fr(2), fr(3)], "origin": [fr(0), fr(0), fr(1)],
     "inc": None, "order": "C", "rev": True, "loc": "POINTS"},
    # more than three axes are truncated
    {"kind": "grid", "cls": "rect", "axes": [[fr(0), fr(1)], [fr(1), fr(3)], [fr(5)], [fr(0), fr(1), fr(2)]],
     "order": "C", "rev": False, "loc": "CELLS"},
]


def generate(rng, tier):
    cases = list(CORPUS)
    if tier == "quick":
        cases += _sweep(3)
        nmemo, nbig = 500, 20
    else:
        cases += _sweep(4)
        nmemo, nbig = 3000, 300
    for _ in range(nmemo):
        cases.append(_memo_case(rng))
    # random larger grids
    for _ in range(nbig):
        d = rng.choice([1, 2, 3])
        dims = [rng.choice([1, 2, 5, 6, 7]) for _ in range(d)]
        cases.append(_grid_case(rng.choice(["uniform", "rect"]), dims, rng.choice("CF"), rng.random() < 0.5,
                                [rng.random() < 0.5 for _ in range(d)], rng.choice(["CELLS", "POINTS"])))
    return cases


# ---------------------------------------------------------------------------------------------
# implementation driver (public API only)
# ---------------------------------------------------------------------------------------------
def _loc(s):
    return fm.Location.POINTS if s == "POINTS" else fm.Location.CELLS


def build_grid(case, loc=None):
    loc = _loc(loc or case["loc"])
    cls = case["cls"]
    if cls == "uniform":
        return fm.UniformGrid(
            dims=tuple(case["dims"]), spacing=tuple(float(_fq(x)) for x in case["spacing"]),
            origin=tuple(float(_fq(x)) for x in case["origin"]), data_location=loc, order=case["order"],
            axes_reversed=case["rev"], axes_increase=case["inc"])
    if cls == "rect":
        return fm.RectilinearGrid(
            axes=[np.array([float(_fq(x)) for x in ax]) for ax in case["axes"]], data_location=loc,
            order=case["order"], axes_reversed=case["rev"])
    g = fm.EsriGrid(ncols=case["ncols"], nrows=case["nrows"], cellsize=float(_fq(case["cs"])),
                    xllcorner=float(_fq(case["xll"])), yllcorner=float(_fq(case["yll"])), order=case["order"])
    if loc != fm.Location.CELLS:
        g.data_location = loc
    return g


def qmat(a):
    if isinstance(a, (list, tuple)):
        return [[fr(float(x)) for x in np.asarray(r, dtype=float).reshape(-1)] for r in a]
    a = np.asarray(a, dtype=float)
    return [[fr(float(x)) for x in r] for r in a.reshape(a.shape[0], -1)]


def nmat(a):
    a = np.asarray(a)
    return [[int(x) for x in r] for r in a.reshape(a.shape[0], -1)]


def nrow(a):
    return [[int(x) for x in np.asarray(a).reshape(-1)]]


def observe(g):
    from finam.data.grid_tools import gen_node_centers

    u = g.to_unstructured()
    nat = [
        nrow(g.dims), nrow(g.data_shape),
        nrow([g.data_size, g.point_count, g.cell_count, g.mesh_dim, g.dim]),
        # the direction flag of a length-1 axis has no meaning: reported as increasing
        nrow([1 if (b or n == 1) else 0 for b, n in zip(g.axes_increase, g.dims)]),
        nmat(g.cells), nrow(g.cell_types), nrow(g.cells_connectivity),
        nmat(u.cells), nrow(u.cell_types),
        nrow(list(u.data_shape) + [u.point_count, u.cell_count, u.dim]),
    ]
    q = [
        qmat(list(g.axes)), qmat(list(g.cell_axes)), qmat(list(g.data_axes)), qmat(g.points), qmat(g.cell_centers),
        qmat(g.data_points), qmat(gen_node_centers(g)), qmat(u.points), qmat(u.data_points), qmat(u.cell_centers),
    ]
    extra = {"u_data_size": int(u.data_size), "u_order": u.order, "u_loc": u.data_location.name,
             "name": g.name, "loc": g.data_location.name}
    return {"nat": nat, "q": q, "extra": extra}


def run_impl(case):
    try:
        g = build_grid(case)
    except ValueError:
        return {"err": "ValueError"}
    if case["kind"] == "grid":
        try:
            return observe(g)
        except Exception as e:  # noqa: a public property of a constructed grid raised
            return {"err": "observe:" + type(e).__name__}
    objs = [g]
    locs = [case["loc"]]
    res = []
    for op in case["ops"]:
        k = op[1]
        if k >= len(objs):
            res.append({"r": "edit"} if op[0] == "edit" else {"r": "bad"})
            continue
        o = objs[k]
        if op[0] == "shape":
            res.append({"r": "shape", "v": [int(x) for x in o.data_shape],
                        "fresh": [int(x) for x in build_grid(case, locs[k]).data_shape]})
        elif op[0] == "size":
            res.append({"r": "size", "v": int(o.data_size), "fresh": int(build_grid(case, locs[k]).data_size)})
        elif op[0] == "points":
            res.append({"r": "points", "v": qmat(o.data_points), "fresh": qmat(build_grid(case, locs[k]).data_points)})
        elif op[0] == "edit":
            a = fetch_editable(o.copy() if op[3] else o, op[2])
            a += 7  # in place, also through views
            res.append({"r": "edit"})
        elif op[0] == "prop":
            res.append({"r": "prop", "p": op[2], "v": read_prop(o, op[2]), "fresh": read_prop(build_grid(case, locs[k]), op[2])})
        elif op[0] == "set":
            try:
                o.data_location = _loc(op[2])
                locs[k] = op[2]
                res.append({"r": "set", "ok": True, "now": o.data_location.name})
            except ValueError:
                res.append({"r": "set", "ok": False, "now": o.data_location.name})
        else:
            objs.append(o.copy(deep=bool(op[2])))
            locs.append(locs[k])
            res.append({"r": "copy"})
    return {"res": res}


# ---------------------------------------------------------------------------------------------
# Gallina emitter
# ---------------------------------------------------------------------------------------------
def Qc(p):
    return f"({int(p[0])}#{int(p[1])})%Q"


def QL(l):
    return L(Qc(x) for x in l)


def QM(m):
    return L(QL(r) for r in m)


def NL(l):
    return L(N(x) for x in l)


def NM(m):
    return L(NL(r) for r in m)


def coq_spec(case):
    if case["cls"] == "uniform":
        inc = NONE if case["inc"] is None else Some(L(B(b) for b in case["inc"]))
        return C("SUniform", NL(case["dims"]), QL(case["spacing"]), QL(case["origin"]), inc)
    if case["cls"] == "rect":
        return C("SRect", QM(case["axes"]))
    return C("SEsri", N(case["ncols"]), N(case["nrows"]), Qc(case["cs"]), Qc(case["xll"]), Qc(case["yll"]))


def coq_layout(case):
    return P(B(case["order"] == "C"), B(case["rev"]), B(case["loc"] == "POINTS"), N(0))


def _mop(op):
    if op[0] == "shape":
        return C("MShape", N(op[1]))
    if op[0] == "size":
        return C("MSize", N(op[1]))
    if op[0] == "points":
        return C("MPoints", N(op[1]))
    if op[0] == "prop":
        return C("MProp", N(PROPS[op[2]]), N(op[1]))
    if op[0] == "set":
        return C("MSet", N(op[1]), B(op[2] == "POINTS"))
    return C("MCopy", N(op[1]))


def coq_case(case, obs):
    if case["kind"] == "grid":
        return C("GridCase", coq_spec(case), coq_layout(case))
    # an in-place edit of a returned array / of a derived object is no operation on the grid: not part of the model script
    return C("MemoCase", coq_spec(case), coq_layout(case), L(_mop(o) for o in case["ops"] if o[0] != "edit"))


def _mres(r):
    if r["r"] == "shape":
        return C("RShape", NL(r["v"]))
    if r["r"] == "size":
        return C("RSize", N(r["v"]))
    if r["r"] == "points":
        return C("RPoints", QM(r["v"]))
    if r["r"] == "prop":
        p = PROPS[r["p"]]
        return C("RQ", N(p), QM(r["v"])) if p < 5 else C("RN", N(p), NM(r["v"]))
    if r["r"] == "set":
        return C("RSet", B(r["ok"]))
    if r["r"] == "copy":
        return "RCopied"
    return "RBad"


def coq_obs(case, obs):
    if obs.get("err", "ValueError") != "ValueError" or "harness_error" in obs:
        # nothing the model can produce: forces a mismatch
        return C("OMemo", NONE) if case["kind"] == "grid" else C("OGrid", NONE)
    if case["kind"] == "grid":
        if "err" in obs:
            return C("OGrid", NONE)
        return C("OGrid", Some(P(L(NM(m) for m in obs["nat"]), L(QM(m) for m in obs["q"]))))
    if "err" in obs:
        return C("OMemo", NONE)
    return C("OMemo", Some(L(_mres(r) for r in obs["res"] if r["r"] != "edit")))


# ---------------------------------------------------------------------------------------------
# property monitor (on the implementation's own observations, independent of the Coq model)
# ---------------------------------------------------------------------------------------------
def _F(m):
    return [[Fraction(p[0], p[1]) for p in r] for r in m]


def _ravel(idx, shape, order):
    return int(np.ravel_multi_index(tuple(idx), tuple(shape), order=order)) if len(shape) else 0


def _monitor_grid(case, obs):
    nat, q = obs["nat"], obs["q"]
    dims, dshape = nat[0][0], nat[1][0]
    dsize, pcount, ccount, mdim, dim = nat[2][0]
    inc = [bool(b) for b in nat[3][0]]
    cells = nat[4]
    axes, caxes, daxes, points, centers, dpoints, ncenters, upoints, udpoints, ucenters = [_F(m) for m in q]
    order, rev = case["order"], case["rev"]
    loc = obs["extra"]["loc"]
    if loc != (case["loc"] if case["cls"] != "esri" else "CELLS"):
        return f"data_location is {loc}"
    po = order if not rev else {"C": "F", "F": "C"}[order]
    if len(dims) != dim or len(dshape) != dim:
        return "dimension mismatch"
    # data shape / size / points reflect the location
    want_shape = [max(d - 1, 1) if loc == "CELLS" else d for d in (dims[::-1] if rev else dims)]
    if dshape != want_shape:
        return f"data_shape {dshape} is not {want_shape} for location {loc}"
    if dsize != int(np.prod(dshape)) or len(dpoints) != dsize:
        return f"data_size {dsize} / {len(dpoints)} data points for data_shape {dshape}"
    if pcount != len(points) or ccount != len(cells) or ccount != len(centers):
        return "point_count / cell_count do not match points / cells / cell_centers"
    # index -> coordinate (data axes) equals data_points at the flattened position
    for idx in itertools.product(*[range(n) for n in dshape]):
        co = [daxes[k][idx[k]] for k in range(dim)]
        if rev:
            co = co[::-1]
        pos = _ravel(idx, dshape, order)
        if dpoints[pos] != co:
            return f"element {list(idx)} of the data is at {co} by data_axes but data_points[{pos}] = {dpoints[pos]}"
    # axes: increasing; located axes per direction
    dax = [(ax if inc[k] else ax[::-1]) for k, ax in enumerate(axes)]
    cshape = [max(d - 1, 1) for d in dims]
    for ci in itertools.product(*[range(n) for n in cshape]):
        pos = _ravel(ci, cshape, po)
        cell = cells[pos]
        if any(p >= pcount or p < 0 for p in cell):
            return f"cell {pos} references a node outside 0..{pcount - 1}: {cell}"
        if len(cell) != 2 ** mdim:
            return f"cell {pos} has {len(cell)} nodes in a {mdim}-d mesh"
        want = set()
        for off in itertools.product(*[((0, 1) if d > 1 else (0,)) for d in dims]):
            want.add(tuple(dax[k][ci[k] + off[k]] for k in range(dim)))
        got = set(tuple(points[p]) for p in cell)
        if got != want or len(set(cell)) != len(cell):
            return f"cell {list(ci)} at position {pos} has nodes {sorted(got)} instead of the corners {sorted(want)}"
        mean = [sum(points[p][k] for p in cell) / len(cell) for k in range(dim)]
        if centers[pos] != mean:
            return f"cell_centers[{pos}] = {centers[pos]} is not the mean {mean} of its nodes"
        if ncenters[pos] != mean or ucenters[pos] != mean:
            return f"gen_node_centers[{pos}] is not the mean of the nodes"
    # cast
    if upoints != points or nat[7] != cells:
        return "to_unstructured changed points or cells"
    if udpoints != dpoints:
        return "to_unstructured changed the data points"
    if nat[9][0][0] != dsize or obs["extra"]["u_data_size"] != dsize or obs["extra"]["u_order"] != order \
            or obs["extra"]["u_loc"] != loc:
        return "to_unstructured changed data size / order / location"
    return None


def _monitor(case, obs):
    if "err" in obs:
        if case.get("malformed") and obs["err"] == "ValueError":
            return None
        return f"a well-formed grid configuration raised {obs['err']}"
    if case["kind"] == "grid":
        return _monitor_grid(case, obs)
    for i, (op, r) in enumerate(zip(case["ops"], obs["res"])):
        if r["r"] in ("shape", "size", "points", "prop") and r["v"] != r["fresh"]:
            what = r["p"] if r["r"] == "prop" else "data_" + r["r"]
            return (f"op {i} {op}: {what} = {str(r['v'])[:200]} but a fresh grid at the current location gives "
                    f"{str(r['fresh'])[:200]}")
        if r["r"] == "set" and r["ok"] and r["now"] != op[2]:
            return f"op {i} {op}: data_location is {r['now']} after a successful set"
    return None


def monitor(case, obs):
    try:
        return _monitor(case, obs)
    except (IndexError, KeyError, TypeError, ValueError) as e:  # observation too inconsistent to evaluate
        return f"public grid properties are mutually inconsistent ({type(e).__name__} while evaluating the predicate)"


def nontrivial(case, obs):
    if "err" in obs:
        return False
    if case["kind"] == "grid":
        inc = obs["nat"][3][0]
        nondefault = case["order"] == "C" or case["rev"] or (0 in inc) or obs["extra"]["loc"] == "POINTS"
        return nondefault and obs["nat"][2][0][0] >= 2
    seen_read = False
    for op, r in zip(case["ops"], obs["res"]):
        if r["r"] in ("shape", "size", "points", "prop"):
            seen_read = True
        if r["r"] == "set" and r["ok"] and seen_read:
            return True
    return False


def distribution(cases, obss):
    from collections import Counter

    kinds = Counter(c["kind"] + ":" + c["cls"] for c in cases)
    errs = Counter("ValueError" if "err" in o else "ok" for o in obss if isinstance(o, dict))
    dimc = Counter(len(o["nat"][0][0]) for o in obss if isinstance(o, dict) and "nat" in o)
    mesh = Counter(o["nat"][2][0][3] for o in obss if isinstance(o, dict) and "nat" in o)
    mops = Counter(op[0] for c in cases if c["kind"] == "memo" for op in c["ops"])
    return {"case_kinds": dict(kinds), "construction": dict(errs), "grid_dim": dict(dimc), "mesh_dim": dict(mesh),
            "memo_ops": dict(mops)}


def shrink_candidates(case):
    if case["kind"] == "memo":
        ops = case["ops"]
        for i in range(len(ops) - 1, -1, -1):
            if ops[i][0] == "copy":
                continue
            c = dict(case)
            c["ops"] = ops[:i] + ops[i + 1:]
            yield c
        return
    if case["cls"] == "uniform":
        for k, d in enumerate(case["dims"]):
            if d > 1:
                c = dict(case)
                c["dims"] = [x - 1 if j == k else x for j, x in enumerate(case["dims"])]
                yield c
