"""C01 — the scheduler never updates a component before its input data exists.

Correspondence: random compositions (DAGs and delay-resolved cycles, pull-based components in between, fixed and
varying step sequences, start offsets, adapter chains in every ordering) are run by the REAL Composition.run; the
recorded trace (update order, every pull with the time that reaches the source output / the buffering adapter,
outcome, final times) must equal the trace of the Coq model Sched.run on the same composition.
Monitor (search oracle): during every update each pull succeeds and the source had published at or beyond the time
actually requested from it."""
from . import sched_common as sc
from . import builtin_family as bf
from .sched_common import (TRUSTED, coq_obs)  # noqa: F401

# dense compositions are evaluated by FV.Sched (the model of the theorems) and by its generalisation FV.SchedSparse with
# all publication periods 1; compositions with sparse publishers by FV.SchedSparse
COQ_IMPORTS = "From FV Require Import Base Sched SchedSparse."
COQ_CHECK = "c01_check"
COQ_MODEL_OBS = "c01_model"
coq_case = sc.coq_case_c01

ID = "C01"
RULE = (
    "random compositions: 2-6 components (time-stepped with fixed/alternating/irregular steps and start offsets, "
    "0-2 pull-based), acyclic dependency graphs in random listing order and delay-resolved rings with chords/tails, "
    "adapter chains of length 0-4 from {Scale, DelayFixed, DelayToPull, DelayToPush, Next/Previous/Linear/StepTime, "
    "Avg/SumOverTime} in every ordering, optional initial pulls; sources that publish only at every 2nd-5th update "
    "(read directly, through delays, interpolation, a pull-based relay); non-trivial = at least 2 time components, at least one "
    "adapter and at least one update of a component that is not the least advanced one (an upstream component was "
    "advanced first); distinct by canonical case hash"
)
ASSUMPTIONS = [
    "valid composition = harness components (publish every output at every update, pull at the announced time), "
    "every pull-based component is read along one request-time sequence (see known finding F16), no DelayToPull on "
    "inputs of pull-based components, no delay adapter upstream of a buffering adapter on a late-starting producer",
]
CASE_TIMEOUT = 60

CORPUS = [
    # F2 (fixed): delay adapter upstream of a push-based adapter
    {"comps": [{"kind": "T", "start": 0, "steps": [3 * sc.DAY], "initpull": False, "nout": 1, "inputs": []},
               {"kind": "T", "start": 0, "steps": [2 * sc.DAY], "initpull": False, "nout": 0,
                "inputs": [{"src": [0, 0], "chain": [["buf", "linear"], ["fixed", 4 * sc.DAY]]}]}],
     "end": 12 * sc.DAY},
    # F1 (fixed): two delay adapters on one link of a ring
    {"comps": [{"kind": "T", "start": 0, "steps": [10 * sc.DAY], "initpull": False, "nout": 1,
                "inputs": [{"src": [1, 0], "chain": [["fixed", 6 * sc.DAY], ["fixed", 5 * sc.DAY]]}]},
               {"kind": "T", "start": 0, "steps": [sc.DAY], "initpull": False, "nout": 1,
                "inputs": [{"src": [0, 0], "chain": []}]}],
     "end": 30 * sc.DAY},
    # F9 (fixed): two outputs of one pull-based component read by one consumer
    {"comps": [{"kind": "T", "start": 0, "steps": [3 * sc.DAY], "initpull": False, "nout": 0,
                "inputs": [{"src": [1, 0], "chain": []}, {"src": [1, 1], "chain": []}]},
               {"kind": "P", "nout": 2, "inputs": [{"src": [2, 0], "chain": []}]},
               {"kind": "T", "start": 0, "steps": [sc.DAY], "initpull": False, "nout": 1, "inputs": []}],
     "end": 10 * sc.DAY},
    # a relay with two outputs read by one consumer, the delayed link declared first
    {"comps": [{"kind": "T", "start": 0, "steps": [sc.DAY], "initpull": False, "nout": 1, "inputs": []},
               {"kind": "P", "nout": 2, "inputs": [{"src": [0, 0], "chain": []}]},
               {"kind": "T", "start": 0, "steps": [5 * sc.DAY], "initpull": False, "nout": 0,
                "inputs": [{"src": [1, 0], "chain": [["fixed", 3 * sc.DAY]]}, {"src": [1, 1], "chain": []}]}],
     "end": 12 * sc.DAY},
    # ONE output of a pull-based component read twice by one consumer, the delayed link declared first
    {"comps": [{"kind": "T", "start": 0, "steps": [sc.DAY], "initpull": False, "nout": 1, "inputs": []},
               {"kind": "P", "nout": 1, "inputs": [{"src": [0, 0], "chain": []}]},
               {"kind": "T", "start": 0, "steps": [5 * sc.DAY], "initpull": False, "nout": 0,
                "inputs": [{"src": [1, 0], "chain": [["fixed", 5 * sc.DAY]]}, {"src": [1, 0], "chain": []}]}],
     "end": 12 * sc.DAY},
    # F16 (known): a pull-based component read by two consumers with different steps
    {"comps": [{"kind": "T", "start": 0, "steps": [7], "initpull": False, "nout": 1, "inputs": []},
               {"kind": "P", "nout": 1, "inputs": [{"src": [0, 0], "chain": []}]},
               {"kind": "T", "start": 0, "steps": [7], "initpull": False, "nout": 0, "inputs": [{"src": [1, 0], "chain": []}]},
               {"kind": "T", "start": 0, "steps": [2], "initpull": False, "nout": 0, "inputs": [{"src": [1, 0], "chain": []}]}],
     "end": 14},
]


def generate(rng, tier):
    n = 260 if tier == "quick" else 5000
    cases = list(CORPUS)
    for i in range(n):
        m = i % 10
        if m < 6:
            cases.append(sc.gen_dag(rng) if i % 3 else sc.with_listeners(rng, sc.gen_dag(rng)))
        elif m < 8:
            cases.append(sc.gen_ring(rng, sufficient=True) if i % 3 else sc.with_listeners(rng, sc.gen_ring(rng, sufficient=True)))
        elif m == 8 and i % 20 == 8:
            cases.append(sc.gen_dag(rng, shared_pull=True))
        elif m == 8:
            cases.append([sc.gen_pipeline, sc.gen_relay2, sc.gen_two_relays, sc.gen_shared_equal, sc.gen_pull_ring, sc.gen_lookahead, sc.gen_ring_mixed, sc.gen_relay_twice][(i // 20) % 8](rng))
        else:
            cases.append(sc.gen_ring(rng))
    # every special family is drawn a fixed number of times (the rotation above reaches each only once or twice)
    for g in (sc.gen_pipeline, sc.gen_relay2, sc.gen_two_relays, sc.gen_shared_equal, sc.gen_pull_ring, sc.gen_lookahead,
              sc.gen_ring_mixed, sc.gen_relay_twice, sc.gen_ring_staggered, sc.gen_topush_behind_pull):
        for _ in range(4 if tier == "quick" else 60):
            cases.append(g(rng))
    for k, c in enumerate(cases):
        if k >= len(CORPUS) and k % 4 == 1 and "comps" in c:
            c["autostart"] = True      # connect() without a start time (the composition takes the earliest component's)
    for i in range(40 if tier == "quick" else 1000):
        cases.append(sc.gen_sparse(rng))
    for _ in range(10 if tier == "quick" else 200):
        cases.append(sc.gen_ctrl_step(rng))   # step switched from outside (monitor only)
    for _ in range(16 if tier == "quick" else 300):
        cases.append(sc.gen_push_merger(rng))  # a push-based component with outputs in between (monitor only)
    # finam's own components with timedelta / calendar steps (monitor only)
    for _ in range(16 if tier == "quick" else 300):
        cases.append(bf.gen_builtin(rng))
    return cases


def monitor(case, obs):
    if "builtin" in case:
        return bf.monitor_builtin(case, obs)
    if sc.has_push_comp(case):
        return sc.monitor_push_merger(case, obs)
    comps = case["comps"]
    t0 = obs["t0"]
    if obs["phase"] != "run":
        return f"connect phase failed with {obs['outcome']}"
    # newest publication of every time component (a component may publish only at every p-th update)
    times = {k: c["start"] for k, c in enumerate(comps) if c["kind"] == "T"}
    cnt = {k: 0 for k in times}
    cur = None
    for e in obs["events"]:
        if e[0] == "U":
            if cur is not None:
                cnt[cur[0]] += 1
                if cnt[cur[0]] % max(1, comps[cur[0]].get("pubevery", 1)) == 0:
                    times[cur[0]] = cur[1]
            cur = (e[1], e[2])
        elif e[0] == "S" and comps[e[1]]["kind"] == "T" and e[2] >= comps[e[1]]["nout"]:
            pass  # a static output serves every request time
        elif e[0] == "S" and comps[e[1]]["kind"] == "T":
            if e[3] > times[e[1]]:
                return (f"update of C{cur[0]} to {cur[1]}: output C{e[1]}.o{e[2]} is asked for {e[3]} but its newest "
                        f"publication is {times[e[1]]}")
            if e[3] < t0:
                return f"update of C{cur[0]}: output C{e[1]}.o{e[2]} is asked for {e[3]} before the first publication {t0}"
        elif e[0] == "B":
            src = comps[e[1]]["inputs"][e[2]]["src"][0]
            if comps[src]["kind"] == "T" and e[3] > times[src]:
                return (f"update of C{cur[0]} to {cur[1]}: the buffering adapter on C{e[1]}.i{e[2]} is asked for {e[3]} "
                        f"but its source published only up to {times[src]}")
    if obs["outcome"] in ("TimeError", "NoDataError"):
        return f"a pull during an update failed with {obs['outcome']}"
    if obs["outcome"] not in ("ok", "CircularCoupling"):
        return f"run ended with {obs['outcome']}"
    return None


def nontrivial(case, obs):
    if "builtin" in case:
        return len(obs.get("mid_times", [])) >= 3
    if sc.has_push_comp(case):
        return any(e[0] == "S" and case["comps"][e[1]]["kind"] == "R" for e in obs["events"])
    comps = case["comps"]
    if sum(1 for c in comps if c["kind"] == "T") < 2:
        return False
    if not any(i["chain"] for c in comps for i in c["inputs"]):
        return False
    for _, c, _, before in sc.replay_times(case, obs):
        if before[c] > min(before.values()):
            return True
    return False


classifiers = {
    "shared_pull_component_nonmonotone_requests":
        lambda case, obs, failure: "comps" in case and sc.nonmonotone_pull_component_requests(case, obs),
}


def model_applies(case):
    return "builtin" not in case and not sc.has_ctrl(case)


def run_impl(case):
    if "builtin" in case:
        return bf.run_builtin(case["builtin"])
    return sc.run_impl(case)


def shrink_candidates(case):
    if "builtin" in case or sc.has_push_comp(case):
        return
    yield from sc.shrink_candidates(case)


def distribution(cases, obss):
    pairs = [(c, o) for c, o in zip(cases, obss) if "builtin" not in c]
    d = sc.distribution([c for c, _ in pairs], [o for _, o in pairs])
    d["builtin_component_cases"] = len(cases) - len(pairs)
    return d
